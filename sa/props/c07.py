"""C07 -- ``evaluate``: fold-loop roles, no leakage, order / multiplicity, strategy table.

Decides (DESIGN 3/C07): R1 argument roles at the call of the checked scoring object, R2 provenance of
everything handed to ``forecaster.fit / update / predict`` (no leakage, exact training window, the
exogenous rows ``cutoff+1 .. last test position``), R3 order fit-or-update < predict < score < row
append, one row per split, the row's cutoff / len_train_window / score (the cutoff must be read after this
fold's fit-or-update -- DESIGN says "after predict", but predict does not move the cutoff, so a read between
fit and predict is behaviour-preserving and accepted), R4 the strategy table
(``fit`` iff first fold or refit), ``_check_strategy`` / ``check_cv`` / ``check_scoring`` / ``check_y_X``
precede their uses and reject what they have to reject.

Everything is decided on provenance terms computed by ``_c07_prov.Interp`` (helpers of the module are
inlined, so extracting / inlining a helper, renaming locals, temporaries, keyword vs positional
arguments do not change a verdict).
"""
from ..index import AnalysisError
from ..lin import Lin
from .. import astq
from ._c07_prov import (Interp, Validators, T, P, C, NONE, attr, sub, fn, call, is_const, cval, is_call, is_mcall,
                        call_args, subterms, contains, show, bind_terms, ceval, pc_holds, Undef, int_consts, valuations,
                        strip_list, anchor_unsupported)

FUNCS = "sktime/forecasting/model_evaluation/_functions.py"
VALID = "sktime/utils/validation/forecasting.py"
CLASSES = "sktime/performance_metrics/forecasting/_classes.py"
BASE = "sktime/forecasting/base/_base.py"
VMOD = "sktime.utils.validation.forecasting."
FH_CLS = "sktime.forecasting.base._fh.ForecastingHorizon"

FORECASTER = P("forecaster")


# ----------------------------------------------------------------------------- metric call signature
def metric_call_signature(ctx, repo, rule="R1", report=True):
    """Parameter names of ``__call__`` agreed by the metric wrapper and its mixins -> FunctionDef or None."""
    mod = repo.module(CLASSES)
    base = repo.cls(CLASSES + ":_MetricFunctionWrapper")
    if "__call__" not in base.methods:
        raise AnalysisError("anchor missing: _MetricFunctionWrapper.__call__")
    ref = base.methods["__call__"]
    want = astq.param_names(ref, skip_self=True)
    ok = True
    for c in sorted(repo.classes.values(), key=lambda k: k.qual):
        if c.module is not mod or "__call__" not in c.methods:
            continue
        got = astq.param_names(c.methods["__call__"], skip_self=True)
        agree = got == want and want[:2] == ["y_true", "y_pred"]
        if report:
            ctx.check(True if agree else None, rule, "%s.__call__:signature" % c.name,
                      "parameters (%s) -- the roles of a positional metric call are well defined" % ", ".join(got),
                      "parameters (%s) differ from _MetricFunctionWrapper.__call__ (%s): roles of the metric call "
                      "cannot be resolved" % (", ".join(got), ", ".join(want)), ctx.loc(mod, c.methods["__call__"]))
        ok = ok and agree
    return ref if ok else None


# ----------------------------------------------------------------------------- analysis of evaluate()
class EvalAnalysis:
    """One abstract run of ``evaluate`` for one scenario (exogenous data given / not given)."""

    def __init__(self, repo, x_given):
        self.repo = repo
        self.x_given = x_given
        self.mod = repo.module(FUNCS)
        self.fn = repo.func(FUNCS, "evaluate")
        params = astq.all_param_names(self.fn)
        for need in ("forecaster", "cv", "y", "X", "strategy", "scoring"):
            if need not in params:
                raise AnalysisError("anchor changed: evaluate() has no parameter %r" % need)
        self.V = Validators(repo)
        self.interp = Interp(repo, policy=self.policy, classify=self.classify, decide=self.decide)
        args = {"X": P("X") if x_given else NONE}
        self.res = self.interp.run(self.mod, self.fn, args)
        self.events = self.res.events
        self._find_loop()

    # -- interpreter callbacks
    def policy(self, kind, name, target, fr):
        # helpers defined in the module of evaluate() are inlined; validators elsewhere stay symbolic
        return kind == "func" and name.rsplit(".", 1)[0] == self.mod.name

    def decide(self, t, st):
        if isinstance(t, T) and t.op == "cmp" and t.a[0] in ("Is", "IsNot") and t.a[2] == NONE:
            core = self.V.strip(t.a[1])
            if core == NONE:
                return t.a[0] == "Is"
            if core == P("X") and self.x_given:
                return t.a[0] == "IsNot"
        return None

    def is_y(self, t):
        return self.V.strip(t) == P("y")

    def is_X(self, t):
        return self.V.strip(t) == P("X")

    def is_scoring(self, t):
        return self.V.strip(t) == P("scoring")

    def is_cv(self, t):
        return self.V.strip(t) == P("cv")

    def classify(self, ev):
        if ev.kind != "call" or not isinstance(ev.callee, T):
            return ()
        f = ev.callee
        kinds = []
        if f.op == "attr" and f.a[0] == FORECASTER:
            if f.a[1] in ("fit", "update"):
                kinds.append("fitupd")
            elif f.a[1] == "predict":
                kinds.append("predict")
        if f.op == "attr" and f.a[1] == "append" and isinstance(f.a[0], T) and f.a[0].op == "carried" and ev.ctxs:
            kinds.append("append")
        if f.op == "attr" and f.a[1] == "split" and self.is_cv(f.a[0]):
            kinds.append("split")
        if self.is_scoring(f):
            kinds.append("score")
        if f.op == "fn":
            name = f.a[0]
            if name == self.mod.name + "._check_strategy" and ev.args[:1] == [P("strategy")]:
                kinds.append("chk_strategy")
            elif name == VMOD + "check_cv":
                b = self._bind_validator(name, ev)
                if b is not None and b.get("cv") == P("cv"):
                    kinds.append("chk_cv" if b.get("enforce_start_with_window") == C(True) else "chk_cv_weak")
            elif name == VMOD + "check_scoring":
                b = self._bind_validator(name, ev)
                if b is not None and b.get("scoring") == P("scoring"):
                    kinds.append("chk_scoring")
            elif name == VMOD + "check_y_X":
                b = self._bind_validator(name, ev)
                if b is not None and b.get("y") == P("y") and b.get("X") in (P("X"), NONE):
                    kinds.append("chk_yX")
        return kinds

    def _bind_validator(self, name, ev):
        info = self.interp.fnmap.get(name)
        if info is None or info[0] != "func":
            return None
        return bind_terms(info[2], ev.args, ev.kwargs, skip_self=False)

    # -- fold loop and the split roles
    def by_kind(self, k):
        return [e for e in self.events if k in e.kinds]

    def _find_loop(self):
        self.loop = None
        self.ELEM = self.TRAIN = self.TEST = self.ENUM = None
        evs = self.by_kind("fitupd") + self.by_kind("predict")
        lids = set()
        for e in evs:
            fors = [l for l in e.ctxs if self.interp.loops[l].kind == "for"]
            lids.add(fors[-1] if fors else None)
        if len(lids) != 1 or None in lids:
            return
        self.loop = self.interp.loops[lids.pop()]
        it = self.loop.iter
        inner = it
        if is_call(it, fn("builtins.enumerate")):
            args, kw = call_args(it)
            inner = args[0] if args else it
        self.split_term = strip_list(inner)
        self.ELEM = T("elem", self.split_term, self.loop.id)
        self.TRAIN = T("item", self.ELEM, 0)
        self.TEST = T("item", self.ELEM, 1)

    # -- labels of data terms
    def slice_of(self, t):
        """('y'|'X', row index term) for ``<y or X>.iloc[rows]`` / ``.iloc[rows, :]``."""
        if not (isinstance(t, T) and t.op == "sub" and isinstance(t.a[0], T) and t.a[0].op == "attr"
                and t.a[0].a[1] == "iloc"):
            return None
        base = t.a[0].a[0]
        kind = "y" if self.is_y(base) else ("X" if self.is_X(base) else None)
        if kind is None:
            return None
        idx = t.a[1]
        if isinstance(idx, T) and idx.op == "tuple" and len(idx.a[0]) == 2:
            rows, cols = idx.a[0]
            if not (isinstance(cols, T) and cols.op == "slice" and cols.a == (None, None, None)):
                return None
            idx = rows
        return kind, idx

    def cutoff_label(self):
        """Label of the last training time point: ``y.iloc[train].index[-1]``."""
        out = []
        for x in self._y_train_terms():
            out.append(sub(attr(x, "index"), C(-1)))
        return out

    def _y_train_terms(self):
        """Terms that denote this fold's training window of y (``y.iloc[train]`` or the equivalent first..last slice)."""
        if getattr(self, "_ytt", None) is not None:
            return self._ytt
        if getattr(self, "_ytt_busy", False):
            return []
        self._ytt_busy = True
        out = []
        try:
            for e in self.events:
                for a in list(e.args) + list(e.kwargs.values()):
                    for x in subterms(a):
                        s = self.slice_of(x)
                        if s is not None and s[0] == "y" and x not in out and (s[1] == self.TRAIN or self.label(x) == "y[train]"):
                            out.append(x)
        finally:
            self._ytt_busy = False
        self._ytt = out
        return out

    def is_rel_fh(self, t):
        """``cv.fh`` (validated) made relative to this fold's cutoff label."""
        if is_mcall(t, "to_relative"):
            args, kw = call_args(t)
            c = args[0] if args else kw.get("cutoff")
            if c is None or c not in self.cutoff_label():
                return False
            t = t.a[0].a[0]
        if is_call(t, fn(VMOD + "check_fh")):
            args, kw = call_args(t)
            t = args[0] if args else kw.get("fh")
            if t is None:
                return False
        return isinstance(t, T) and t.op == "attr" and t.a[1] == "fh" and self.is_cv(t.a[0])

    def lin(self, t):
        """Affine form over t0=test[0], tl=test[-1], c=train[-1], s=train[0]; fh.min() = t0 - c (C01-R1)."""
        if is_const(t) and isinstance(cval(t), int) and not isinstance(cval(t), bool):
            return Lin.c(cval(t))
        if isinstance(t, T) and t.op == "sub" and is_const(t.a[1]) and isinstance(cval(t.a[1]), int) and not isinstance(cval(t.a[1]), bool):
            # a single split position; only [0] / [-1] have facts, any other element is a symbol of its own
            if t.a[0] == self.TEST:
                return Lin.sym("test[%d]" % cval(t.a[1]))
            if t.a[0] == self.TRAIN:
                return Lin.sym("train[%d]" % cval(t.a[1]))
        if isinstance(t, T) and t.op == "binop" and t.a[0] in ("Add", "Sub"):
            a, b = self.lin(t.a[1]), self.lin(t.a[2])
            if a is None or b is None:
                return None
            return a + b if t.a[0] == "Add" else a - b
        if is_mcall(t, "min") and not t.a[1] and not t.a[2] and self.is_rel_fh(t.a[0].a[0]):
            return Lin.sym("test[0]") - Lin.sym("train[-1]")
        if is_mcall(t, "max") and not t.a[1] and not t.a[2] and self.is_rel_fh(t.a[0].a[0]):
            return Lin.sym("test[-1]") - Lin.sym("train[-1]")
        return None

    def rows(self, idx):
        """Half-open position range (lo, hi) of an index term, or None."""
        if isinstance(idx, T) and idx.op == "binop" and idx.a[0] in ("Add", "Sub"):
            r = self.rows(idx.a[1])
            k = self.lin(idx.a[2])
            if r is not None and k is not None:
                return (r[0] + k, r[1] + k) if idx.a[0] == "Add" else (r[0] - k, r[1] - k)
            if idx.a[0] == "Add":
                r = self.rows(idx.a[2])
                k = self.lin(idx.a[1])
                if r is not None and k is not None:
                    return (r[0] + k, r[1] + k)
            return None
        if is_call(idx) and isinstance(idx.a[0], T) and idx.a[0] in (fn("numpy.arange"), fn("builtins.range")):
            args, kw = call_args(idx)
            if kw or not 1 <= len(args) <= 2:
                return None
            lo = self.lin(args[0]) if len(args) == 2 else Lin.c(0)
            hi = self.lin(args[-1])
            if lo is None or hi is None:
                return None
            return lo, hi
        if is_call(idx, fn("builtins.slice")) and not idx.a[2] and 1 <= len(idx.a[1]) <= 2:
            lo = self.lin(idx.a[1][0]) if len(idx.a[1]) == 2 else Lin.c(0)
            hi = self.lin(idx.a[1][-1])
            return None if lo is None or hi is None else (lo, hi)
        if isinstance(idx, T) and idx.op == "slice" and idx.a[2] is None:
            lo = Lin.c(0) if idx.a[0] is None else self.lin(idx.a[0])
            hi = self.lin(idx.a[1]) if idx.a[1] is not None else None
            if lo is None or hi is None:
                return None
            return lo, hi
        return None

    def label(self, t):
        """Recognised provenance class of a data term (string) or None when the term is opaque."""
        core = self.V.strip(t)
        while is_mcall(core, "copy") and not core.a[1]:
            core = self.V.strip(core.a[0].a[0])
        if core == NONE:
            return "None"
        if isinstance(core, T) and core.op == "carried":
            return "stale value carried over from the previous fold (%s)" % core.a[0]
        s = self.slice_of(core)
        if s is not None:
            kind, idx = s
            if idx == self.TRAIN:
                return "%s[train]" % kind
            if idx == self.TEST:
                return "%s[test]" % kind
            r = self.rows(idx)
            if r is not None:
                # the training window is a run of consecutive positions (C01-R1 :contiguous), so first .. last is the window itself;
                # the test positions are cutoff + fh and have gaps whenever the horizon has
                if r[0] == Lin.sym("train[0]") and r[1] == Lin.sym("train[-1]") + 1:
                    return "%s[train]" % kind
                return "%s[rows %r .. %r)" % (kind, r[0], r[1])
            # the split positions shifted by a constant (train - 1, test + 1, ...)
            if isinstance(idx, T) and idx.op == "binop" and idx.a[0] in ("Add", "Sub"):
                for pos, k in ((idx.a[1], idx.a[2]), (idx.a[2], idx.a[1])):
                    if pos in (self.TRAIN, self.TEST) and is_const(k) and isinstance(cval(k), int) and not isinstance(cval(k), bool) \
                            and (idx.a[0] == "Add" or pos is idx.a[1]):
                        which = "train" if pos == self.TRAIN else "test"
                        d = cval(k) if idx.a[0] == "Add" else -cval(k)
                        return "%s[%s]" % (kind, which) if d == 0 else "%s[%s shifted by %+d]" % (kind, which, d)
            # a constant sub-selection of the split positions (test[:-1], train[1:], test[0], ...)
            if isinstance(idx, T) and idx.op == "sub" and idx.a[0] in (self.TRAIN, self.TEST):
                which = "train" if idx.a[0] == self.TRAIN else "test"
                k = idx.a[1]
                if isinstance(k, T) and k.op == "slice" and k.a == (None, None, None):
                    return "%s[%s]" % (kind, which)
                consts = [x for x in (k.a if isinstance(k, T) and k.op == "slice" else (k,)) if x is not None]
                if consts and all(is_const(x) and isinstance(cval(x), int) for x in consts):
                    return "%s[part of %s]" % (kind, which)
            return None
        if isinstance(core, T) and core.op == "sub" and isinstance(core.a[0], T) and core.a[0].op == "attr" and core.a[0].a[1] == "index" \
                and is_const(core.a[1]) and isinstance(cval(core.a[1]), int):
            inner = self.label(core.a[0].a[0])
            return None if inner is None else "%s.index[%d]" % (inner, cval(core.a[1]))
        # state held by the forecaster object (forecaster._y, getattr(forecaster, "_y", default), ...): not this split's window
        if isinstance(core, T) and core.op == "attr" and core.a[0] == FORECASTER:
            return "forecaster.%s (state of the forecaster)" % core.a[1]
        if is_call(core, fn("builtins.getattr")) and len(core.a[1]) >= 2 and core.a[1][0] == FORECASTER and is_const(core.a[1][1]):
            return "forecaster.%s (state of the forecaster)" % cval(core.a[1][1])
        if core == P("y"):
            return "y (whole series)"
        if core == P("X"):
            return "X (whole frame)"
        if is_mcall(core, "predict", FORECASTER):
            return "forecaster.predict(...)"
        if is_const(core):
            return "constant %r" % (cval(core),)
        return None

    def leak_sources(self, t):
        """Labels of observations outside the training window that flow into ``t`` by value
        (sub-terms below an ``.index`` / ``len`` are labels / sizes only and do not count)."""
        out = []
        stack = [t]
        while stack:
            x = stack.pop()
            if isinstance(x, tuple):
                stack.extend(x)
                continue
            if not isinstance(x, T):
                continue
            if x.op == "attr" and x.a[1] in ("index", "shape", "name", "columns"):
                continue
            if x.op in ("elem", "item", "enumidx"):
                continue  # split positions, not observations
            if is_call(x, fn("builtins.len")):
                continue
            lab = self.label(x)
            sl = self.slice_of(x)
            if lab is None and sl is not None:
                # a slice whose rows are not interpretable: decided only by what the row expression mentions
                if sl[0] == "y" and contains(sl[1], self.TEST) and not contains(sl[1], self.TRAIN):
                    out.append("y[part of test]")
                continue
            if lab is not None and (lab.startswith("y[") or lab.startswith("y (")) and lab != "y[train]":
                if lab not in out:
                    out.append(lab)
                continue
            if lab is not None and lab.endswith("[train]"):
                continue
            stack.extend(x.a)
        return out

    def fh_label(self, t):
        """Provenance class of a horizon argument."""
        core = self.V.strip(t)
        if is_call(core, fn(FH_CLS)):
            info = self.interp.fnmap.get(FH_CLS)
            init = self.repo.lookup_method(info[1], "__init__") if info else None
            if init is None:
                return None
            b = bind_terms(init[1], *call_args(core))
            if b is None:
                return None
            vals = b.get("values")
            rel = b.get("is_relative", C(True))
            if not (isinstance(vals, T) and vals.op == "attr" and vals.a[1] == "index"):
                return None
            src = self.label(vals.a[0])
            if src is None or not is_const(rel):
                return None
            return "ForecastingHorizon(%s.index, is_relative=%r)" % (src, cval(rel))
        if isinstance(core, T) and core.op == "attr" and core.a[1] == "fh" and self.is_cv(core.a[0]):
            return REL
        if is_call(core, fn(VMOD + "check_fh")) and core.a[1] and isinstance(core.a[1][0], T) \
                and core.a[1][0].op == "attr" and core.a[1][0].a[1] == "fh" and self.is_cv(core.a[1][0].a[0]):
            return REL
        if is_mcall(core, "get_fh") and not core.a[1] and not core.a[2] and self.is_cv(core.a[0].a[0]) and self._get_fh_is_fh():
            return REL
        if core == NONE:
            return "None"
        lab = self.label(core)
        return lab

    def _get_fh_is_fh(self):
        """``BaseSplitter.get_fh()`` returns (the validated) ``self.fh``."""
        if not hasattr(self, "_gf"):
            self._gf = False
            try:
                k = self.repo.cls("sktime/forecasting/model_selection/_split.py:BaseSplitter")
                f = k.methods.get("get_fh")
                if f is not None:
                    r = Interp(self.repo).run(k.module, f, {}, cls=k, defcls=k)
                    cores = set()
                    for _, t in r.returns:
                        if is_call(t, fn(VMOD + "check_fh")) and t.a[1]:
                            t = t.a[1][0]
                        cores.add(t)
                    self._gf = not r.unsupported and cores == {attr(P("self"), "fh")}
            except AnalysisError:
                self._gf = False
        return self._gf


REL = "cv.fh (steps relative to the cutoff)"
# predict must be asked for the test window's own labels; cutoff + k denotes the same labels only on an index without holes
FH_OK = ("ForecastingHorizon(y[test].index, is_relative=False)",)
# fit may also see the splitter's relative horizon (no observation flows, and predict decides what is forecast)
FH_FIT_OK = FH_OK + (REL,)


class Merged:
    """Collects verdicts of the scenarios and reports each (rule, construct) once when they agree."""

    def __init__(self, ctx):
        self.ctx = ctx
        self.items = {}  # (rule, construct) -> list of (scenario, verdict, detail, loc, vkey)
        self.order = []

    def add(self, scen, verdict, rule, construct, detail, loc, vkey=None):
        k = (rule, construct)
        if k not in self.items:
            self.items[k] = []
            self.order.append(k)
        self.items[k].append((scen, verdict, detail, loc, vkey))

    def check(self, scen, cond, rule, construct, ok, bad, loc, vkey=None):
        self.add(scen, "ok" if cond else ("undecided" if cond is None else "violation"), rule, construct,
                 ok if cond else bad, loc, vkey)

    def flush(self):
        for rule, construct in self.order:
            recs = self.items[(rule, construct)]
            seen = set()
            for scen, verdict, detail, loc, vkey in recs:
                key = (verdict, vkey)
                if key in seen:
                    continue
                seen.add(key)
                same = all((v, k) == key for _, v, _, _, k in recs)
                tag = "" if same else "[%s]" % scen
                name = "%s%s" % (construct, tag)
                if verdict == "ok":
                    self.ctx.ok(rule, name, detail, loc)
                elif verdict == "undecided":
                    self.ctx.undecided(rule, name, detail, loc)
                else:
                    self.ctx.violation(rule, name + ("<-" + vkey if vkey else ""), detail, loc)


def role_check(out, scen, rule, construct, label, expected, what, loc, wrong_hint="", leaks=()):
    """label in expected -> HOLDS; another *recognised* label -> VIOLATION; opaque -> UNDECIDED
    (VIOLATION when observations outside the training window demonstrably flow into it)."""
    if label is None and leaks:
        out.add(scen, "violation", rule, construct, "%s derives from %s: observations outside this fold's training window reach the "
                "forecaster before it predicts" % (what, ", ".join(leaks)), loc, vkey="derived-from:" + leaks[0])
    elif label is None:
        out.add(scen, "undecided", rule, construct, "%s: provenance of the argument is not interpretable" % what, loc)
    elif label in expected:
        out.add(scen, "ok", rule, construct, "%s is %s" % (what, label), loc)
    else:
        out.add(scen, "violation", rule, construct, "%s is %s, expected %s%s" % (what, label, " or ".join(expected), wrong_hint),
                loc, vkey=label)


def rel_pc_of(ev, A):
    """Path condition of a top-level event of evaluate() without the conditions every normal return shares."""
    rets = [e for e in A.events if e.kind == "return" and not e.stack]
    ref = rets[-1].pc if rets else ()
    n = 0
    for a, b in zip(ev.pc, ref):
        if a != b:
            break
        n += 1
    return ev.pc[n:]


_REUSE_CACHE = {}


def closure_key(repo, relpaths):
    """Content hash of the import closure (top-level and local imports, inside the package) of the given modules: what an
    AST analysis started there can reach.  Used to memoise reused rule sets across the overlays of the self-test."""
    import ast as _ast
    import hashlib
    seen, todo = {}, [repo.module(r) for r in relpaths]
    while todo:
        m = todo.pop()
        if m.name in seen:
            continue
        seen[m.name] = m
        for node in _ast.walk(m.tree):
            names = []
            if isinstance(node, _ast.ImportFrom):
                base_ = m._abs(node.level, node.module)
                names = [base_] + [base_ + "." + a.name for a in node.names]
            elif isinstance(node, _ast.Import):
                names = [a.name for a in node.names]
            for nm in names:
                parts = nm.split(".")
                for i in range(len(parts), 0, -1):
                    mm = repo.modules.get(".".join(parts[:i]))
                    if mm is not None:
                        todo.append(mm)
                        break
    h = hashlib.sha1()
    for nm in sorted(seen):
        h.update(nm.encode())
        h.update(seen[nm].src.encode())
    return h.hexdigest()


def reuse_rules(ctx, repo, prop, runner, start_relpaths, my_rule, label, why, select=None):
    """Run another property's rules (``runner(sub_ctx)``) and report their failures as obligations of this property: the
    contract this property assumes of a dependency is exactly what that property decides (no duplicated logic).
    Known findings of the other property stay with it."""
    from .. import report as _report
    key = (prop, label, closure_key(repo, start_relpaths))
    sub_ctx = _REUSE_CACHE.get(key)
    if sub_ctx is None:
        sub_ctx = _report.Ctx(prop, repo, ctx.tier)
        try:
            runner(sub_ctx)
        except AnalysisError as e:
            ctx.undecided(my_rule, label, "%s rules could not be evaluated: %s" % (prop, e), None)
            return
        _REUSE_CACHE[key] = sub_ctx
    known = {"%s|%s" % (k_["rule"], k_["construct"]) for k_ in _report.load_known()
             if k_.get("property") == prop and k_.get("status", "known") == "known"}
    n_ok = 0
    for r_ in sub_ctx.results:
        if select is not None and not select(r_):
            continue
        name = "%s:%s-%s:%s" % (label, prop, r_["rule"], r_["construct"])
        if r_["verdict"] == _report.VIOLATION:
            if "%s|%s" % (r_["rule"], r_["construct"]) not in known:
                ctx.violation(my_rule, name, "%s: %s" % (why, r_["detail"]), r_["loc"])
        elif r_["verdict"] == _report.UNDECIDED:
            ctx.undecided(my_rule, name, r_["detail"], r_["loc"])
        else:
            n_ok += 1
    ctx.ok(my_rule, label, "%d obligations decided by the %s rules hold" % (n_ok, prop), None)


def splitter_contract(ctx, repo):
    """C07 assumes of ``cv.split(y)`` exactly what C01 decides (window/test arithmetic, feasibility guards, cutoffs)."""
    from . import c01 as _c01
    # R5 of C01 is about temporal_train_test_split / _split_by_fh, which evaluate() does not use
    reuse_rules(ctx, repo, "C01", _c01.run, ["sktime/forecasting/model_selection/_split.py"], "R3", "splitter-contract",
                "evaluate() takes one row per (train, test) pair of cv.split(y) as that split's windows; the splitter breaks it",
                select=lambda r_: r_["rule"] != "R5")


def _callee_closure(repo, module, fdefs, prefix):
    """Simple names of the package functions (dotted name starting with ``prefix``) transitively called from ``fdefs``."""
    import ast as _ast
    out, todo = {}, [(module, f) for f in fdefs]
    while todo:
        m, f = todo.pop()
        for c in _ast.walk(f):
            if not isinstance(c, _ast.Call):
                continue
            sym = repo.resolve_expr(m, c.func)
            if sym is None:
                # local imports inside the function
                for node in _ast.walk(f):
                    if isinstance(node, _ast.ImportFrom) and isinstance(c.func, _ast.Name) and any((a.asname or a.name) == c.func.id for a in node.names):
                        sym = repo._resolve_abs(m._abs(node.level, node.module) + "." + c.func.id)
            if sym is not None and sym.kind == "func" and sym.dotted.startswith(prefix) and sym.dotted not in out:
                out[sym.dotted] = sym
                todo.append((sym.module, sym.target))
    return out


def validator_contract(ctx, repo):
    """The validators evaluate() relies on (check_y_X -> check_y / check_X / check_series / check_equal_time_index, check_cv,
    check_scoring, check_fh) reject what they have to reject: decided by C20-R2 (truth tables of the validators' own predicates)."""
    from . import c20 as _c20
    from ..boolx import bind_repo as _bind

    def runner(sub):
        _bind(repo)
        _c20.rule_R2(sub, repo)

    mod = repo.module(FUNCS)
    deps = _callee_closure(repo, mod, [repo.func(FUNCS, "evaluate"), repo.func(FUNCS, "_split")], "sktime.utils.validation")
    names = {d.rsplit(".", 1)[-1] for d in deps}

    def select(r_):
        head = r_["construct"].split(":")[0].split("[")[0]
        return head.rsplit(".", 1)[-1] in names

    reuse_rules(ctx, repo, "C20", runner, [VALID, "sktime/utils/validation/series.py"], "R4", "validator-contract",
                "evaluate() relies on this validator (called through %s)" % ", ".join(sorted(n for n in names if n in ("check_y_X", "check_cv", "check_scoring", "check_fh"))),
                select)


def default_metric_contract(ctx, repo):
    """With scoring=None the score is the default metric's value: the formula of the metric function behind
    MeanAbsolutePercentageError (and the kernels it calls) is what C06 decides."""
    from . import c06 as _c06
    rel = "sktime/performance_metrics/forecasting/_functions.py"
    mod = repo.module(rel)
    if "mean_absolute_percentage_error" not in mod.defs:
        raise AnalysisError("anchor missing: mean_absolute_percentage_error")
    deps = _callee_closure(repo, mod, [mod.defs["mean_absolute_percentage_error"]], "sktime.performance_metrics")
    names = {"mean_absolute_percentage_error", "MeanAbsolutePercentageError"} | {d.rsplit(".", 1)[-1] for d in deps}

    def select(r_):
        head = r_["construct"].split(":")[0].split("[")[0]
        return head.rsplit(".", 1)[-1] in names

    reuse_rules(ctx, repo, "C06", _c06.run, [rel, CLASSES], "R4", "default-metric-contract",
                "evaluate(scoring=None) reports the value of this metric function", select)


def option_args(out, scen, kind, sig, b, data_roles, loc):
    """Option arguments (update_params, return_pred_int, alpha, ...) of a forecaster call: an honest fold passes
    none or the documented default; another constant changes what is measured."""
    import ast as _ast
    defaults = astq.param_defaults(sig)
    for p in b:
        if p in data_roles or p in ("**", "**extra", "!unknown", "*"):
            continue
        t = b[p]
        d = defaults.get(p)
        if is_const(t) and isinstance(d, _ast.Constant):
            same = type(cval(t)) is type(d.value) and cval(t) == d.value
            out.check(scen, same, "R2", "evaluate:%s(%s)" % (kind, p), "%s=%r is the default" % (p, cval(t)),
                      "forecaster.%s is called with %s=%r (default %r): the fold is not an honest %s" % (kind, p, cval(t), d.value, kind),
                      loc, vkey="%s=%r" % (p, cval(t)))
        elif is_const(t):
            out.add(scen, "ok", "R2", "evaluate:%s(%s)" % (kind, p), "%s is the constant %r" % (p, cval(t)), loc)
        else:
            out.add(scen, "undecided", "R2", "evaluate:%s(%s)" % (kind, p), "argument %s of forecaster.%s is not a constant: %s"
                    % (p, kind, show(t)), loc)


# ----------------------------------------------------------------------------- rules on evaluate()
def check_evaluate(ctx, repo, out, x_given, callsig):
    scen = "X given" if x_given else "X None"
    A = EvalAnalysis(repo, x_given)
    mod = A.mod
    loc0 = ctx.loc(mod, A.fn)
    ctx.count("scenarios")
    for node, why in A.res.unsupported:
        out.add(scen, "undecided", "R3", "evaluate:interpretable", why, ctx.loc(mod, node))
    if A.loop is None:
        out.add(scen, "undecided", "R3", "evaluate:fold-loop", "no single loop contains the fit/update/predict calls of the "
                "forecaster", loc0)
        return A

    def L(ev):
        return ctx.loc(mod, ev.node)

    in_loop = [e for e in A.events if A.loop.id in e.ctxs]
    fits = [e for e in in_loop if e.kind == "call" and e.callee == attr(FORECASTER, "fit")]
    upds = [e for e in in_loop if e.kind == "call" and e.callee == attr(FORECASTER, "update")]
    preds = [e for e in in_loop if "predict" in e.kinds]
    scores = [e for e in in_loop if "score" in e.kinds]
    appends = [e for e in in_loop if "append" in e.kinds and e.callee.a[0].a[2] == A.loop.id]
    base = repo.cls(BASE + ":BaseForecaster")

    # ---------------- R1 roles at the metric call
    if not scores:
        out.add(scen, "undecided", "R1", "evaluate:scoring-call", "no call of the checked `scoring` object in the fold loop", loc0)
    if callsig is not None:
        for ev in scores:
            b = bind_terms(callsig, ev.args, ev.kwargs)
            if b is None or "*" in b or "**" in b or "!unknown" in b:
                out.add(scen, "undecided", "R1", "evaluate:scoring-call", "arguments of the metric call cannot be bound", L(ev))
                continue
            for role, expected in (("y_true", ("y[test]",)), ("y_pred", ("forecaster.predict(...)",))):
                if role not in b:
                    out.add(scen, "violation", "R1", "evaluate:scoring(%s)" % role, "metric call passes no %s" % role, L(ev), vkey="missing")
                    continue
                role_check(out, scen, "R1", "evaluate:scoring(%s)" % role, A.label(b[role]), expected,
                           "argument bound to `%s` of the metric" % role, L(ev),
                           " (metric(y_true, y_pred): asymmetric metrics and non-symmetric percentage errors change value)")

    # ---------------- R2 provenance of what the forecaster receives
    x_train = ("X[train]",) if x_given else ("None",)
    for kind, evs in (("fit", fits), ("update", upds)):
        if not evs:
            out.add(scen, "undecided", "R2", "evaluate:%s" % kind, "no forecaster.%s call in the fold loop" % kind, loc0)
        for ev in evs:
            sig = base.methods.get(kind)
            b = bind_terms(sig, ev.args, ev.kwargs) if sig is not None else None
            if b is None or "*" in b:
                out.add(scen, "undecided", "R2", "evaluate:%s" % kind, "arguments of forecaster.%s cannot be bound" % kind, L(ev))
                continue
            if "y" in b:
                role_check(out, scen, "R2", "evaluate:%s(y)" % kind, A.label(b["y"]), ("y[train]",),
                           "series handed to forecaster.%s" % kind, L(ev), leaks=A.leak_sources(b["y"]))
            else:
                out.add(scen, "violation", "R2", "evaluate:%s(y)" % kind, "forecaster.%s receives no series" % kind, L(ev), vkey="missing")
            if "X" in b:
                role_check(out, scen, "R2", "evaluate:%s(X)" % kind, A.label(b["X"]), x_train,
                           "exogenous data handed to forecaster.%s" % kind, L(ev), leaks=A.leak_sources(b["X"]))
            else:
                out.check(scen, not x_given, "R2", "evaluate:%s(X)" % kind, "no exogenous data to pass",
                          "forecaster.%s does not receive the exogenous training rows" % kind, L(ev), vkey="missing")
            if kind == "fit":
                if "fh" in b:
                    role_check(out, scen, "R2", "evaluate:fit(fh)", A.fh_label(b["fh"]), FH_FIT_OK, "horizon handed to forecaster.fit", L(ev))
                else:
                    out.add(scen, "ok", "R2", "evaluate:fit(fh)", "no horizon passed to fit", L(ev))
            sig_names = set(astq.all_param_names(sig))
            extras = [(k, v) for k, v in ev.kwargs.items() if k == "**" or k not in sig_names]
            if extras:
                bad_terms = []
                for k, v in extras:
                    clean = True
                    for x in subterms(v):
                        if isinstance(x, T) and ((x.op == "param" and x.a[0] != "fit_params") or x.op in ("elem", "carried", "enumidx")):
                            clean = False
                    if not clean:
                        bad_terms.append("%s=%s" % (k, A.label(v) or show(v)))
                out.check(scen, not bad_terms, "R2", "evaluate:%s(**)" % kind, "extra keyword arguments derive only from fit_params",
                          "extra keyword arguments of forecaster.%s do not derive from fit_params: %s" % (kind, ", ".join(bad_terms)),
                          L(ev), vkey="other")
                # a conditional default: the caller's fit_params must be what is passed when they are given
                for k_, v in extras:
                    if k_ == "**" and isinstance(v, T) and v.op == "ifexp":
                        atom = T("cmp", "Is", P("fit_params"), NONE)
                        try:
                            given = v.a[1] if ceval(v.a[0], {atom: False, P("fit_params"): "<given>"}) else v.a[2]
                            out.check(scen, given == P("fit_params"), "R2", "evaluate:%s(**):given" % kind, "the caller's fit_params reach forecaster.%s" % kind,
                                      "when fit_params are given, forecaster.%s receives **%s instead of them" % (kind, show(given)), L(ev), vkey="dropped")
                        except Undef:
                            out.add(scen, "undecided", "R2", "evaluate:%s(**):given" % kind, "default condition of fit_params not evaluable", L(ev))
            option_args(out, scen, kind, sig, b, ("y", "X", "fh"), L(ev))
    if not preds:
        out.add(scen, "undecided", "R2", "evaluate:predict", "no forecaster.predict call in the fold loop", loc0)
    for ev in preds:
        b = bind_terms(base.methods["predict"], ev.args, ev.kwargs)
        if b is None or "*" in b or "**" in b:
            out.add(scen, "undecided", "R2", "evaluate:predict", "arguments of forecaster.predict cannot be bound", L(ev))
            continue
        option_args(out, scen, "predict", base.methods["predict"], b, ("fh", "X"), L(ev))
        if "fh" in b:
            role_check(out, scen, "R2", "evaluate:predict(fh)", A.fh_label(b["fh"]), FH_OK, "horizon handed to forecaster.predict", L(ev),
                       " (relative steps from the cutoff are the test labels only on an index without holes)")
        else:
            out.add(scen, "undecided", "R2", "evaluate:predict(fh)", "predict is called without a horizon", L(ev))
        if "X" in b:
            if not x_given:
                role_check(out, scen, "R2", "evaluate:predict(X)", A.label(b["X"]), ("None",), "exogenous data handed to predict", L(ev))
            else:
                core = A.V.strip(b["X"])
                s = A.slice_of(core)
                r = A.rows(s[1]) if s is not None and s[0] == "X" else None
                if r is None:
                    lab = A.label(core)
                    if lab is not None:
                        out.add(scen, "violation", "R2", "evaluate:predict(X)", "exogenous data handed to predict is %s, expected the rows "
                                "cutoff+1 .. last test position of X" % lab, L(ev), vkey=lab)
                    else:
                        out.add(scen, "undecided", "R2", "evaluate:predict(X)", "rows of X handed to predict are not interpretable: %s"
                                % show(core), L(ev))
                else:
                    want = (Lin.sym("train[-1]") + 1, Lin.sym("test[-1]") + 1)
                    good = r[0] == want[0] and r[1] == want[1]
                    out.check(scen, good, "R2", "evaluate:predict(X)",
                              "X rows [%r, %r) == cutoff+1 .. last test position (fh.min() = test[0] - train[-1])" % r,
                              "X rows handed to predict are [%r, %r) but cutoff+1 .. last test position is [%r, %r)"
                              % (r[0], r[1], want[0], want[1]), L(ev), vkey="rows[%r,%r)" % r)
        else:
            out.check(scen, not x_given, "R2", "evaluate:predict(X)", "no exogenous data to pass",
                      "forecaster.predict does not receive the exogenous rows of the test window", L(ev), vkey="missing")
    # any other data-carrying call on the forecaster object inside the loop
    others = [e for e in in_loop if e.kind == "call" and isinstance(e.callee, T) and e.callee.op == "attr"
              and e.callee.a[0] == FORECASTER and e.callee.a[1] not in ("fit", "update", "predict")]
    for ev in others:
        data = [a for a in list(ev.args) + list(ev.kwargs.values()) if any(A.is_y(x) or A.is_X(x) for x in subterms(a))]
        out.check(scen, True if not data else None, "R2", "evaluate:forecaster.%s" % ev.callee.a[1],
                  "no series data passed", "forecaster.%s receives series data the rule does not know" % ev.callee.a[1], L(ev))
    out.add(scen, "ok", "R2", "evaluate:forecaster-calls", "forecaster receives data only through fit/update/predict "
            "(%d/%d/%d call sites)" % (len(fits), len(upds), len(preds)), loc0)

    # ---------------- R3 order, multiplicity, row contents
    it = A.split_term
    if is_mcall(it, "split") and A.is_cv(it.a[0].a[0]):
        args, kw = call_args(it)
        a0 = args[0] if args else kw.get("y")
        if a0 is not None and A.is_y(a0):
            out.add(scen, "ok", "R3", "evaluate:fold-loop:iterates", "loop iterates cv.split(y) of the validated series", ctx.loc(mod, A.loop.node))
        else:
            lab = A.label(a0) if a0 is not None else None
            out.check(scen, None if lab is None else False, "R3", "evaluate:fold-loop:iterates", "",
                      "loop iterates cv.split(%s), not the series that is sliced" % (lab or show(a0)), ctx.loc(mod, A.loop.node), vkey=lab)
    else:
        out.add(scen, "undecided", "R3", "evaluate:fold-loop:iterates", "loop does not iterate cv.split(...) directly: %s" % show(it),
                ctx.loc(mod, A.loop.node))
    def fitted_before(ev):
        """(True|False|None, witness): a fit/update of this fold precedes ``ev`` on every path.  The must-set is
        path-insensitive, so when it fails the finite (fold number, strategy) table decides."""
        if "fitupd" in ev.must:
            return True, None
        try:
            for n, s_, val in strategy_domain(A, fits + upds + [ev]):
                if pc_holds(ev.pc, val) and not any(e.seq < ev.seq and pc_holds(e.pc, val) for e in fits + upds):
                    return False, "fold %d with strategy=%r" % (n, s_)
            return True, None
        except Undef as u:
            return None, show(u.args[0] if u.args else "?")

    for ev in preds:
        okf, wit = fitted_before(ev)
        out.check(scen, okf, "R3", "evaluate:order:fit-or-update<predict", "every path to predict passes fit or update of this fold",
                  ("%s reaches predict before the forecaster saw this fold's training window" % wit) if okf is False else
                  "not every path to predict passes fit/update and the guarding condition is not evaluable: %s" % wit, L(ev), vkey="unfitted")
    for ev in scores:
        out.check(scen, "predict" in ev.must, "R3", "evaluate:order:predict<score", "score follows predict", "score can precede predict", L(ev))
    for ev in appends:
        okf, wit = fitted_before(ev)
        out.check(scen, None if (okf is None or not scores or not preds) else ("score" in ev.must and "predict" in ev.must and okf), "R3",
                  "evaluate:order:score<append",
                  "row is appended after fit/update, predict and score", "a row can be appended before the fold was fitted, predicted and scored", L(ev))
    if not appends:
        out.add(scen, "undecided", "R3", "evaluate:append", "no row is appended to a loop-carried table in the fold loop", loc0)
    else:
        lo = min(s.cnt.get("append", (0, 0))[0] for s in A.loop.ends) if A.loop.ends else 0
        hi = max(s.cnt.get("append", (0, 0))[1] for s in A.loop.ends) if A.loop.ends else 0
        if A.loop.breaks:
            out.add(scen, "undecided", "R3", "evaluate:append:once-per-split", "fold loop contains `break`", ctx.loc(mod, A.loop.node))
        elif (lo, hi) == (1, 1):
            out.add(scen, "ok", "R3", "evaluate:append:once-per-split", "exactly one row per split on every path", ctx.loc(mod, A.loop.node))
        else:
            # counters are path-insensitive: decide by the table over fold number, strategy and the opaque atoms
            try:
                wit = None
                for n, s_, val in strategy_domain(A, appends):
                    k = sum(1 for e in appends if pc_holds(e.pc, val))
                    if k != 1:
                        free = ["%s=%s" % (show(a), v) for a, v in val.items() if isinstance(a, T) and a.op not in ("param", "enumidx")]
                        wit = (k, n, s_, "; ".join(free)[:160])
                        break
                out.check(scen, wit is None, "R3", "evaluate:append:once-per-split", "exactly one row per split for every valuation of the conditions",
                          "%d rows are appended in fold %d with strategy=%r when %s" % wit if wit else "", ctx.loc(mod, A.loop.node),
                          vkey="%d..%d" % (lo, hi))
            except Undef as u:
                out.add(scen, "undecided", "R3", "evaluate:append:once-per-split", "between %d and %d rows per split and the conditions are not "
                        "evaluable: %s" % (lo, hi, show(u.args[0] if u.args else "?")), ctx.loc(mod, A.loop.node))
        ret = A.res.ret_term()
        louts = [x for x in subterms(ret) if isinstance(x, T) and x.op == "loopout" and x.a[3] == A.loop.id] if ret is not None else []
        good = any(any(contains(x.a[2], ev.term) or contains(x.a[2], ev.args[0]) for ev in appends if ev.args) for x in louts)
        out.check(scen, good, "R3", "evaluate:append:returned", "the returned table is the one the rows are appended to",
                  "the returned value does not derive from the table the rows are appended to", loc0)
    for ev in appends:
        row = as_row(ev.args[0]) if ev.args else None
        if not (isinstance(row, T) and row.op == "dict"):
            out.add(scen, "undecided", "R3", "evaluate:row", "appended row is not a dict display: %s" % show(row), L(ev))
            continue
        items = list(row.a[0])

        def entry(pred):
            return [(k, v) for k, v in items if pred(k)]

        # score
        sc = [(k, v) for k, v in items if any(v == s.term for s in scores)]
        out.check(scen, None if not scores else len(sc) == 1, "R3", "evaluate:row:score", "row holds the value returned by the metric call",
                  "row does not hold the value returned by the metric call (entries: %d)" % len(sc), L(ev))
        for k, v in sc:
            want_parts = None
            if isinstance(k, T) and k.op == "cat" and len(k.a[0]) == 2 and k.a[0][0] == C("test_"):
                nm = k.a[0][1]
                want_parts = isinstance(nm, T) and nm.op == "attr" and nm.a[1] == "name" and A.is_scoring(nm.a[0])
            out.check(scen, bool(want_parts), "R3", "evaluate:row:score-name", "score column is 'test_' + scoring.name",
                      "score column is named %s, not 'test_' + scoring.name" % show(k), L(ev))
        # cutoff
        cu = entry(lambda k: k == C("cutoff"))
        if len(cu) != 1:
            out.add(scen, "violation", "R3", "evaluate:row:cutoff", "row has %d `cutoff` entries" % len(cu), L(ev), vkey="count")
        else:
            v = cu[0][1]
            if v == attr(FORECASTER, "cutoff"):
                reads = [e for e in A.events if e.kind == "read" and e.node is v.node]
                verdicts = [fitted_before(e)[0] for e in reads]
                fresh = None if (not reads or None in verdicts) else all(verdicts)
                out.check(scen, fresh, "R3", "evaluate:row:cutoff", "forecaster.cutoff is read after this fold's fit/update",
                          "forecaster.cutoff is read before this fold's fit/update (reports the previous fold's cutoff)", L(ev), vkey="stale")
            else:
                lab = A.label(v)
                cl = A.cutoff_label()
                if v in cl or lab == "y[train].index[-1]":
                    out.add(scen, "ok", "R3", "evaluate:row:cutoff", "cutoff is the last training label", L(ev))
                else:
                    out.check(scen, None if lab is None else False, "R3", "evaluate:row:cutoff", "",
                              "row's cutoff is %s, not forecaster.cutoff" % (lab or show(v)), L(ev), vkey=lab)
        # len_train_window
        lt = entry(lambda k: k == C("len_train_window"))
        if len(lt) != 1:
            out.add(scen, "violation", "R3", "evaluate:row:len_train_window", "row has %d `len_train_window` entries" % len(lt), L(ev), vkey="count")
        else:
            v = lt[0][1]
            lab = None
            if is_call(v, fn("builtins.len")) and len(v.a[1]) == 1:
                a = v.a[1][0]
                lab = "len(train)" if a == A.TRAIN else ("len(test)" if a == A.TEST else (A.label(a) and "len(%s)" % A.label(a)))
            elif isinstance(v, T) and v.op == "sub" and v.a[1] == C(0) and isinstance(v.a[0], T) and v.a[0].op == "attr" and v.a[0].a[1] == "shape":
                lab = A.label(v.a[0].a[0]) and "len(%s)" % A.label(v.a[0].a[0])
            role_check(out, scen, "R3", "evaluate:row:len_train_window", lab, ("len(y[train])", "len(train)"), "len_train_window", L(ev))
    # post-processing keeps the result columns
    keep = {"cutoff", "len_train_window", "fit_time", "pred_time"}
    drops = [e for e in A.events if e.kind == "call" and is_mcall(e.term, "drop") and any(
        isinstance(x, T) and x.op == "loopout" for x in subterms(e.callee))]
    for ev in drops:
        cols = ev.kwargs.get("columns", ev.args[0] if ev.args else None)
        names = None
        if isinstance(cols, T) and cols.op in ("list", "tuple") and all(is_const(c) for c in cols.a[0]):
            names = {cval(c) for c in cols.a[0]}
        out.check(scen, None if names is None else not (names & keep), "R3", "evaluate:postprocess:drop",
                  "only data columns are dropped", "result column(s) %s are dropped from the returned table"
                  % sorted((names or set()) & keep), L(ev), vkey="drop")
    # the per-fold data columns are removed exactly when return_data is false
    if drops:
        try:
            bad = None
            for flag in (True, False):
                val = {P("return_data"): flag}
                n_ = sum(1 for e in drops if pc_holds(rel_pc_of(e, A), val))
                if n_ != (0 if flag else 1) and bad is None:
                    bad = (flag, n_)
            out.check(scen, bad is None, "R3", "evaluate:postprocess:drop-guard", "data columns are dropped iff return_data is false",
                      "with return_data=%r the data columns are dropped %d time(s)" % bad if bad else "", L(drops[0]), vkey="guard")
        except Undef as u:
            out.add(scen, "undecided", "R3", "evaluate:postprocess:drop-guard", "condition of the drop not evaluable: %s" % show(u.args[0] if u.args else "?"), L(drops[0]))
    else:
        keys = set()
        for ev in appends:
            if ev.args and isinstance(ev.args[0], T) and ev.args[0].op == "dict":
                keys |= {cval(k_) for k_, _ in ev.args[0].a[0] if is_const(k_)}
        data_cols = {"y_train", "y_test", "y_pred"} & keys
        out.check(scen, not data_cols, "R3", "evaluate:postprocess:drop-guard", "no per-fold data columns are written",
                  "the data columns %s are written for every fold but never removed when return_data is false" % sorted(data_cols), loc0, vkey="never")

    # ---------------- R4 strategy table and validators
    strategy_table(ctx, A, out, scen, fits, upds, loc0)
    for ev in fits + upds:
        out.check(scen, "chk_strategy" in ev.must, "R4", "evaluate:_check_strategy:precedes",
                  "_check_strategy(strategy) precedes the fold loop", "fit/update can be reached without _check_strategy(strategy)", L(ev))
    splits = [e for e in A.events if "split" in e.kinds]
    for ev in splits:
        if "chk_cv" in ev.must:
            out.add(scen, "ok", "R4", "evaluate:check_cv", "check_cv(cv, enforce_start_with_window=True) precedes cv.split", L(ev))
        elif "chk_cv_weak" in ev.must:
            out.add(scen, "violation", "R4", "evaluate:check_cv", "check_cv is called without enforce_start_with_window=True: splitters with "
                    "start_with_window=False are accepted", L(ev), vkey="not-enforced")
        else:
            out.add(scen, "violation", "R4", "evaluate:check_cv", "cv.split is reached without check_cv(cv, ...)", L(ev), vkey="missing")
        out.check(scen, "chk_yX" in ev.must, "R4", "evaluate:check_y_X", "check_y_X(y, X) precedes the split",
                  "the series is split without check_y_X(y, X)", L(ev))
    for ev in scores:
        out.check(scen, "chk_scoring" in ev.must, "R4", "evaluate:check_scoring", "check_scoring(scoring) precedes the metric call",
                  "the metric is called without check_scoring(scoring)", L(ev))
    return A


def as_row(t):
    """Normal form of a row: a dict display, possibly extended by ``row[k] = v`` stores and joined over branches that write
    the same keys (values joined per key)."""
    from ._c07_prov import phi as _phi
    if isinstance(t, T) and t.op == "setcol":
        base_ = as_row(t.a[0])
        if isinstance(base_, T) and base_.op == "dict":
            items = [(k, v) for k, v in base_.a[0] if k != t.a[1]] + [(t.a[1], t.a[2])]
            return T("dict", tuple(items))
        return t
    from ._c07_prov import arms as _arms, map_arms as _map_arms
    if _arms(t) is not None:
        rows = [as_row(x) for x in _arms(t)]
        if all(isinstance(r_, T) and r_.op == "dict" for r_ in rows):
            keys = [k for k, _ in rows[0].a[0]]
            if all(sorted(map(repr, [k for k, _ in r_.a[0]])) == sorted(map(repr, keys)) for r_ in rows):
                return T("dict", tuple((k, _map_arms(t, lambda x, k=k: dict(as_row(x).a[0])[k])) for k in keys))
        return t
    return t


def strategy_domain(A, events):
    """Valuations (fold number n, strategy s, {term: value}) exhaustive for the atoms in the events' path conditions:
    fold numbers 0, 1, 2 and the neighbours of every integer constant compared against; both legal strategies."""
    pcs = [t for ev in events for t, _ in ev.pc]
    enums = set()
    for t in pcs:
        for x in subterms(t):
            if isinstance(x, T) and x.op == "enumidx" and x.a[2] == A.loop.id:
                enums.add(x)
    ns = {0, 1, 2}
    for k in int_consts(pcs):
        ns.update(x for x in (k - 1, k, k + 1, k + 2) if x >= 0)
    # loop-carried values in the conditions: a fold counter (constant start, incremented by exactly one on every path of an
    # iteration) has the value start + n at the top of fold n; any other loop-carried value is not evaluable
    counters = {}
    flags = {}
    for t in pcs:
        for x in subterms(t):
            if isinstance(x, T) and x.op == "carried" and x not in counters and x not in flags:
                init = x.a[1]
                ok = x.a[2] == A.loop.id and is_const(init) and isinstance(cval(init), int) and not isinstance(cval(init), bool) \
                    and not A.loop.breaks and bool(A.loop.ends)
                for st_ in (A.loop.ends if ok else []):
                    endv = st_.env.get(x.a[0])
                    if not (isinstance(endv, T) and endv.op == "binop" and endv.a[0] == "Add"
                            and ((endv.a[1] == x and endv.a[2] == C(1)) or (endv.a[2] == x and endv.a[1] == C(1)))):
                        ok = False
                if not ok:
                    # a flag: constant before the loop, and at the end of every iteration rebound to one loop-invariant term
                    # (parameters and constants only): its value is the constant at fold 0 and that term's value afterwards
                    ends_ = {st_.env.get(x.a[0]) for st_ in A.loop.ends} if (x.a[2] == A.loop.id and is_const(init)
                                                                             and not A.loop.breaks and A.loop.ends) else set()
                    e_ = next(iter(ends_)) if len(ends_) == 1 else None
                    if e_ is None or any(isinstance(y, T) and y.op not in ("const", "param", "cmp", "boolop", "unop", "tuple", "list", "set")
                                         for y in subterms(e_)):
                        raise Undef(x)
                    flags[x] = (cval(init), e_)
                    continue
                counters[x] = cval(init)
    for n in sorted(ns):
        for s in ("refit", "update"):
            val = {P("strategy"): s}
            for x, c0 in counters.items():
                val[x] = c0 + n
            for x, (c0, e_) in flags.items():
                val[x] = c0 if n == 0 else ceval(e_, val)
            for e in enums:
                if not (is_const(e.a[1]) and isinstance(cval(e.a[1]), int)):
                    raise Undef(e)
                val[e] = cval(e.a[1]) + n
            # opaque Boolean atoms (flags, comparisons of values) are enumerated both ways
            for v, _ in valuations([ev.pc for ev in events], val):
                yield n, s, v


def strategy_table(ctx, A, out, scen, fits, upds, loc0):
    """fit iff first fold or strategy == 'refit'; update otherwise (exhaustive finite table)."""
    pcs = [t for ev in fits + upds for t, _ in ev.pc]
    strs = set()
    for t in pcs:
        for x in subterms(t):
            if is_const(x) and isinstance(cval(x), str):
                strs.add(cval(x))
    bad = None
    undef = None
    rows = 0
    try:
        for n, s, val in strategy_domain(A, fits + upds):
            nf = sum(1 for ev in fits if pc_holds(ev.pc, val))
            nu = sum(1 for ev in upds if pc_holds(ev.pc, val))
            rows += 1
            want = (1, 0) if (n == 0 or s == "refit") else (0, 1)
            if (nf, nu) != want and bad is None:
                bad = (n, s, nf, nu, want)
    except Undef as u:
        undef = u.args[0] if u.args else "?"
    loc = ctx.loc(A.mod, (fits + upds)[0].node) if fits + upds else loc0
    if undef is not None:
        out.add(scen, "undecided", "R4", "evaluate:strategy-table", "condition guarding fit/update has an atom the table cannot evaluate: %s"
                % show(undef), loc)
    elif not fits or not upds:
        out.add(scen, "undecided", "R4", "evaluate:strategy-table", "fit or update call missing", loc)
    elif bad is not None:
        n, s, nf, nu, want = bad
        out.add(scen, "violation", "R4", "evaluate:strategy-table",
                "fold %d with strategy=%r executes %d fit and %d update call(s); expected %d fit and %d update "
                "(fit iff first fold or strategy == 'refit')" % (n, s, nf, nu, want[0], want[1]), loc, vkey="fold%d,%s->%d/%d" % (n, s, nf, nu))
    else:
        out.add(scen, "ok", "R4", "evaluate:strategy-table", "fit iff (first fold or strategy == 'refit'), update otherwise "
                "(%d table rows)" % rows, loc)
    A.strategy_strings = strs


# ----------------------------------------------------------------------------- validators' own tables
def check_strategy_validator(ctx, repo, strategy_strings):
    mod = repo.module(FUNCS)
    f = repo.func(FUNCS, "_check_strategy")
    it = Interp(repo)
    params = astq.param_names(f)
    r = it.run(mod, f, {})
    loc = ctx.loc(mod, f)
    if not anchor_unsupported(ctx, "R4", "_check_strategy", r, mod) or len(params) != 1:
        return
    p = P(params[0])
    domain = {"refit", "update", "<anything else>", ""} | set(strategy_strings)
    for x in r.events:
        for t, _ in x.pc:
            for y in subterms(t):
                if is_const(y) and isinstance(cval(y), str):
                    domain.add(cval(y))
    bad = None
    try:
        for s in sorted(domain):
            val = {p: s}
            raised = any(pc_holds(st.pc, val) for st, _ in r.raises)
            returned = any(pc_holds(st.pc, val) for st, _ in r.returns)
            want_raise = s not in ("refit", "update")
            if raised != want_raise or returned == want_raise:
                bad = (s, raised)
                break
    except Undef as u:
        ctx.undecided("R4", "_check_strategy:table", "condition not evaluable: %s" % show(u.args[0] if u.args else "?"), loc)
        return
    ctx.check(bad is None, "R4", "_check_strategy:table", "rejects exactly the values outside ('refit', 'update') (%d values tried)" % len(domain),
              "strategy=%r is %s" % (bad[0], "rejected" if bad[1] else "accepted") if bad else "", loc)


def check_scoring_validator(ctx, repo, callsig):
    mod = repo.module(VALID)
    f = repo.func(VALID, "check_scoring")
    it = Interp(repo)
    r = it.run(mod, f, {})
    loc = ctx.loc(mod, f)
    if not anchor_unsupported(ctx, "R4", "check_scoring", r, mod):
        return
    params = astq.param_names(f)
    p = P(params[0])
    is_none = T("cmp", "Is", p, NONE)
    callable_ = call(fn("builtins.callable"), [p])
    bad = None
    default_terms = []
    try:
        for none_, call_ in ((True, False), (False, False), (False, True)):
            val0 = {is_none: none_, callable_: call_, T("cmp", "Eq", p, NONE): none_}
            pcs = [st.pc for st, _ in r.returns] + [st.pc for st, _ in r.raises]
            # any further condition in the validator is an opaque atom: the table must hold for both of its values
            for val, free in valuations(pcs, val0):
                rets = [t for st, t in r.returns if pc_holds(st.pc, val)]
                rais = [t for st, t in r.raises if pc_holds(st.pc, val)]
                if none_:
                    ok = len(rets) == 1 and not rais and is_call(rets[0]) and rets[0].a[0].op == "fn"
                    if ok and rets[0] not in default_terms:
                        default_terms.append(rets[0])
                elif not call_:
                    ok = not rets and len(rais) == 1
                else:
                    ok = rets == [p] and not rais
                if not ok and bad is None:
                    extra = "".join(" [%s=%s]" % (show(a)[:60], v) for a, v in free)
                    bad = (none_, str(call_) + extra, [show(x)[:120] for x in rets], len(rais))
    except Undef as u:
        ctx.undecided("R4", "check_scoring:table", "condition not evaluable: %s" % show(u.args[0] if u.args else "?"), loc)
        return
    ctx.check(bad is None, "R4", "check_scoring:table", "None -> default metric, non-callable -> rejected, callable -> returned unchanged",
              "scoring is None=%s, callable=%s: returns %s, raises %s" % bad if bad else "", loc)
    for d in default_terms:
        name = d.a[0].a[0]
        info = it.fnmap.get(name)
        good = None
        if info is not None and info[0] == "class":
            hit = repo.lookup_method(info[1], "__call__")
            good = hit is not None and astq.param_names(hit[1], skip_self=True)[:2] == ["y_true", "y_pred"]
        ctx.check(good, "R1", "check_scoring:default-metric", "default metric %s() is called as metric(y_true, y_pred)" % name.rsplit(".", 1)[-1],
                  "default scoring object %s has no __call__(y_true, y_pred)" % show(d), loc)
        # model conformance: "if None, uses sMAPE" (evaluate / check_scoring docs) -- decided from the constructor chain of the
        # class as it is called here, with its *current* defaults
        if info is not None and info[0] == "class":
            import ast as _ast
            k = info[1]
            hit = repo.lookup_method(k, "__init__")
            verdict, detail = None, "constructor of the default metric is not interpretable"
            if hit is not None:
                b = bind_terms(hit[1], *call_args(d)) or {}
                args = {}
                for pn, dflt in astq.param_defaults(hit[1]).items():
                    if isinstance(dflt, _ast.Constant):
                        args[pn] = C(dflt.value)
                args.update({kk: v for kk, v in b.items() if isinstance(v, T) and not kk.startswith(("*", "!"))})
                ci = Interp(repo, policy=lambda kind, nm, target, fr: kind == "super" and nm == "__init__")
                r2 = ci.run(hit[0].module, hit[1], args, cls=k, defcls=hit[0])
                sym = {st.heap.get("symmetric") for st, _ in r2.returns}
                fun = {st.heap.get("_func") for st, _ in r2.returns}
                if not r2.unsupported and len(sym) == 1 and len(fun) == 1:
                    sv, fv = sym.pop(), fun.pop()
                    is_mape = isinstance(fv, T) and fv.op == "fn" and fv.a[0].endswith(".mean_absolute_percentage_error")
                    if is_mape and is_const(sv, True, False) and isinstance(cval(sv), bool):
                        verdict = cval(sv) is True
                        detail = "scoring=None is scored with mean_absolute_percentage_error(symmetric=%r)" % cval(sv)
                    else:
                        detail = "default metric wraps %s with symmetric=%s" % (show(fv), show(sv))
            ctx.check(verdict, "R4", "check_scoring:default-is-sMAPE", "scoring=None uses the symmetric MAPE (sMAPE), as evaluate() documents",
                      detail + " -- evaluate() documents sMAPE as the default metric (the metric class's constructor default decides it)", loc)


def check_duration_coercion(ctx, repo):
    """Model conformance for the horizon evaluate() hands over: every forecaster converts the absolute test labels back to
    steps with ``fh.to_relative(cutoff)`` -> ``_coerce_duration_to_int``.  For a collection of durations the result must be
    computed from *every* element (a map over the elements or a vectorised expression of the whole index) -- a result built
    from ``duration[0]`` and ``len(duration)`` assumes consecutive steps and mislabels horizons with gaps (fh=[1, 3])."""
    rel = "sktime/utils/datetime.py"
    mod = repo.module(rel)
    f = repo.func(rel, "_coerce_duration_to_int")
    params = astq.param_names(f)
    dur = P(params[0])
    it = Interp(repo)
    r = it.run(mod, f, {})
    loc = ctx.loc(mod, f)
    coll = ("pandas.Index", "pandas.TimedeltaIndex", "pandas.PeriodIndex", "pandas.DatetimeIndex", "pandas.Int64Index")

    def is_collection_path(pc):
        for t, br in pc:
            if not br:
                continue
            for x in subterms(t):
                if is_call(x, fn("builtins.isinstance")) and len(x.a[1]) == 2 and x.a[1][0] == dur:
                    kinds = x.a[1][1].a[0] if isinstance(x.a[1][1], T) and x.a[1][1].op == "tuple" else (x.a[1][1],)
                    names = [k_.a[0] for k_ in kinds if isinstance(k_, T) and k_.op == "fn"]
                    if names and all(n in coll for n in names):
                        return True
        return False

    def uses_all_elements(t):
        stack = [t]
        while stack:
            x = stack.pop()
            if isinstance(x, tuple):
                stack.extend(x)
                continue
            if not isinstance(x, T):
                continue
            if x == dur or (x.op == "elem" and strip_list(x.a[0]) == dur):
                return True
            if x.op == "sub" and x.a[0] == dur and is_const(x.a[1]):
                continue  # a single element
            if is_call(x, fn("builtins.len")):
                continue  # the size only
            stack.extend(x.a)
        return False

    n = 0
    for st, t in r.returns:
        if not is_collection_path(st.pc):
            continue
        n += 1
        ctx.check(uses_all_elements(t), "R2", "_coerce_duration_to_int:elementwise[%d]" % n,
                  "steps of a collection of durations are computed from every element",
                  "for a collection of durations the steps are %s: built from single elements / the length only, i.e. steps are assumed "
                  "consecutive -- a test window with gaps (fh=[1, 3]) is forecast for steps [1, 2] but labelled with the time points of 1 and 3"
                  % show(t)[:160], loc)
    if n == 0:
        ctx.undecided("R2", "_coerce_duration_to_int:elementwise", "no return path for a pd.Index of durations found", loc)


def check_cv_validator(ctx, repo):
    mod = repo.module(VALID)
    f = repo.func(VALID, "check_cv")
    it = Interp(repo)
    r = it.run(mod, f, {})
    loc = ctx.loc(mod, f)
    if not anchor_unsupported(ctx, "R4", "check_cv", r, mod):
        return
    cv, flag = P("cv"), P("enforce_start_with_window")
    if "enforce_start_with_window" not in astq.param_names(f):
        raise AnalysisError("anchor changed: check_cv has no parameter enforce_start_with_window")
    isinst = [x.term for x in r.events if x.kind == "call" and x.callee == fn("builtins.isinstance") and x.args[:1] == [cv]]
    hasat = call(fn("builtins.hasattr"), [cv, C("start_with_window")])
    getattrs3 = [x.term for x in r.events if x.kind == "call" and x.callee == fn("builtins.getattr") and len(x.args) == 3
                 and x.args[0] == cv and x.args[1] == C("start_with_window") and not x.kwargs]
    sww = attr(cv, "start_with_window")
    bad = None
    n = 0
    try:
        for a in (True, False):
            for b in (True, False):
                for c in (True, False):
                    for d in ((True, False) if c else (None,)):
                        val = {flag: b, hasat: c}
                        for x in isinst:
                            val[x] = a
                        if d is not None:
                            val[sww] = d
                            val[call(fn("builtins.getattr"), [cv, C("start_with_window")])] = d
                        # getattr(cv, "start_with_window", default): the attribute's value when present, else the default
                        for g_ in getattrs3:
                            dflt = g_.a[1][2]
                            if not is_const(dflt):
                                raise Undef(g_)
                            val[g_] = d if c else cval(dflt)
                        n += 1
                        rets = [t for st, t in r.returns if pc_holds(st.pc, val)]
                        rais = [t for st, t in r.raises if pc_holds(st.pc, val)]
                        want_raise = (not a) or (b and c and not d)
                        ok = (len(rais) >= 1 and not rets) if want_raise else (rets == [cv] and not rais)
                        if not ok and bad is None:
                            bad = (a, b, c, d, len(rets), len(rais))
    except Undef as u:
        ctx.undecided("R4", "check_cv:table", "condition not evaluable: %s" % show(u.args[0] if u.args else "?"), loc)
        return
    ctx.check(bad is None and bool(isinst), "R4", "check_cv:table",
              "rejects non-splitters and (when enforced) splitters with start_with_window=False; returns cv otherwise (%d rows)" % n,
              "is-splitter=%s enforce=%s has-attr=%s start_with_window=%s: %d return(s), %d raise(s)" % bad if bad else
              "no isinstance(cv, BaseSplitter) test", loc)


def run(ctx):
    repo = ctx.repo
    ctx.explain("C07: provenance dataflow (E6) through evaluate() with _split/_check_strategy inlined, two scenarios "
                "(exogenous data given / None); roles at the metric call resolved through the metric classes' __call__ "
                "signatures; everything handed to forecaster.fit/update/predict classified as y[train] / X[train] / "
                "horizon of the test labels / X rows as affine forms; must-pass sets and per-iteration counters for "
                "order and one-row-per-split; exhaustive finite tables for the strategy condition and the validators.")
    ctx.assume("cv.split(y) yields (train, test) position arrays with test = cutoff + fh and cutoff = train[-1] (C01-R1), "
               "so a relative cv.fh has fh.min() == test[0] - train[-1]")
    ctx.assume("pandas .iloc[positions] selects exactly those rows; DataFrame.append / list.append add one row")
    ctx.assume("forecasters turn the absolute horizon back into steps with fh.to_relative(cutoff) (C02); only the element-wise "
               "shape of utils.datetime._coerce_duration_to_int is decided here, not the date arithmetic of pandas")
    ctx.assume("predict() does not move the forecaster's cutoff (C03-R2); BaseForecaster.fit/update/predict signatures are "
               "the ones every forecaster implements")
    run_core(ctx)
    check_duration_coercion(ctx, repo)
    splitter_contract(ctx, repo)
    validator_contract(ctx, repo)
    default_metric_contract(ctx, repo)
    ctx.floor("R1", 9)
    ctx.floor("R2", 12)
    ctx.floor("R3", 13)
    ctx.floor("R4", 11)


def run_core(ctx):
    """The rules on evaluate() / _split / _check_strategy / check_scoring / check_cv themselves (also reused by C08-R3)."""
    repo = ctx.repo
    callsig = metric_call_signature(ctx, repo)
    out = Merged(ctx)
    A = None
    for x_given in (True, False):
        A = check_evaluate(ctx, repo, out, x_given, callsig)
    out.flush()
    check_strategy_validator(ctx, repo, getattr(A, "strategy_strings", set()))
    check_scoring_validator(ctx, repo, callsig)
    check_cv_validator(ctx, repo)
