"""C20 -- exact rejection specifications of the remaining validators (R2) and of the settings / feasibility guards
inside fit bodies (R4), decided as truth-table equivalences over the path conditions of the source (engine E8).

Every rule locates its atoms by *role* (which expression is tested), builds the specification formula from the
property statement and compares it with the rejection condition read off the code.  Atoms that cannot be located
make the instance UNDECIDED (never a violation); a located atom set whose formula differs is a VIOLATION with the
differing assignment as witness.
"""
import ast
from itertools import product

from .. import astq
from ..boolx import (Atomizer, PathConditions, atom, neg, conj, disj, equivalent, evaluate, show, atoms_of, TRUE, FALSE)
from ..cfg import CFG, block_always_raises
from ..index import AnalysisError, dotted

VFC = "sktime/utils/validation/forecasting.py"
VSER = "sktime/utils/validation/series.py"
VALID = "sktime/utils/validation/__init__.py"
SPLIT = "sktime/forecasting/model_selection/_split.py"
NAIVE = "sktime/forecasting/naive.py"
REDUCE = "sktime/forecasting/compose/_reduce.py"
META = "sktime/base/_meta.py"
FMETA = "sktime/forecasting/base/_meta.py"
PIPE = "sktime/forecasting/compose/_pipeline.py"


def _intval(e, default=None):
    if isinstance(e, ast.Constant) and isinstance(e.value, int) and not isinstance(e.value, bool):
        return e.value
    if isinstance(e, ast.UnaryOp) and isinstance(e.op, ast.USub) and isinstance(e.operand, ast.Constant) and isinstance(e.operand.value, int):
        return -e.operand.value
    return default


def _skip(ctx, rule, key, why, loc):
    """The exact specification is only compared where the code has the interpretable shape; elsewhere the structural
    rules of c20.py (validator reachability, rejecting sites, call discipline) remain the verdict for that construct."""
    ctx.info("%s %s: exact specification not compared (%s) at %s" % (rule, key, why, loc))
    ctx.count("spec_not_compared")


def _pick(ats, pred):
    hits = sorted(a for a in ats if pred(a))
    return hits[0] if len(hits) == 1 else None


def _decide(ctx, rule, key, got, spec, need, ok_text, loc, what, sites=None):
    """``need``: dict role -> atom name (None = not located).  ``sites`` = (found raise sites, rejection classes of the spec):
    a role that cannot be located while a raise site is gone is a dropped rejection, not a rewording."""
    missing = sorted(k for k, v in need.items() if v is None)
    if missing and sites is not None and sites[0] < sites[1]:
        ctx.violation(rule, key, "%s has %d rejecting site(s) for %d rejection classes and no test for: %s (rejection condition now: %s)" % (
            what, sites[0], sites[1], ", ".join(missing), show(got)[:300]), loc)
        return False
    if missing:
        _skip(ctx, rule, key, "%s: the test(s) for %s are not expressed as path conditions: %s" % (what, ", ".join(missing), show(got)[:200]), loc)
        return None
    ok, wit = equivalent(got, spec)
    if ok is None:
        _skip(ctx, rule, key, "%s: too many atoms to compare (%s)" % (what, show(got)[:200]), loc)
        return None
    ctx.check(bool(ok), rule, key, ok_text, "%s rejects iff %s; the property requires %s (differing case: %s)" % (
        what, show(got)[:400], show(spec)[:300], wit), loc, witness=wit if not ok else None)
    return ok


def _n_sites(repo, module, cls, fn, pc, depth=2):
    """Rejecting sites of ``fn`` including those of own helpers it calls (a rejection moved into a helper is still there)."""
    n = len(pc.raise_sites)
    seen = {fn.name}
    work = [(fn, depth)]
    while work:
        f, d = work.pop()
        for c in astq.calls(f):
            callee = None
            if isinstance(c.func, ast.Attribute) and dotted(c.func.value) in ("self", "cls") and cls is not None:
                hit = repo.lookup_method(cls, c.func.attr)
                callee = hit[1] if hit else None
            elif isinstance(c.func, ast.Name):
                sym = repo.resolve_name(module, c.func.id)
                callee = sym.target if sym is not None and sym.kind == "func" and sym.module is module else None
            if callee is not None and callee.name not in seen and d > 0:
                seen.add(callee.name)
                raises_ = [x for x in astq.walk_no_nested(callee) if isinstance(x, ast.Raise)]
                if any("NotImplementedError" in ast.unparse(x) for x in raises_):
                    continue  # an abstract stub: the call dispatches to an override, it is not a rejection of this validator
                n += len(raises_)
                work.append((callee, d - 1))
    return n


def _direct_raises(pc):
    out = FALSE
    for st, c in pc.raise_sites:
        out = disj(out, c)
    return out


# --------------------------------------------------------------------------------------------- composites
def check_names(ctx, repo, rule="R2"):
    mod = repo.module(META)
    fn = repo.func(META, "_HeterogenousMetaEstimator._check_names")
    pc = PathConditions(fn, Atomizer())
    ats = atoms_of(pc.raises)
    U = _pick(ats, lambda a: a.startswith("eq(len(") and "set(" in a)
    C = _pick(ats, lambda a: "get_params(" in a and "value='__'" not in a)
    S = _pick(ats, lambda a: "value='__'" in a and "get_params" not in a)
    if C is not None and "get_params(deep=False)" not in C:
        ctx.violation(rule, "_check_names:predicate", "names are compared with `%s`; the property requires the estimator's own constructor "
                      "arguments (get_params(deep=False))" % C[:120], ctx.loc(mod, fn))
        return
    if S is not None and "ops=[In()]" not in S:
        ctx.violation(rule, "_check_names:predicate", "the separator test is not `'__' in name` (%s): names containing `__` are accepted" % S[:160],
                      ctx.loc(mod, fn), witness={"names": ["a__b"]})
        return
    # the separator test is applied to each *name* (the variable iterating over the names), not to the collection
    pn = astq.param_names(fn, skip_self=True)
    coll = pn[0] if pn else "names"
    itervars = set()
    for n in ast.walk(fn):
        gens = n.generators if isinstance(n, (ast.ListComp, ast.GeneratorExp, ast.SetComp)) else ([n] if isinstance(n, ast.For) else [])
        for g_ in gens:
            it_, tg_ = (g_.iter, g_.target)
            if dotted(it_) == coll and isinstance(tg_, ast.Name):
                itervars.add(tg_.id)
    for n in ast.walk(fn):
        if isinstance(n, ast.Compare) and len(n.ops) == 1 and isinstance(n.ops[0], (ast.In, ast.NotIn)) and astq.const_value(n.left) == "__":
            subj = dotted(n.comparators[0])
            if subj not in itervars:
                ctx.violation(rule, "_check_names:predicate", "the separator test `%s` looks for '__' in `%s`, not in each component name: a name such "
                              "as 'a__b' is accepted" % (ast.unparse(n), subj), ctx.loc(mod, n), witness={"names": ["a__b"]})
                return
    need = {"duplicate names": U, "names equal to constructor arguments (get_params(deep=False))": C, "names containing `__`": S}
    spec = disj(neg(atom(U or "?")), atom(C or "?"), atom(S or "?"))
    _decide(ctx, rule, "_check_names:predicate", pc.raises, spec, need,
            "rejects exactly: duplicate names, names that are constructor arguments, names containing `__`", ctx.loc(mod, fn), "_check_names",
            sites=(_n_sites(repo, mod, repo.cls(META + ":_HeterogenousMetaEstimator"), fn, pc), 3))


def _zip_second(fn, attr):
    """Local name bound to the second component of ``zip(*self.<attr>)`` (tuple assignment)."""
    for n in astq.walk_no_nested(fn):
        if isinstance(n, ast.Assign) and isinstance(n.targets[0], (ast.Tuple, ast.List)) and len(n.targets[0].elts) == 2 \
                and isinstance(n.value, ast.Call) and astq.call_name(n.value) == "zip" and len(n.value.args) == 1 \
                and isinstance(n.value.args[0], ast.Starred) and dotted(n.value.args[0].value) == "self." + attr \
                and all(isinstance(e, ast.Name) for e in n.targets[0].elts):
            return n.targets[0].elts[0].id, n.targets[0].elts[1].id
    return None, None


def check_forecasters(ctx, repo):
    mod = repo.module(FMETA)
    fn = repo.func(FMETA, "_HeterogenousEnsembleForecaster._check_forecasters")
    loc = ctx.loc(mod, fn)
    pc = PathConditions(fn, Atomizer())
    got = _direct_raises(pc)
    ats = atoms_of(got)
    N = _pick(ats, lambda a: a == "isnone(self.forecasters)")
    E = _pick(ats, lambda a: a.startswith(("eq(len(self.forecasters), ", "lt(len(self.forecasters), ")))
    if E is not None and E != "eq(len(self.forecasters), 0)" and E != "lt(len(self.forecasters), 1)":
        ctx.violation("R2", "_check_forecasters:predicate", "the emptiness test is `%s`: exactly the empty list must be rejected here (a composite "
                      "with one member is well-formed)" % E, loc, witness={"forecasters": "[('a', NaiveForecaster())]"})
        return
    L = _pick(ats, lambda a: a == "isinstance(self.forecasters, list)")
    ANY = _pick(ats, lambda a: a.startswith("any(") and "NotIn()" in a and "value='drop'" in a and "value=None" in a)
    LOOP = _pick(ats, lambda a: a.startswith("loop#"))
    D1 = _pick(ats, lambda a: a.startswith("eq(") and a.endswith(", None)"))
    D2 = _pick(ats, lambda a: a.startswith("eq(") and a.endswith(", 'drop')"))
    I = _pick(ats, lambda a: a.startswith("isinstance(") and a.endswith(", BaseForecaster)"))
    need = {"forecasters is None": N, "len(forecasters) == 0": E, "isinstance(forecasters, list)": L,
            "all members None/'drop'": ANY, "member loop": LOOP, "member is None": D1, "member == 'drop'": D2,
            "isinstance(member, BaseForecaster)": I}
    A = lambda x: atom(x or "?")  # noqa: E731
    spec = disj(A(N), A(E), neg(A(L)), neg(A(ANY)), conj(A(LOOP), neg(disj(A(D1), A(D2))), neg(A(I))))
    ok = _decide(ctx, "R2", "_check_forecasters:predicate", got, spec, need,
                 "rejects exactly: None / empty / non-list, all members dropped, a member that is neither None/'drop' nor a forecaster",
                 loc, "_check_forecasters", sites=(_n_sites(repo, mod, repo.cls(FMETA + ":_HeterogenousEnsembleForecaster"), fn, pc), 3))
    if ok:
        # the member tests run over the estimators of self.forecasters
        names, ests = _zip_second(fn, "forecasters")
        loops = [n for n in astq.walk_no_nested(fn) if isinstance(n, ast.For)]
        gens = [g for n in astq.walk_no_nested(fn) if isinstance(n, ast.GeneratorExp) for g in n.generators]
        good = ests is not None and any(dotted(l.iter) == ests for l in loops) and any(dotted(g.iter) == ests for g in gens)
        ctx.check(good if ests is not None else None, "R2", "_check_forecasters:subjects",
                  "both member tests run over the estimators of zip(*self.forecasters)",
                  "the member tests do not iterate the estimators taken from self.forecasters", loc)
        c = [c for c in astq.calls(fn) if astq.call_name(c) == "_check_names"]
        ctx.check(bool(c) and all(len(x.args) == 1 and dotted(x.args[0]) == names for x in c), "R2", "_check_forecasters:names",
                  "_check_names receives the component names", "_check_names is not applied to the names of zip(*self.forecasters)", loc)


def check_steps(ctx, repo):
    mod = repo.module(PIPE)
    fn = repo.func(PIPE, "TransformedTargetForecaster._check_steps")
    loc = ctx.loc(mod, fn)
    pc = PathConditions(fn, Atomizer())
    got = _direct_raises(pc)
    ats = atoms_of(got)
    names, ests = _zip_second(fn, "steps")
    LOOP = _pick(ats, lambda a: a.startswith("loop#"))
    T = _pick(ats, lambda a: a.startswith("isinstance(") and a.endswith(", _SeriesToSeriesTransformer)"))
    F = _pick(ats, lambda a: a.startswith("isinstance(") and a.endswith(", BaseForecaster)"))
    need = {"transformer loop": LOOP, "isinstance(step, _SeriesToSeriesTransformer)": T, "isinstance(last step, BaseForecaster)": F,
            "zip(*self.steps)": ests}
    A = lambda x: atom(x or "?")  # noqa: E731
    spec = disj(conj(A(LOOP), neg(A(T))), neg(A(F)))
    ok = _decide(ctx, "R2", "_check_steps:predicate", got, spec, need,
                 "rejects exactly: a non-final step that is not a series-to-series transformer, a final step that is not a forecaster",
                 loc, "_check_steps", sites=(_n_sites(repo, mod, repo.cls(PIPE + ":TransformedTargetForecaster"), fn, pc), 2))
    if not ok:
        return
    # subjects: loop over estimators[:-1], final = estimators[-1]
    def resolve(e):
        if isinstance(e, ast.Name):
            vals = astq.assigned_values(fn, e.id)
            if len(vals) == 1:
                return vals[0]
        return e
    loops = [n for n in astq.walk_no_nested(fn) if isinstance(n, ast.For)]
    good_loop = False
    for l in loops:
        it = resolve(l.iter)
        if isinstance(it, ast.Subscript) and dotted(it.value) == ests and isinstance(it.slice, ast.Slice) and it.slice.step is None \
                and (it.slice.lower is None or _intval(it.slice.lower) == 0) and _intval(it.slice.upper) == -1:
            good_loop = True
    fin = "%s@1[(USub 1)]" % ests
    good_final = F.startswith("isinstance(%s[(USub 1)]" % ests) or F.startswith("isinstance(" + fin)
    ctx.check(good_loop and good_final, "R2", "_check_steps:subjects", "transformers = all steps but the last, forecaster = the last step",
              "the type tests are not applied to estimators[:-1] / estimators[-1] (loop ok: %s, final ok: %s, final test: %s)" % (good_loop, good_final, F), loc)
    c = [c for c in astq.calls(fn) if astq.call_name(c) == "_check_names"]
    ctx.check(bool(c) and all(len(x.args) == 1 and dotted(x.args[0]) == names for x in c), "R2", "_check_steps:names",
              "_check_names receives the step names", "_check_names is not applied to the names of zip(*self.steps)", loc)


# --------------------------------------------------------------------------------------------- scalar settings
def check_sp_list(ctx, repo):
    mod = repo.module(VFC)
    fn = repo.func(VFC, "check_sp")
    pc = PathConditions(fn, Atomizer({"sp": "x"}, const_names={"enforce_list": TRUE}))
    spec = conj(neg(atom("isnone(x)")), neg(conj(atom("is_int(x)"), neg(atom("lt(x, 1)")))), neg(atom("isinstance(x, list)")))
    ok, wit = equivalent(pc.raises, spec)
    ctx.check(ok, "R2", "check_sp[enforce_list]:predicate", "with enforce_list=True rejects iff sp is neither None, an int >= 1 nor a list",
              "check_sp(enforce_list=True) rejects iff %s (witness %s)" % (show(pc.raises), wit), ctx.loc(mod, fn))
    # what check_sp hands back (sp itself, [sp] for an integer under enforce_list) is decided by the witness table (R2 oracle:check_sp*)


DEFAULTS = (
    (VFC, "check_y", {"allow_empty": False, "allow_constant": True, "enforce_index_type": None}),
    (VFC, "check_X", {"allow_empty": False, "enforce_univariate": False, "enforce_index_type": None}),
    (VFC, "check_y_X", {"allow_empty": False, "allow_constant": True, "enforce_index_type": None}),
    (VFC, "check_fh", {"enforce_relative": False}),
    (VFC, "check_sp", {"enforce_list": False}),
    (VFC, "check_cv", {"enforce_start_with_window": False}),
    (VSER, "check_series", {"enforce_univariate": False, "allow_empty": False, "allow_numpy": True, "enforce_index_type": None}),
    (VSER, "check_time_index", {"allow_empty": False, "enforce_index_type": None}),
)


def check_defaults(ctx, repo):
    """Callers rely on the rejecting defaults (empty data rejected, constant series allowed, no index type forced...)."""
    for path, fname, want in DEFAULTS:
        mod = repo.module(path)
        fn = repo.func(path, fname)
        a = fn.args
        pos = a.posonlyargs + a.args
        dflt = {}
        for p, d in zip(pos[len(pos) - len(a.defaults):], a.defaults):
            dflt[p.arg] = d
        for p, d in zip(a.kwonlyargs, a.kw_defaults):
            if d is not None:
                dflt[p.arg] = d
        for pname, val in sorted(want.items()):
            key = "%s:default:%s" % (fname, pname)
            if pname not in dflt:
                ctx.undecided("R2", key, "%s has no defaulted parameter %r" % (fname, pname), ctx.loc(mod, fn))
                continue
            got = astq.const_value(dflt[pname], "?")
            ctx.check(got is val or (got == val and type(got) is type(val)), "R2", key, "%s defaults to %r" % (pname, val),
                      "%s(%s=...) defaults to %s; every caller that omits it relies on %r (%s)" % (
                          fname, pname, ast.unparse(dflt[pname]), val,
                          "empty / malformed input would be accepted" if val is False else "valid input would be rejected or coerced"),
                      ctx.loc(mod, fn))


def check_y_constant(ctx, repo):
    mod = repo.module(VFC)
    fn = repo.func(VFC, "check_y")
    pc = PathConditions(fn, Atomizer())
    got = _direct_raises(pc)
    ats = atoms_of(got)
    AC = _pick(ats, lambda a: a == "allow_constant")
    ALL = _pick(ats, lambda a: a.startswith("np.all("))
    need = {"allow_constant": AC, "np.all(y == y.iloc[0])": ALL}
    if ALL is not None and not (" Eq " in ALL and ALL.endswith(".iloc[0]))")):
        ctx.violation("R2", "check_y:constant", "the constant-series test is `%s`, not `all values equal the first value`" % ALL, ctx.loc(mod, fn))
        return
    spec = conj(neg(atom(AC or "?")), atom(ALL or "?"))
    _decide(ctx, "R2", "check_y:constant", got, spec, need, "rejects a constant series iff allow_constant is off", ctx.loc(mod, fn), "check_y",
            sites=(_n_sites(repo, mod, None, fn, pc), 1))
    # the series handed back is the validated one
    cs = [c for c in astq.calls(fn) if astq.call_name(c) == "check_series"]
    ok = bool(cs) and all(c.args and dotted(c.args[0]) == fn.args.args[0].arg for c in cs)
    rets = astq.returns(fn)
    ctx.check(ok and bool(rets), "R2", "check_y:subject", "check_series is applied to y", "check_series is not applied to the target", ctx.loc(mod, fn))


def _fold_types(repo, module, fn, e, depth=0):
    """Constant-fold an expression denoting a tuple of classes to a list of dotted external names (or None)."""
    if depth > 6:
        return None
    if isinstance(e, (ast.Tuple, ast.List)):
        out = []
        for x in e.elts:
            s = repo.resolve_dotted(module, dotted(x)) if dotted(x) else None
            if s is None or s.kind != "ext":
                return None
            out.append(s.dotted)
        return out
    if isinstance(e, ast.Name):
        vals = astq.assigned_values(fn, e.id) if fn is not None else []
        if len(vals) == 1:
            return _fold_types(repo, module, fn, vals[0], depth + 1)
        s = repo.resolve_name(module, e.id)
        if s is not None and s.kind == "const":
            return _fold_types(repo, s.module or module, None, s.target, depth + 1)
        return None
    if isinstance(e, ast.Call) and astq.call_name(e) in ("tuple", "list") and len(e.args) == 1:
        return _fold_types(repo, module, fn, e.args[0], depth + 1)

    def excluded(test, var):
        # `var is not C` / `var != C` -> ("drop", C);  `var is C` / `var == C` -> ("keep", C)
        if isinstance(test, ast.Compare) and len(test.ops) == 1 and isinstance(test.ops[0], (ast.IsNot, ast.NotEq, ast.Is, ast.Eq)) \
                and dotted(test.left) == var:
            s = repo.resolve_dotted(module, dotted(test.comparators[0])) if dotted(test.comparators[0]) else None
            if s is None or s.kind != "ext":
                return None
            return ("drop" if isinstance(test.ops[0], (ast.IsNot, ast.NotEq)) else "keep", s.dotted)
        return None

    def apply(base, ex):
        return [t for t in base if (t != ex[1]) == (ex[0] == "drop")]
    if isinstance(e, ast.Call) and astq.call_name(e) == "filter" and len(e.args) == 2 and isinstance(e.args[0], ast.Lambda) \
            and len(e.args[0].args.args) == 1:
        base = _fold_types(repo, module, fn, e.args[1], depth + 1)
        ex = excluded(e.args[0].body, e.args[0].args.args[0].arg)
        if base is None or ex is None:
            return None
        return apply(base, ex)
    if isinstance(e, (ast.ListComp, ast.GeneratorExp)) and len(e.generators) == 1 and isinstance(e.generators[0].target, ast.Name) \
            and dotted(e.elt) == e.generators[0].target.id:
        base = _fold_types(repo, module, fn, e.generators[0].iter, depth + 1)
        if base is None:
            return None
        for t in e.generators[0].ifs:
            ex = excluded(t, e.generators[0].target.id)
            if ex is None:
                return None
            base = apply(base, ex)
        return base
    if isinstance(e, ast.BinOp) and isinstance(e.op, ast.Add):
        a, b = _fold_types(repo, module, fn, e.left, depth + 1), _fold_types(repo, module, fn, e.right, depth + 1)
        return None if a is None or b is None else a + b
    return None


def check_series_spec(ctx, repo):
    mod = repo.module(VSER)
    fn = repo.func(VSER, "check_series")
    loc = ctx.loc(mod, fn)
    zname = fn.args.args[0].arg
    want = {True: {"pandas.Series", "pandas.DataFrame", "numpy.ndarray"}, False: {"pandas.Series", "pandas.DataFrame"}}
    g = CFG(fn)
    for allow in (True, False):
        key = "check_series[allow_numpy=%s]:types" % allow
        pc = PathConditions(fn, Atomizer(const_names={"allow_numpy": TRUE if allow else FALSE}))
        got = _direct_raises(pc)
        ats = atoms_of(got)
        T = _pick(ats, lambda a: a.startswith("isinstance(%s, " % zname))
        if T is not None and equivalent(got, neg(atom(T)))[0] is False:
            ctx.violation("R2", key, "check_series rejects iff %s, expected iff not %s" % (show(got)[:200], T), loc)
            continue
        if T is None:
            ctx.check(None if pc.raise_sites else False, "R2", key, "", "no type rejection of the form `not isinstance(%s, <types>)`: %s" % (
                zname, show(got)[:200]), loc)
            continue
        # find the isinstance test and the binding of its class tuple valid under this option
        types = None
        for n in astq.walk_no_nested(fn):
            if isinstance(n, ast.Call) and astq.call_name(n) == "isinstance" and len(n.args) == 2 and dotted(n.args[0]) == zname \
                    and any(isinstance(p, ast.If) and block_always_raises(p.body) and any(x is n for x in ast.walk(p.test)) for p in ast.walk(fn)):
                spec = n.args[1]
                if isinstance(spec, ast.Name) and len(astq.assigned_values(fn, spec.id)) > 1:
                    for st in astq.walk_no_nested(fn):
                        if isinstance(st, ast.Assign) and len(st.targets) == 1 and dotted(st.targets[0]) == spec.id:
                            node = g.node_of(st)
                            conds = g.guards_of(node) if node is not None else []
                            sel = None
                            for t, br in conds:
                                f = Atomizer(const_names={"allow_numpy": TRUE if allow else FALSE}).formula(t)
                                if f in (TRUE, FALSE):
                                    sel = (f == TRUE) == bool(br) if sel is None else (sel and ((f == TRUE) == bool(br)))
                            if sel:
                                types = _fold_types(repo, mod, None, st.value)
                                if types is None and isinstance(st.value, ast.Name):
                                    types = _fold_types(repo, mod, fn, st.value)
                else:
                    types = _fold_types(repo, mod, fn, spec)
        if types is None:
            _skip(ctx, "R2", key, "accepted container types not foldable to a class list", loc)
            continue
        ctx.check(set(types) == want[allow], "R2", key, "accepts exactly %s" % sorted(want[allow]),
                  "with allow_numpy=%s check_series accepts %s, expected %s" % (allow, sorted(types), sorted(want[allow])), loc,
                  witness={"input_type": sorted(set(types) ^ want[allow])})
    # the index is validated for every input that has one (everything but a bare array)
    pc = PathConditions(fn, Atomizer(), mark=lambda st: not isinstance(st, (ast.If, ast.For, ast.While, ast.With, ast.Try)) and any(
        astq.call_name(c) == "check_time_index" for c in astq.calls(st)))
    ats = set()
    cond = FALSE
    for st, c in pc.marked:
        cond = disj(cond, c)
    ats = sorted(atoms_of(cond) | atoms_of(pc.raises))
    ND = _pick(ats, lambda a: a == "isinstance(%s, np.ndarray)" % zname)
    key = "check_series:index-validated"
    if not pc.marked or ND is None or len(ats) > 12:
        ctx.check(False if not pc.marked else None, "R2", key, "", "check_series never validates the index" if not pc.marked else
                  "cannot relate the index check to `isinstance(%s, np.ndarray)` (%s)" % (zname, show(cond)[:200]), loc)
    else:
        bad = None
        for vals in product((False, True), repeat=len(ats)):
            env = dict(zip(ats, vals))
            c = evaluate(cond, env)
            if env[ND] and c:
                bad = ("index check runs for a bare array", env)
            if not env[ND] and not evaluate(pc.raises, env) and not c:
                bad = ("index check skipped for a series / frame", env)
            if bad:
                break
        ctx.check(bad is None, "R2", key, "check_time_index runs exactly for the inputs that carry an index (not np.ndarray)",
                  "%s: %s" % (bad[0], {k: v for k, v in bad[1].items()}) if bad else "", loc, witness=bad[1] if bad else None)
        for st, c in pc.marked:
            for cl in astq.calls(st):
                if astq.call_name(cl) == "check_time_index":
                    ok = bool(cl.args) and dotted(cl.args[0]) == zname + ".index"
                    ctx.check(ok, "R2", "check_series:index-subject", "the validated index is %s.index" % zname,
                              "check_time_index is applied to `%s`, not to the index of the data" % (ast.unparse(cl.args[0]) if cl.args else "?"), loc)


def check_equal_index_spec(ctx, repo):
    mod = repo.module(VSER)
    fn = repo.func(VSER, "check_equal_time_index")
    loc = ctx.loc(mod, fn)
    va = fn.args.vararg.arg if fn.args.vararg else None
    pc = PathConditions(fn, Atomizer(), mark=lambda st: not isinstance(st, (ast.If, ast.For, ast.While, ast.With, ast.Try)) and any(
        astq.call_name(c) == "check_time_index" for c in astq.calls(st)))
    got = _direct_raises(pc)
    ats = atoms_of(got)
    LOOP = _pick(ats, lambda a: a.startswith("loop#"))
    EQ = _pick(ats, lambda a: ".equals(" in a)
    need = {"loop over the series": LOOP, "<first index>.equals(<index>)": EQ, "*args": va}
    spec = conj(atom(LOOP or "?"), neg(atom(EQ or "?")))
    ok = _decide(ctx, "R2", "check_equal_time_index:predicate", got, spec, need, "rejects iff some series' index differs from the first",
                 loc, "check_equal_time_index")
    if not ok:
        return
    loops = [n for n in astq.walk_no_nested(fn) if isinstance(n, ast.For)]
    lv = loops[0].target.id if loops and isinstance(loops[0].target, ast.Name) else None
    it = loops[0].iter if loops else None
    direct = dotted(it) == va or (isinstance(it, ast.Subscript) and dotted(it.value) == va)
    if len(loops) != 1 or not direct:
        _skip(ctx, "R2", "check_equal_time_index:subjects", "the series are not iterated directly (`%s`)" % (ast.unparse(it) if it is not None else "?"), loc)
        return
    covers = dotted(it) == va or (isinstance(it, ast.Subscript) and dotted(it.value) == va and isinstance(it.slice, ast.Slice)
                                  and it.slice.upper is None and it.slice.step is None
                                  and (it.slice.lower is None or _intval(it.slice.lower) in (0, 1)))
    first = "%s[0].index" % va
    want1 = "%s.equals(%s@1.index)" % (first, lv)
    want2 = "%s@1.index.equals(%s)" % (lv, first)
    ctx.check(covers and EQ in (want1, want2), "R2", "check_equal_time_index:subjects",
              "every series after the first is compared with the first series' index",
              "the comparison is `%s` over `%s`: not every series is compared with %s[0].index" % (EQ, ast.unparse(it) if it is not None else "?", va), loc)
    # each index is itself validated
    subj = []
    for st, c in pc.marked:
        for cl in astq.calls(st):
            if astq.call_name(cl) == "check_time_index" and cl.args:
                e = cl.args[0]
                if isinstance(e, ast.Name):
                    vals = astq.assigned_values(fn, e.id)
                    e = vals[0] if len(vals) == 1 else e
                subj.append((ast.unparse(e), c))
    has_first = any(s == first and c == TRUE for s, c in subj)
    has_each = any(s == "%s.index" % lv and c != FALSE and LOOP in atoms_of(c) for s, c in subj) or (dotted(it) == va and any(
        s == "%s.index" % lv for s, c in subj))
    ctx.check(has_first and has_each or (dotted(it) == va and has_each), "R2", "check_equal_time_index:each-validated",
              "the first index and every further index pass check_time_index",
              "not every index is validated by check_time_index (validated: %s)" % [s for s, _ in subj], loc)


def check_wrappers(ctx, repo):
    """check_y_X validates X when given; check_fh wraps exactly the non-horizon inputs."""
    mod = repo.module(VFC)
    fn = repo.func(VFC, "check_y_X")
    pc = PathConditions(fn, Atomizer(), mark=lambda st: isinstance(st, ast.Assign) and isinstance(st.value, ast.Call)
                        and astq.call_name(st.value) == "check_X")
    cond = FALSE
    for st, c in pc.marked:
        cond = disj(cond, c)
    xa = _pick(atoms_of(cond), lambda a: a.startswith("isnone(X"))
    good = False
    if xa is not None:
        good = equivalent(cond, neg(atom(xa)))[0] is True
        good = good and all(dotted(st.targets[0]) == "X" and st.value.args and dotted(st.value.args[0]) == "X" for st, _ in pc.marked)
    ctx.check(good, "R2", "check_y_X:check_X", "X = check_X(X) exactly when X is given",
              "check_y_X does not validate X (as `X = check_X(X)`) exactly when X is given: condition %s" % show(cond), ctx.loc(mod, fn))
    fn = repo.func(VFC, "check_fh")
    pc = PathConditions(fn, Atomizer(), mark=lambda st: not isinstance(st, (ast.If, ast.For, ast.While)) and any(
        astq.call_name(c) == "ForecastingHorizon" for c in astq.calls(st)))
    cond = FALSE
    for st, c in pc.marked:
        cond = disj(cond, c)
    ia = _pick(atoms_of(cond), lambda a: a.startswith("isinstance(fh") and a.endswith("ForecastingHorizon)"))
    good = ia is not None and equivalent(cond, neg(atom(ia)))[0] is True
    ctx.check(good, "R2", "check_fh:wrap-condition", "wraps exactly the inputs that are not already a ForecastingHorizon",
              "check_fh builds a horizon under the condition %s (expected: not isinstance(fh, ForecastingHorizon)): raw values can "
              "pass unvalidated" % show(cond), ctx.loc(mod, fn))


# --------------------------------------------------------------------------------------------- settings inside fit bodies
def check_initial_window_settings(ctx, repo):
    mod = repo.module(SPLIT)
    fn = repo.func(SPLIT, "BaseWindowSplitter._split")
    cls = repo.cls(SPLIT + ":BaseWindowSplitter")

    def inline(call, at):
        # an own helper whose direct rejections are conditions on the splitter's settings only
        f = call.func
        if isinstance(f, ast.Attribute) and dotted(f.value) == "self" and f.attr in cls.methods and f.attr != fn.name:
            sub = PathConditions(cls.methods[f.attr], Atomizer())
            r = _direct_raises(sub)
            if r != FALSE and r != TRUE and atoms_of(r) and all(a.startswith(("isnone(self.", "self.", "lt(self.", "eq(self.")) for a in atoms_of(r)):
                return r  # (an unconditional raise is an abstract stub that dispatches to an override)
        return None
    pc = PathConditions(fn, Atomizer(), inline_raising_calls=inline)
    got = pc.raises if any(inline(c, None) is not None for c in astq.calls(fn)) else _direct_raises(pc)
    ats = atoms_of(got)
    IWN = _pick(ats, lambda a: a == "isnone(self.initial_window)")
    SW = _pick(ats, lambda a: a == "self.start_with_window")
    LE = _pick(ats, lambda a: a.startswith("lt(") and "self.initial_window" in a and "self.window_length" in a)
    need = {"initial_window is None": IWN, "start_with_window": SW, "initial_window vs window_length": LE}
    if LE == "lt(self.window_length, self.initial_window)":
        rel = neg(atom(LE))  # initial_window <= window_length
    elif LE is not None:
        rel = None
    else:
        rel = atom("?")
    if rel is None:
        ctx.violation("R2", "BaseWindowSplitter._split:initial-window-settings",
                      "the initial window is compared as %s; the property requires rejecting initial_window <= window_length" % LE, ctx.loc(mod, fn))
        return
    spec = conj(neg(atom(IWN or "?")), disj(neg(atom(SW or "?")), rel))
    _decide(ctx, "R2", "BaseWindowSplitter._split:initial-window-settings", got, spec, need,
            "rejects exactly: initial_window with start_with_window off, initial_window <= window_length", ctx.loc(mod, fn), "BaseWindowSplitter._split")


def check_naive_settings(ctx, repo):
    nf = repo.cls(NAIVE + ":NaiveForecaster")
    fn = nf.methods.get("fit")
    if fn is None:
        raise AnalysisError("anchor missing: NaiveForecaster.fit")
    loc = ctx.loc(nf.module, fn)

    def is_validator_store(st, v):
        return isinstance(st, ast.Assign) and isinstance(st.value, ast.Call) and astq.call_name(st.value) == v
    pc = PathConditions(fn, Atomizer(), mark=lambda st: is_validator_store(st, "check_sp") or is_validator_store(st, "check_window_length"))
    got = _direct_raises(pc)
    ats = atoms_of(got) | {a for _, c in pc.marked for a in atoms_of(c)}
    S = {s: _pick(ats, lambda a, s=s: a == "eq(self.strategy, '%s')" % s) for s in ("last", "mean", "drift")}
    WN = _pick(ats, lambda a: a == "isnone(self.window_length)")
    SP1 = _pick(ats, lambda a: a == "eq(self.sp, 1)")
    WLT = _pick(ats, lambda a: a.startswith("lt(") and "self.window_length" in a and "self.sp" in a and "window_length_" not in a)
    W1 = _pick(ats, lambda a: a.startswith(("eq(self.window_length, ", "lt(self.window_length, ")) and a[-2].isdigit())
    FIT = _pick(ats, lambda a: a.startswith("lt(") and "len(" in a and "self.window_length_" in a)
    exp_fit = None
    if FIT is not None and FIT.startswith("lt(len(") and FIT.endswith(", self.window_length_)"):
        exp_fit = FIT
    if WLT is not None:
        WLT_loc, WLT = WLT, "lt(self.window_length, self.sp)"
    if W1 is not None:
        W1 = "eq(self.window_length, 1)"
    if FIT is not None and exp_fit is None:
        ctx.violation("R4", "NaiveForecaster.fit:settings", "the final window guard is `%s`; the property requires rejecting exactly "
                      "window_length_ > len(training series)" % FIT, loc)
        return
    need = {"strategy == 'last'": S["last"], "strategy == 'mean'": S["mean"], "strategy == 'drift'": S["drift"],
            "window_length is None": WN, "sp == 1": SP1, "window_length < sp": WLT, "window_length == 1": W1,
            "window_length_ > len(training series)": FIT}
    if any(v is None for v in need.values()):
        _skip(ctx, "R4", "NaiveForecaster.fit:settings", "fit is not the literal strategy dispatch (tests not located: %s)" % sorted(
            k for k, v in need.items() if v is None), loc)
        return
    A = atom
    last, mean, drift = A(S["last"]), conj(neg(A(S["last"])), A(S["mean"])), conj(neg(A(S["last"])), neg(A(S["mean"])), A(S["drift"]))
    unknown = conj(neg(A(S["last"])), neg(A(S["mean"])), neg(A(S["drift"])))
    early = disj(conj(mean, neg(A(WN)), neg(A(SP1)), A(WLT)), conj(drift, A(W1)), unknown)
    spec = disj(early, conj(neg(early), A(FIT)))
    _decide(ctx, "R4", "NaiveForecaster.fit:settings", got, spec, {},
            "rejects exactly: mean with window_length < sp (seasonal), drift with window_length == 1, unknown strategy, "
            "a window longer than the training series", loc, "NaiveForecaster.fit")
    # validators: sp validated whenever it is used (last with sp != 1, mean), window_length for mean and drift
    for vname, attr, want, text in (
            ("check_sp", "sp", disj(conj(last, neg(A(SP1))), mean), "`last` with sp != 1, `mean`"),
            ("check_window_length", "window_length", disj(mean, drift), "`mean`, `drift`")):
        cond = FALSE
        good_subject = True
        for st, c in pc.marked:
            if is_validator_store(st, vname):
                cond = disj(cond, c)
                good_subject = good_subject and bool(st.value.args) and dotted(st.value.args[0]) == "self." + attr and \
                    any(astq.is_self_attr(t) and t.attr == attr + "_" for t in st.targets)
        # compare on the paths that are not rejected before the validator runs
        ok, wit = equivalent(conj(cond, neg(early)), conj(want, neg(early)))
        ctx.check(bool(ok) and good_subject, "R4", "NaiveForecaster.fit:%s-when-used" % vname,
                  "self.%s_ = %s(self.%s) on exactly the strategies that use it (%s)" % (attr, vname, attr, text),
                  "%s(self.%s) is stored under the condition %s; the strategies %s need it (differing case %s): an invalid `%s` is "
                  "accepted and the estimator becomes fitted" % (vname, attr, show(cond), text, wit, attr), loc, witness=wit)


def check_reduce_guard(ctx, repo):
    """_sliding_window_transform: at least one full row must remain: reject iff window_length + max(fh) >= n_timepoints."""
    from ..lin import Lin
    mod = repo.module(REDUCE)
    fn = repo.func(REDUCE, "_sliding_window_transform")
    loc = ctx.loc(mod, fn)

    def lin_of(e):
        e = astq.inline_locals(fn, e)
        if isinstance(e, ast.Constant) and isinstance(e.value, int) and not isinstance(e.value, bool):
            return Lin.c(e.value)
        if isinstance(e, ast.BinOp) and isinstance(e.op, (ast.Add, ast.Sub)):
            a, b = lin_of(e.left), lin_of(e.right)
            if a is None or b is None:
                return None
            return a + b if isinstance(e.op, ast.Add) else a - b
        if isinstance(e, (ast.Name, ast.Attribute, ast.Subscript, ast.Call)):
            return Lin.sym(astq.canon(e))
        return None
    found = []
    for n in astq.walk_no_nested(fn):
        if isinstance(n, ast.If) and block_always_raises(n.body) and isinstance(n.test, ast.Compare) and len(n.test.ops) == 1:
            l, r = lin_of(n.test.left), lin_of(n.test.comparators[0])
            if l is None or r is None:
                continue
            syms = (l - r).symbols()
            if any("window_length" in s for s in syms) and any("fh" in s for s in syms):
                found.append((n, l - r, n.test.ops[0]))
    if len(found) != 1:
        ctx.check(False if not found else None, "R4", "_sliding_window_transform:window-fits-exact", "",
                  "no single feasibility guard relating window_length, fh and the series length", loc)
        return
    n, d, op = found[0]
    # normalise to  d' >= 0  with d' = window_length + fh_max - n_timepoints
    syms = sorted(d.symbols())
    wl = [s for s in syms if "window_length" in s]
    other = [s for s in syms if s not in wl and "fh" not in s]
    fhs = [s for s in syms if "fh" in s]
    ok_shape = len(wl) == 1 and len(fhs) == 1 and len(other) == 1
    if not ok_shape:
        _skip(ctx, "R4", "_sliding_window_transform:window-fits-exact", "guard not over (window_length, max fh, n): %r" % (d,), loc)
        return
    want = Lin.sym(wl[0]) + Lin.sym(fhs[0]) - Lin.sym(other[0])
    verdict = None
    if isinstance(op, ast.GtE) and d == want or isinstance(op, ast.LtE) and d == want.scale(-1):
        verdict = True
    elif isinstance(op, ast.Gt) and d == want + 1 or isinstance(op, ast.Lt) and d == (want + 1).scale(-1):
        verdict = True
    elif isinstance(op, (ast.Gt, ast.GtE, ast.Lt, ast.LtE)):
        verdict = False
    is_last = fhs[0].endswith("[(USub 1)]") or "max(" in fhs[0]
    ctx.check(verdict if is_last else None, "R4", "_sliding_window_transform:window-fits-exact",
              "rejects iff window_length + max(fh) >= n_timepoints (no full row would remain)",
              "the guard is `%s` (normalised %r %s 0); exactly window_length + max(fh) >= n_timepoints must be rejected: the boundary case "
              "%s" % (ast.unparse(n.test), d, type(op).__name__, "is accepted with an empty training table" if verdict is False else "?"),
              ctx.loc(mod, n), witness={"window_length + fh_max": "n_timepoints"})


def check_data_binding(ctx, repo):
    """Direct calls of the data validators in fit / update bodies bind the method's y to the validator's y and X to X."""
    from ..passthru import alias_locals
    BF = repo.cls("sktime/forecasting/base/_base.py:BaseForecaster")
    vals = {"_set_y_X": ("y", "X"), "check_y_X": ("y", "X"), "_update_y_X": ("y", "X"), "check_y": ("y",), "check_X": ("X",)}
    seen = set()
    n = 0
    for c in repo.subclasses(BF):
        for mname in ("fit", "update", "update_predict", "_fit", "_update"):
            hit = repo.lookup_method(c, mname)
            if hit is None:
                continue
            k, fn = hit
            if (k.qual, mname) in seen:
                continue
            seen.add((k.qual, mname))
            params = [a.arg for a in fn.args.args]
            if "y" not in params:
                continue
            pa = {p: p for p in ("y", "X") if p in params}
            alias, origin_of = alias_locals(repo, k.module, fn, lambda e: None, params_alias=pa)
            for call in astq.calls(fn):
                nm = astq.call_name(call)
                if nm not in vals:
                    continue
                formals = vals[nm]
                bound = {}
                for i, a in enumerate(call.args[:len(formals)]):
                    bound[formals[i]] = a
                for kw in call.keywords:
                    if kw.arg in formals:
                        bound[kw.arg] = kw.value
                for f_, a in bound.items():
                    o = origin_of(a)
                    if o is None:
                        continue  # a derived value (transformed target ...): not a binding of the raw data
                    n += 1
                    key = "%s.%s:%s(%s)" % (k.qual, mname, nm, f_)
                    ctx.check(o == f_ or (isinstance(a, ast.Constant) and a.value is None), "R1", key,
                              "the caller's %s is validated as %s" % (o, f_),
                              "%s.%s passes its `%s` as the `%s` of %s: the target is validated with the rules for exogenous data "
                              "(multivariate / array targets accepted) and vice versa" % (k.name, mname, o, f_, nm), ctx.loc(k.module, call))
    ctx.count("R1_data_bindings", n)


def check_fh_init(ctx, repo):
    """ForecastingHorizon(values, is_relative): the value container must be of a type admitted for the *declared* kind."""
    FHP = "sktime/forecasting/base/_fh.py"
    mod = repo.module(FHP)
    fn = repo.func(FHP, "ForecastingHorizon.__init__")
    pc = PathConditions(fn, Atomizer())
    got = _direct_raises(pc)
    ats = atoms_of(got)
    B = _pick(ats, lambda a: a.startswith("isinstance(is_relative") and a.endswith("bool)"))
    R = _pick(ats, lambda a: a == "is_relative")
    TR = _pick(ats, lambda a: a.startswith("in(type(values") and a.endswith("RELATIVE_TYPES)"))
    TA = _pick(ats, lambda a: a.startswith("in(type(values") and a.endswith("ABSOLUTE_TYPES)"))
    need = {"isinstance(is_relative, bool)": B, "is_relative": R, "type(values) in RELATIVE_TYPES": TR, "type(values) in ABSOLUTE_TYPES": TA}
    if B is not None and R is not None and (TR is None) != (TA is None) and len(pc.raise_sites) >= 3:
        ctx.violation("R2", "ForecastingHorizon.__init__:kind-compat", "both kinds are tested against the same type table (%s): a container "
                      "admitted only for the other kind is accepted (rejection condition %s)" % (TR or TA, show(got)[:300]), ctx.loc(mod, fn),
                      witness={"values": "pd.PeriodIndex" if TR is None else "relative steps", "is_relative": TR is None})
        return
    A = lambda x: atom(x or "?")  # noqa: E731
    spec = disj(neg(A(B)), conj(A(R), neg(A(TR))), conj(neg(A(R)), neg(A(TA))))
    _decide(ctx, "R2", "ForecastingHorizon.__init__:kind-compat", got, spec, need,
            "rejects exactly: non-bool is_relative, values of a type not admitted for the declared kind (relative / absolute)",
            ctx.loc(mod, fn), "ForecastingHorizon.__init__", sites=(_n_sites(repo, mod, repo.cls(FHP + ":ForecastingHorizon"), fn, pc), 3))
    # the tested container is the validated one
    cv = [n for n in astq.walk_no_nested(fn) if isinstance(n, ast.Assign) and isinstance(n.value, ast.Call) and astq.call_name(n.value) == "_check_values"]
    ctx.check(bool(cv) and all(dotted(n.targets[0]) == "values" and n.value.args and dotted(n.value.args[0]) == "values" for n in cv), "R2",
              "ForecastingHorizon.__init__:validated-values", "the values tested and stored are _check_values(values)",
              "ForecastingHorizon.__init__ does not rebind `values = _check_values(values)` before the kind test / store", ctx.loc(mod, fn))


def check_names_callers(ctx, repo, rule="R2"):
    """Every caller hands `_check_names` the component names as they are: a de-duplicated / re-ordered collection makes the
    uniqueness test vacuous."""
    n = 0
    for c in repo.classes.values():
        for fn in c.methods.values():
            for call in astq.calls(fn):
                if astq.call_name(call) != "_check_names" or not (isinstance(call.func, ast.Attribute) and dotted(call.func.value) == "self"):
                    continue
                n += 1
                arg = call.args[0] if call.args else None
                e = arg
                if isinstance(e, ast.Name):
                    vals = astq.assigned_values(fn, e.id)
                    e = vals[-1] if vals else e
                lossy = None
                for x in ast.walk(e) if e is not None else ():
                    if isinstance(x, ast.Call) and astq.call_name(x) in ("set", "frozenset", "dict", "fromkeys", "unique", "OrderedDict"):
                        lossy = astq.call_name(x)
                    if isinstance(x, (ast.Set, ast.SetComp, ast.DictComp)):
                        lossy = "a set/dict display"
                # names collected in a loop: every component must contribute (no `continue` / `break` / condition before the append)
                if lossy is None and isinstance(arg, ast.Name):
                    for loop in [x for x in astq.walk_no_nested(fn) if isinstance(x, ast.For)]:
                        apps = [(i_, st_) for i_, st_ in enumerate(loop.body) if any(
                            isinstance(x, ast.Call) and isinstance(x.func, ast.Attribute) and x.func.attr == "append" and dotted(x.func.value) == arg.id
                            for x in ast.walk(st_))]
                        for i_, st_ in apps:
                            skipped = any(isinstance(x, (ast.Continue, ast.Break)) for prev in loop.body[:i_] for x in ast.walk(prev))
                            conditional = not (isinstance(st_, ast.Expr))
                            if skipped or conditional:
                                lossy = "a loop that skips some components before `%s.append(...)`" % arg.id
                ctx.check(lossy is None, rule, "%s.%s:_check_names-argument" % (c.qual, fn.name), "the names are handed over as they are",
                          "%s.%s passes `%s` to _check_names: names are lost in %s before the name checks can reject them" % (
                              c.name, fn.name, ast.unparse(arg) if arg is not None else "?", lossy), ctx.loc(c.module, call),
                          witness={"names": ["a", "a"]})
    ctx.count("check_names_callers", n)


def check_reducer_settings(ctx, repo, flow):
    """_Reducer.fit validates both integer settings on every path, each applied to its own constructor parameter."""
    from ..flow import name_pred
    cls = repo.cls(REDUCE + ":_Reducer")
    fn = cls.methods.get("fit")
    if fn is None:
        raise AnalysisError("anchor missing: _Reducer.fit")
    for vname, attr in (("check_step_length", "step_length"), ("check_window_length", "window_length")):
        ok = flow.must_call(fn, name_pred(vname), cls.module, cls, cls)
        subj = [c for c in astq.calls(fn) if astq.call_name(c) == vname]
        good = bool(ok) and bool(subj) and all(c.args and dotted(c.args[0]) == "self." + attr for c in subj)
        ctx.check(good, "R1", "_Reducer.fit:%s" % vname, "%s(self.%s) on every path of fit" % (vname, attr),
                  "_Reducer.fit can complete without %s(self.%s): a zero / negative / fractional `%s` is accepted and the forecaster "
                  "becomes fitted" % (vname, attr, attr), ctx.loc(cls.module, fn), witness={attr: 0})


def helper_rejects_in_sample(repo, module, fn):
    """``fn`` hands the relative branch to a module-level helper: True when that helper is called exactly on the relative
    branch and raises whenever the horizon is not all out-of-sample; False when such a helper exists but does not; None
    when no helper call on the relative branch is found."""
    from itertools import product
    def is_helper_call(st):
        if isinstance(st, (ast.If, ast.For, ast.While, ast.With, ast.Try)):
            return False
        for c in astq.calls(st):
            if isinstance(c.func, ast.Name):
                sym = repo.resolve_name(module, c.func.id)
                if sym is not None and sym.kind == "func" and sym.module is module and any("is_all_out_of_sample" in ast.unparse(x) for x in ast.walk(sym.target)):
                    return True
        return False
    pc = PathConditions(fn, Atomizer(), mark=is_helper_call)
    for st, cond in pc.marked:
        ats = sorted(atoms_of(cond))
        rel = [a for a in ats if a.endswith(".is_relative")]
        if len(rel) != 1 or len(ats) > 8:
            continue
        others = [a for a in ats if a not in rel]
        on_rel = all(evaluate(cond, dict(zip(others, v), **{rel[0]: True})) for v in product((False, True), repeat=len(others)))
        off_abs = all(not evaluate(cond, dict(zip(others, v), **{rel[0]: False})) for v in product((False, True), repeat=len(others)))
        if not (on_rel and off_abs):
            continue
        for c in astq.calls(st):
            if isinstance(c.func, ast.Name):
                sym = repo.resolve_name(module, c.func.id)
                if sym is None or sym.kind != "func":
                    continue
                hp = PathConditions(sym.target, Atomizer())
                hats = sorted(atoms_of(hp.raises))
                oos = [a for a in hats if "is_all_out_of_sample" in a]
                if len(oos) != 1 or len(hats) > 8:
                    return False
                oth = [a for a in hats if a not in oos]
                return all(evaluate(hp.raises, dict(zip(oth, v), **{oos[0]: False})) for v in product((False, True), repeat=len(oth)))
    return None


def run_all(ctx, repo):
    from . import _c20_oracle
    _c20_oracle.run_all(ctx, repo, rule="R2")
    check_fh_init(ctx, repo)
    check_names_callers(ctx, repo)
    check_names(ctx, repo)
    check_forecasters(ctx, repo)
    check_steps(ctx, repo)
    check_sp_list(ctx, repo)
    check_defaults(ctx, repo)
    check_y_constant(ctx, repo)
    check_series_spec(ctx, repo)
    check_equal_index_spec(ctx, repo)
    check_wrappers(ctx, repo)
    check_initial_window_settings(ctx, repo)
    check_naive_settings(ctx, repo)
    check_reduce_guard(ctx, repo)
    check_data_binding(ctx, repo)
    from ..flow import Flow
    check_reducer_settings(ctx, repo, Flow(repo))
