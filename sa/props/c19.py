"""C19 -- benchmark orchestration: skip logic, guarded stores, key agreement, fresh clone, registry.

Rules (DESIGN 3/C19): R1 skip == nothing to write (truth table), R2 every store guarded by its own existence
check, R3 key agreement save/check/load, R4 fresh clone per fold / full product / provenance of stored records /
call arities, R5 registry updated on every loop path, master file saved, no deletion.
"""
import ast

from ..cfg import CFG, rejecting_guards
from ..flow import Flow, name_pred
from ..index import AnalysisError, Module, dotted
from .. import astq
from . import _c19_prop as P
from . import _c19_symenv as S

ORCH = "sktime/benchmarking/orchestration.py"
RESULTS = "sktime/benchmarking/results.py"
BASE = "sktime/benchmarking/base.py"
STRAT = "sktime/benchmarking/strategies.py"

# API parameter names of the results protocol -> role in the record key
ROLE_OF_PARAM = {"strategy_name": "S", "dataset_name": "D", "cv_fold": "F", "train_or_test": "P"}
ROLES = ("S", "D", "F", "P")
ROLE_TEXT = {"S": "strategy name", "D": "dataset name", "F": "cv fold", "P": "train/test part"}
FAMILIES = {
    "predictions": ("save_predictions", "check_predictions_exist", "load_predictions"),
    "fitted": ("save_fitted_strategy", "check_fitted_strategy_exists", "load_fitted_strategy"),
}
DELETERS = {"os.remove", "os.unlink", "os.rmdir", "os.removedirs", "shutil.rmtree", "shutil.move", "os.rename",
            "os.replace", "os.truncate", "send2trash.send2trash"}
DELETER_METHODS = {"unlink", "rmdir", "rmtree"}
LOSSY_STR_METHODS = {"replace", "lower", "upper", "casefold", "title", "capitalize", "swapcase", "strip", "lstrip", "rstrip", "split",
                     "rsplit", "partition", "rpartition", "translate", "encode", "zfill", "expandtabs", "center", "ljust", "rjust"}


# ------------------------------------------------------------------------------------------ small helpers
def self_call(call, attr=None):
    """``self.<attr>(...)``"""
    f = call.func
    return (isinstance(f, ast.Attribute) and isinstance(f.value, ast.Name) and f.value.id == "self"
            and (attr is None or f.attr == attr))


def strip_wrappers(e):
    """np.asarray(x) / x.values / str(x) -> x (value-preserving views for the purpose of provenance)."""
    while True:
        if isinstance(e, ast.Call) and dotted(e.func) in ("np.asarray", "numpy.asarray", "np.array", "str") \
                and len(e.args) == 1 and not e.keywords:
            e = e.args[0]
        elif isinstance(e, ast.Attribute) and e.attr == "values":
            e = e.value
        else:
            return e


def contains_call_to(e, pred):
    return any(isinstance(n, ast.Call) and pred(n) for n in ast.walk(e))


class KeyTemplate:
    """How one results method builds the storage key: roles -> source expression (method terms), affixes."""

    def __init__(self, call, keyfn, roles, prefix, suffix):
        self.call, self.keyfn, self.roles, self.prefix, self.suffix = call, keyfn, roles, prefix, suffix


class Undecided(Exception):
    pass


def affixes(fn, node, pm, depth=0, repo=None, cls=None):
    """Set of (prefix, suffix, sink) around ``node``: the constant strings concatenated to it before it reaches a
    sink; ``sink`` is "return" when the resulting value is what the function returns, else "use"."""
    pre, suf = "", ""
    while True:
        p = pm.get(id(node))
        if isinstance(p, ast.BinOp) and isinstance(p.op, ast.Add):
            other = p.right if p.left is node else p.left
            if not (isinstance(other, ast.Constant) and isinstance(other.value, str)):
                raise Undecided("key concatenated with a non-constant: %s" % astq.canon(other))
            if p.left is node:
                suf = suf + other.value
            else:
                pre = other.value + pre
            node = p
            continue
        if isinstance(p, ast.FormattedValue) and p.format_spec is None and p.conversion in (-1, 115):
            js = pm.get(id(p))
            i = [k for k, v in enumerate(js.values) if v is p][0]
            before, after = js.values[:i], js.values[i + 1:]
            if not all(isinstance(v, ast.Constant) and isinstance(v.value, str) for v in before + after):
                raise Undecided("key formatted together with non-constant parts")
            pre = "".join(v.value for v in before) + pre
            suf = suf + "".join(v.value for v in after)
            node = js
            continue
        if isinstance(p, ast.Call) and isinstance(p.func, ast.Name) and p.func.id == "str" and p.args == [node]:
            node = p
            continue
        if isinstance(p, ast.Assign) and p.value is node and len(p.targets) == 1 and isinstance(p.targets[0], ast.Name):
            v = p.targets[0].id
            stores = [n for n in astq.walk_no_nested(fn) if isinstance(n, ast.Name) and n.id == v
                      and isinstance(n.ctx, ast.Store)]
            if len(stores) != 1 or depth > 4:
                raise Undecided("key variable %s assigned more than once" % v)
            uses = [n for n in astq.walk_no_nested(fn) if isinstance(n, ast.Name) and n.id == v
                    and isinstance(n.ctx, ast.Load)]
            out = set()
            for u in uses:
                for a, b, k in affixes(fn, u, pm, depth + 1, repo, cls):
                    out.add((a + pre, suf + b, k))
            return out or {(pre, suf, "use")}
        if isinstance(p, ast.Call) and self_call(p) and repo is not None and p.func.attr not in PROTOCOL and depth <= 4 \
                and (node in p.args or any(k.value is node for k in p.keywords)):
            # the key is handed to a repo-local helper: follow it when the helper returns its argument with affixes
            h = repo.lookup_method(cls, p.func.attr)
            b = astq.bind_call(h[1], p, skip_self=True) if h else None
            pname = [k for k, v in (b or {}).items() if v is node]
            if h and h[1] is not fn and len(pname) == 1 and not astq.assigned_in(h[1], pname[0]):
                hfn = h[1]
                hpm = S.parent_map(hfn)
                inner = set()
                for u in astq.walk_no_nested(hfn):
                    if isinstance(u, ast.Name) and u.id == pname[0] and isinstance(u.ctx, ast.Load):
                        inner |= {x for x in affixes(hfn, u, hpm, depth + 1, repo, cls) if x[2] == "return"}
                if len(inner) == 1:
                    (hp, hs, _), = inner
                    pre, suf = hp + pre, suf + hs
                    node = p
                    continue
        return {(pre, suf, "return" if isinstance(p, ast.Return) else "use")}


PROTOCOL = {"save_predictions", "check_predictions_exist", "load_predictions", "save_fitted_strategy",
            "check_fitted_strategy_exists", "load_fitted_strategy", "_append_key", "_iter", "save", "_generate_key"}
MAX_HELPER_DEPTH = 3


def _bind_roles(keyfn, call, env, who):
    b = astq.bind_call(keyfn, call, skip_self=True)
    if b is None or any(k in b for k in ("*", "**", "!unknown", "*extra", "**extra")):
        raise Undecided("%s: _generate_key call cannot be bound" % who)
    roles = {}
    for pname in astq.param_names(keyfn, skip_self=True):
        role = ROLE_OF_PARAM.get(pname)
        if role is None:
            raise Undecided("_generate_key parameter %r has no known role" % pname)
        if pname not in b:
            raise Undecided("%s: _generate_key called without %s" % (who, pname))
        roles[role] = S.subst(b[pname], env)
    return roles


def key_templates(repo, cls, fn, depth=0, returned_only=False):
    """KeyTemplates of method ``fn`` analysed for class ``cls``: one per place where a storage key is built, either by
    ``self._generate_key(...)`` directly or through a repo-local helper method ``self.<helper>(...)`` that returns
    such a key (helpers are inlined with their parameters bound to the actual arguments, up to MAX_HELPER_DEPTH levels;
    affixes added inside the helper and around the helper call are composed).  ``returned_only``: only the keys that
    flow into the function's return value (what a caller of a helper receives)."""
    hit = repo.lookup_method(cls, "_generate_key")
    if hit is None:
        raise AnalysisError("no _generate_key for %s" % cls.name)
    keyfn = hit[1]
    pm = S.parent_map(fn)
    who = "%s.%s" % (cls.name, fn.name)
    out = []
    for c in astq.calls(fn):
        if not self_call(c):
            continue
        m = c.func.attr
        if m == "_generate_key":
            roles = _bind_roles(keyfn, c, S.env_at(fn, c), who)
            inner = [("", "", keyfn)]
        elif m not in PROTOCOL and depth < MAX_HELPER_DEPTH:
            h = repo.lookup_method(cls, m)
            if h is None or h[1] is fn:
                continue
            hcls, hfn = h
            sub = key_templates(repo, cls, hfn, depth + 1, returned_only=True)
            if not sub:
                continue
            if len(sub) != 1:
                raise Undecided("%s: helper %s returns %d different keys" % (who, m, len(sub)))
            t = sub[0]
            b = astq.bind_call(hfn, c, skip_self=True)
            if b is None or any(k in b for k in ("*", "**", "!unknown", "*extra", "**extra")):
                raise Undecided("%s: call of helper %s cannot be bound" % (who, m))
            env = S.env_at(fn, c)
            henv = {pn: S.subst(v, env) for pn, v in b.items() if isinstance(v, ast.AST)}
            for pn, dv in astq.param_defaults(hfn).items():
                henv.setdefault(pn, dv)
            hparams = set(astq.all_param_names(hfn, skip_self=True))
            roles = {}
            for role, e in t.roles.items():
                free = {n.id for n in ast.walk(e) if isinstance(n, ast.Name) and n.id in hparams}
                if not free <= set(henv):
                    raise Undecided("%s: helper %s called without %s" % (who, m, ", ".join(sorted(free - set(henv)))))
                roles[role] = S.subst(e, henv)
            inner = [(t.prefix, t.suffix, t.keyfn)]
        else:
            continue
        afx = affixes(fn, c, pm, 0, repo, cls)
        if returned_only:
            afx = {a for a in afx if a[2] == "return"}
            if not afx:
                continue
        shapes = {(a[0], a[1]) for a in afx}
        if len(shapes) != 1:
            raise Undecided("%s: key used with different affixes %s" % (who, sorted(shapes)))
        (pre, suf), = shapes
        ipre, isuf, kf = inner[0]
        out.append(KeyTemplate(c, kf, roles, pre + ipre, isuf + suf))
    return out


def mentions_key(repo, cls, fn, expr):
    """Does ``expr`` (already rewritten by the symbolic environment of ``fn``) contain one of the key-building
    calls of ``fn`` (direct or through a helper)?"""
    try:
        tpls = key_templates(repo, cls, fn)
    except Undecided:
        return False
    want = {astq.canon(S.resolve_at(fn, t.call, t.call)) for t in tpls}
    return any(isinstance(n, ast.Call) and astq.canon(n) in want for n in ast.walk(expr))


def registry_roles(repo):
    """Positions of BaseResults._iter()'s yielded tuple -> role, derived from _append_key / _iter themselves."""
    base = repo.cls(BASE + ":BaseResults")
    ak = repo.func(BASE, "BaseResults._append_key")
    attr_role = {}
    for c in astq.calls(ak):
        f = c.func
        if isinstance(f, ast.Attribute) and f.attr == "append" and astq.is_self_attr(f.value) and len(c.args) == 1 \
                and isinstance(c.args[0], ast.Name):
            role = ROLE_OF_PARAM.get(c.args[0].id)
            if role:
                attr_role[f.value.attr] = role
    it = repo.func(BASE, "BaseResults._iter")
    ys = [n for n in astq.walk_no_nested(it) if isinstance(n, ast.Yield)]
    pos = {}
    if len(ys) == 1 and isinstance(ys[0].value, ast.Tuple):
        for i, e in enumerate(ys[0].value.elts):
            r = S.resolve_at(it, e, ys[0])
            if isinstance(r, ast.Call) and S.is_marker(r, S.ITER) and astq.is_self_attr(r.args[0]):
                pos[i] = attr_role.get(r.args[0].attr)
    return base, attr_role, pos


def classify_source(expr, fn, reg_pos):
    """Role of the value ``expr`` (method terms, substituted): ('role', R, how) | ('const', v) | ('unknown', text)."""
    e = strip_wrappers(expr) if isinstance(expr, ast.Call) and dotted(expr.func) == "str" else expr
    params = astq.param_names(fn, skip_self=True)
    if isinstance(e, ast.Constant):
        return ("const", e.value)
    if isinstance(e, ast.Name) and e.id in params:
        if e.id in ROLE_OF_PARAM:
            return ("role", ROLE_OF_PARAM[e.id], "parameter " + e.id)
        return ("unknown", "parameter %s" % e.id)
    if isinstance(e, ast.Attribute) and e.attr == "name" and isinstance(e.value, ast.Name) and e.value.id == "strategy" \
            and "strategy" in params:
        return ("role", "S", "strategy.name")
    if isinstance(e, ast.Subscript) and S.is_marker(e.value, S.ITER) and isinstance(e.slice, ast.Constant):
        src = e.value.args[0]
        if isinstance(src, ast.Call) and self_call(src, "_iter"):
            r = reg_pos.get(e.slice.value)
            if r:
                return ("role", r, "registry entry %d" % e.slice.value)
    return ("unknown", astq.canon(e))


def simulate(cfg, starts, stop_ids, truth):
    """Nodes executed from ``starts`` when every ``if`` test takes the branch ``truth(node)`` (None = both)."""
    seen, order, stack = set(), [], list(starts)
    while stack:
        n = stack.pop()
        if n.id in seen or n.id in stop_ids:
            continue
        seen.add(n.id)
        order.append(n)
        if n.kind == "test" and isinstance(n.stmt, ast.If):
            v = truth(n)
            for s, lab in n.succ:
                if lab == "exc":
                    continue
                if v is None or lab == v:
                    stack.append(s)
        else:
            for s, lab in n.succ:
                if lab != "exc":
                    stack.append(s)
    return seen, order


# ------------------------------------------------------------------------------------------------ R3
def returns_atom(fn, atom_pred):
    """Does ``fn`` return exactly the truth value of its single call satisfying ``atom_pred``?
    True / False / None (not interpretable).  Decided by simulating the CFG under both values."""
    atom_calls = [c for c in astq.calls(fn) if atom_pred(c)]
    if len(atom_calls) != 1:
        return None
    the = atom_calls[0]

    def atom_of(e):
        if e is the:
            return P.Atom("probe")
        if isinstance(e, ast.Name):
            vals = astq.assigned_values(fn, e.id)
            stores = [n for n in astq.walk_no_nested(fn) if isinstance(n, ast.Name) and n.id == e.id and isinstance(n.ctx, ast.Store)]
            if len(vals) == 1 and len(stores) == 1:
                return P.from_ast(vals[0], atom_of)
        return None

    g = CFG(fn)
    for val in (True, False):
        sigma = {"probe": val}
        bad = []

        def truth(n):
            f = P.from_ast(n.stmt.test, atom_of)
            if any(k != "probe" for k in P.atoms(f)):
                bad.append(n)
                return None
            return P.evaluate(f, sigma)

        seen, order = simulate(g, [g.entry], set(), truth)
        if bad:
            return None
        rets = [n for n in order if n.kind == "return"]
        if g.exit.id in seen and any(g.exit in [s for s, _ in n.succ] and n.kind != "return" for n in order):
            return None  # falls off the end
        if not rets:
            return None
        for r in rets:
            if r.stmt.value is None:
                return None
            f = P.from_ast(r.stmt.value, atom_of)
            if any(k != "probe" for k in P.atoms(f)):
                return None
            if P.evaluate(f, sigma) != val:
                return False
    return True


def is_isfile(repo, module):
    def pred(c):
        sym = repo.resolve_expr(module, c.func)
        return sym is not None and sym.dotted in ("os.path.isfile", "os.path.exists")
    return pred


def rule_R3(ctx, repo):
    record_roundtrip(ctx, repo)
    soft = _SoftCtx(ctx, repo)
    base, attr_role, reg_pos = registry_roles(repo)
    ctx.check(attr_role.get("strategy_names") == "S" and attr_role.get("dataset_names") == "D"
              and reg_pos == {0: "S", 1: "D"} if attr_role and reg_pos else None,
              "R3", "BaseResults:registry-roles",
              "_append_key(strategy, dataset) fills the lists that _iter() yields as (strategy, dataset)",
              "registry lists and _iter() order disagree: _append_key fills %s, _iter yields %s" % (attr_role, reg_pos),
              ctx.loc(base.module, base.node))
    templates = {}
    for cname in ("HDDResults", "RAMResults"):
        cls = repo.cls(RESULTS + ":" + cname)
        mod = cls.module
        hit = repo.lookup_method(cls, "_generate_key")
        if hit is None:
            ctx.undecided("R3", cname + "._generate_key", "key function missing", ctx.loc(mod, cls.node))
            continue
        kcls, keyfn = hit
        # the key depends on every component of (strategy, dataset, fold, part)
        rets = astq.returns(keyfn)
        for pname in astq.param_names(keyfn, skip_self=True):
            role = ROLE_OF_PARAM.get(pname)
            c = "%s._generate_key:uses:%s" % (cname, role or pname)
            if role is None or not rets:
                ctx.undecided("R3", c, "unknown key parameter %r / no return" % pname, ctx.loc(kcls.module, keyfn))
                continue
            used = all(r.value is not None and any(isinstance(n, ast.Name) and n.id == pname
                                                  for n in ast.walk(S.resolve_at(keyfn, r.value, r))) for r in rets)
            ctx.check(used, "R3", c, "key depends on the %s" % ROLE_TEXT[role],
                      "the key does not depend on the %s: records that differ only in it collide" % ROLE_TEXT[role],
                      ctx.loc(kcls.module, keyfn))
            if used:
                faithful, lossy, unknown = 0, [], []
                for r in rets:
                    rv = S.resolve_at(keyfn, r.value, r)
                    pm = S.parent_map(rv)
                    for n in ast.walk(rv):
                        if not (isinstance(n, ast.Name) and n.id == pname):
                            continue
                        par = pm.get(id(n))
                        if isinstance(par, ast.Attribute):
                            (lossy if par.attr in LOSSY_STR_METHODS else unknown).append("%s.%s(...)" % (pname, par.attr))
                        elif isinstance(par, ast.Subscript) and par.value is n:
                            lossy.append("%s[...]" % pname)
                        elif isinstance(par, ast.Call) and n in par.args:
                            d = dotted(par.func)
                            sym = repo.resolve_expr(kcls.module, par.func) if d else None
                            full = sym.dotted if sym is not None else d
                            if full in ("os.path.join", "posixpath.join", "str", "builtins.str", "pathlib.Path", "os.fspath") or d == "str":
                                faithful += 1
                            elif full in ("os.path.basename", "os.path.dirname", "os.path.normpath", "hash", "len", "os.path.splitext"):
                                lossy.append("%s(%s)" % (full, pname))
                            else:
                                unknown.append("%s(%s)" % (full, pname))
                        else:
                            faithful += 1
                cc = "%s._generate_key:faithful:%s" % (cname, role)
                if faithful:
                    ctx.ok("R3", cc, "the %s enters the key unchanged" % ROLE_TEXT[role], ctx.loc(kcls.module, keyfn))
                elif lossy:
                    ctx.violation("R3", cc, "the %s enters the key only through %s, which maps different names to the same text: the "
                                  "records of two %ss collide (one is taken for the other's, or overwrites it)"
                                  % (ROLE_TEXT[role], ", ".join(sorted(set(lossy))), ROLE_TEXT[role].split()[0].replace("strategy", "strategie")), ctx.loc(kcls.module, keyfn))
                else:
                    ctx.undecided("R3", cc, "the %s enters the key through %s" % (ROLE_TEXT[role], ", ".join(sorted(set(unknown)))),
                                  ctx.loc(kcls.module, keyfn))
        for fam, members in FAMILIES.items():
            tpls = {}
            unread = set()
            for m in members:
                h = repo.lookup_method(cls, m)
                if h is None:
                    ctx.undecided("R3", "%s.%s" % (cname, m), "method missing", ctx.loc(mod, cls.node))
                    continue
                dcls, fn = h
                try:
                    t = key_templates(repo, cls, fn)
                except Undecided as e:
                    soft.undecided("R3", "%s.%s:key" % (cname, m), str(e), ctx.loc(dcls.module, fn))
                    unread.add(m)
                    continue
                if len(t) > 1:
                    ctx.undecided("R3", "%s.%s:key" % (cname, m), "builds %d keys" % len(t), ctx.loc(dcls.module, fn))
                    continue
                if t:
                    tpls[m] = (t[0], dcls, fn)
            templates[(cname, fam)] = tpls
            if cname == "RAMResults" and not tpls:
                continue  # in-memory store does not implement this family (raises / constant False)
            need = members if cname == "HDDResults" else tuple(m for m in members if m in tpls)
            for m in need:
                c = "%s.%s:key" % (cname, m)
                if m in unread:
                    continue
                if m not in tpls:
                    h = repo.lookup_method(cls, m)
                    if soft._decided(c):
                        ctx.info("%s builds its location through other code than a direct key template (judged by the interpreted round trip)" % c)
                        continue
                    ctx.violation("R3", c, "%s does not build its location with _generate_key, the other members of the "
                                  "%s family do" % (m, fam), ctx.loc(h[0].module, h[1]) if h else None)
                    continue
                t, dcls, fn = tpls[m]
                loc = ctx.loc(dcls.module, t.call)
                for role in ROLES:
                    src = classify_source(t.roles[role], fn, reg_pos)
                    cc = "%s:%s" % (c, role)
                    if src[0] == "role":
                        ctx.check(src[1] == role, "R3", cc, "%s <- %s" % (ROLE_TEXT[role], src[2]),
                                  "the %s component of the key receives the %s (%s)" % (ROLE_TEXT[role], ROLE_TEXT[src[1]], src[2]), loc)
                    elif src[0] == "const" and role == "P":
                        ctx.ok("R3", cc, "part fixed to %r" % (src[1],), loc)
                    elif src[0] == "const":
                        ctx.violation("R3", cc, "the %s component of the key is the constant %r" % (ROLE_TEXT[role], src[1]), loc)
                    else:
                        ctx.undecided("R3", cc, "source of the %s component not recognised: %s" % (ROLE_TEXT[role], src[1]), loc)
            # agreement of affixes and of a constant part inside the family (reference = the save member)
            ref = members[0]
            if ref in tpls:
                rt = tpls[ref][0]
                rp = classify_source(rt.roles["P"], tpls[ref][2], reg_pos)
                for m in need:
                    if m == ref or m not in tpls:
                        continue
                    t, dcls, fn = tpls[m]
                    loc = ctx.loc(dcls.module, t.call)
                    ctx.check((t.prefix, t.suffix) == (rt.prefix, rt.suffix), "R3", "%s.%s:suffix" % (cname, m),
                              "same affixes %r as %s" % ((t.prefix, t.suffix), ref),
                              "%s looks for %r+key+%r but %s writes %r+key+%r" % (m, t.prefix, t.suffix, ref, rt.prefix, rt.suffix), loc)
                    mp = classify_source(t.roles["P"], fn, reg_pos)
                    if rp[0] == "const" or mp[0] == "const":
                        ctx.check(rp == mp, "R3", "%s.%s:part" % (cname, m), "same fixed part %r as %s" % (mp[1], ref),
                                  "%s uses part %r but %s uses %r" % (m, mp[1], ref, rp[1]), loc)
                    ctx.check(t.keyfn is rt.keyfn, "R3", "%s.%s:keyfn" % (cname, m), "same key function as " + ref,
                              "different key function than " + ref, loc)
        # existence checks of the disk store return exactly "file at key exists"
        if cname == "HDDResults":
            for m in ("check_predictions_exist", "check_fitted_strategy_exists"):
                h = repo.lookup_method(cls, m)
                if h is None:
                    continue
                dcls, fn = h
                pred = is_isfile(repo, dcls.module)
                probes = [c for c in astq.calls(fn) if pred(c)]
                c = "%s.%s:returns-exists" % (cname, m)
                if len(probes) != 1 or len(probes[0].args) != 1:
                    soft.undecided("R3", c, "expected one os.path.isfile probe, found %d" % len(probes), ctx.loc(dcls.module, fn))
                    continue
                arg = S.resolve_at(fn, probes[0].args[0], probes[0])
                on_key = mentions_key(repo, cls, fn, arg)
                r = returns_atom(fn, lambda k: k is probes[0])
                if not on_key:
                    soft.undecided("R3", c, "the probed path is not the generated key: %s" % astq.canon(arg), ctx.loc(dcls.module, fn))
                else:
                    soft.check(r, "R3", c, "returns True exactly when the file at the key exists",
                              "does not return the truth value of the existence probe (inverted or constant)", ctx.loc(dcls.module, fn))
    rule_R3_fields(soft, repo, reg_pos)
    return templates


def wrapper_calls(repo, module, fn):
    out = []
    for c in astq.calls(fn):
        sym = repo.resolve_expr(module, c.func)
        if sym is not None and sym.kind == "class" and sym.target.name == "_PredictionsWrapper":
            out.append((c, sym.target))
    return out


_ROUNDTRIP = {}


class _SoftCtx:
    """Context wrapper for the syntactic record-field rules: when the interpreted round trip of a results class was decided,
    an unfamiliar code shape in that class is not an UNDECIDED of the property (the semantic rule already judged it)."""

    def __init__(self, ctx, repo):
        self._ctx, self._repo = ctx, repo

    def __getattr__(self, name):
        return getattr(self._ctx, name)

    def _decided(self, construct):
        cname = construct.split(".")[0].split(":")[0]
        return _ROUNDTRIP.get((id(self._repo), cname), False)

    def undecided(self, rule, construct, why, loc=None):
        if self._decided(construct):
            self._ctx.info("not compared syntactically (%s): %s" % (construct, why))
            return
        self._ctx.undecided(rule, construct, why, loc)

    def check(self, cond, rule, construct, ok_detail, bad_detail, loc=None, witness=None):
        if cond is None and self._decided(construct):
            self._ctx.info("not compared syntactically (%s): %s" % (construct, bad_detail))
            return None
        return self._ctx.check(cond, rule, construct, ok_detail, bad_detail, loc, witness)


def record_roundtrip(ctx, repo):
    """R3 by interpretation: two records (train and test part of one fold, different contents) are stored through the
    interpreted ``save_predictions`` and read back through the interpreted ``load_predictions`` of each results class;
    every field of what is read back must be what was stored under that (strategy, dataset, fold, part).
    Sets _ROUNDTRIP[class] = True when the round trip was decided (the syntactic field rules then only add detail)."""
    from ._c18_mini import Interp, PyRaise, Undecided as U
    from . import _c18_models as M
    wcls = repo.cls(BASE + ":_PredictionsWrapper")
    winit = wcls.methods.get("__init__")
    fields = astq.param_names(winit, skip_self=True) if winit else []
    key = id(repo)
    for cname in ("HDDResults", "RAMResults"):
        cls = repo.cls(RESULTS + ":" + cname)
        _ROUNDTRIP[(key, cname)] = False
        tag = "%s:record-roundtrip" % cname
        loc = ctx.loc(cls.module, cls.node)
        vfs = M.VFS()
        ext = dict(M.make_externals(vfs))
        made = []

        def _wrapper(interp, args, kwargs, node, made=made):
            inst = _Instance(repo, wcls, {})
            interp.call_function(wcls.module, winit, [inst] + list(args), kwargs, 1)
            made.append(inst)
            return inst

        ext["sktime.benchmarking.base._PredictionsWrapper"] = _wrapper
        ext["os.path.exists"] = lambda i, a, k, n: True
        it = Interp(repo, ext, M.to_float, M.str_hook)
        it.vfs = vfs
        me = _Instance(repo, cls, {"_path": "/res", "strategy_names": [], "dataset_names": [], "cv": None, "results": {}})

        def rec(part):
            n = 3 if part == "train" else 2
            d = {"strategy_name": "«s»", "dataset_name": "«d»", "cv_fold": 0, "train_or_test": part,
                 "index": M.ArrV([M.Num("%s_i%d" % (part, k)) for k in range(n)]),
                 "y_true": M.ArrV([M.Num("%s_t%d" % (part, k)) for k in range(n)]),
                 "y_pred": M.ArrV([M.Num("%s_p%d" % (part, k)) for k in range(n)]),
                 "y_proba": M.ArrV([M.Num("%s_q%d" % (part, k)) for k in range(n)])}
            for t in ("fit_estimator_start_time", "fit_estimator_end_time", "predict_estimator_start_time", "predict_estimator_end_time"):
                d[t] = "«%s_%s»" % (part, t)
            return d

        def norm(v):
            if isinstance(v, (M.ArrV, M.SeriesV)):
                return [norm(x) for x in v.data]
            if isinstance(v, list):
                return [norm(x) for x in v]
            if isinstance(v, M.Num):
                return v.name
            if M.is_tok(v):
                return v[1:-1]
            return v

        ext["os.path.isfile"] = lambda i, a, k, n: isinstance(a[0], str) and a[0] in vfs.files
        saved_objects = {}
        ext["joblib.load"] = lambda i, a, k, n: saved_objects.get(a[0])

        class _Strat:
            def __init__(self, name):
                self.name = name

            def m_getattr(self, interp, attr):
                if attr == "name":
                    return self.name
                if attr == "save":
                    return M.BoundExt(self, "save")
                raise U("strategy.%s" % attr)

            def m_method(self, interp, name, args, kwargs, node):
                path = args[0] if args else kwargs.get("path")
                vfs.files[path] = "<pickle of %s>" % self.name
                saved_objects[path] = self

        def exists(kind, sname="«s»", dname="«d»", fold=0, part="train"):
            if kind == "pred":
                h = repo.lookup_method(cls, "check_predictions_exist")
                return it.call_function(h[0].module, h[1], [me], {"strategy_name": sname, "dataset_name": dname, "cv_fold": fold, "train_or_test": part})
            h = repo.lookup_method(cls, "check_fitted_strategy_exists")
            return it.call_function(h[0].module, h[1], [me], {"strategy_name": sname, "dataset_name": dname, "cv_fold": fold})

        try:
            save = repo.lookup_method(cls, "save_predictions")
            load = repo.lookup_method(cls, "load_predictions")
            stored = {}
            if cname == "HDDResults":
                # the existence checks answer exactly for the records that were stored
                obs = {"before": exists("pred", part="train")}
                it.call_function(save[0].module, save[1], [me], dict(rec("train")))
                obs.update({"own": exists("pred", part="train"), "other part": exists("pred", part="test"),
                            "other fold": exists("pred", fold=1, part="train"), "other data set": exists("pred", dname="«d2»", part="train"),
                            "other strategy": exists("pred", sname="«s2»", part="train")})
                sf = repo.lookup_method(cls, "save_fitted_strategy")
                obs["fitted before"] = exists("fit")
                it.call_function(sf[0].module, sf[1], [me], {"strategy": _Strat("«s»"), "dataset_name": "«d»", "cv_fold": 0})
                obs.update({"fitted own": exists("fit"), "fitted other fold": exists("fit", fold=1), "fitted other data set": exists("fit", dname="«d2»")})
                want_true = {"own", "fitted own"}
                for k, v in obs.items():
                    ctx.check(bool(v) == (k in want_true) and isinstance(v, bool), "R3", "%s:exists[%s]" % (tag, k),
                              "existence check answers %s" % (k in want_true),
                              "after storing the train predictions and the fitted strategy of («s», «d», fold 0) the existence check for "
                              "[%s] answers %r, expected %r" % (k, v, k in want_true), loc)
                lf = repo.lookup_method(cls, "load_fitted_strategy")
                me.attrs["strategy_names"], me.attrs["dataset_names"] = ["«s»"], ["«d»"]
                got_s = it.call_function(lf[0].module, lf[1], [me], {"strategy_name": "«s»", "dataset_name": "«d»", "cv_fold": 0})
                ctx.check(isinstance(got_s, _Strat) and got_s.name == "«s»", "R3", tag + ":fitted-loaded", "load_fitted_strategy returns the saved strategy",
                          "load_fitted_strategy returns %r, not the strategy that was saved" % (got_s,), loc)
            for part in ("train", "test"):
                r = rec(part)
                stored[part] = r
                it.call_function(save[0].module, save[1], [me], dict(r))
            got = {}
            for part in ("train", "test"):
                out = it.call_function(load[0].module, load[1], [me], {"cv_fold": 0, "train_or_test": part})
                got[part] = out
        except U as e:
            ctx.info("%s not interpretable: %s" % (tag, e))
            continue
        except PyRaise as e:
            ctx.violation("R3", tag, "storing two records and reading them back raises %s" % (e.exc,), loc)
            _ROUNDTRIP[(key, cname)] = True
            continue
        _ROUNDTRIP[(key, cname)] = True
        for part in ("train", "test"):
            out = got[part]
            if not (isinstance(out, list) and len(out) == 1 and isinstance(out[0], _Instance)):
                ctx.violation("R3", "%s[%s]:count" % (tag, part), "after one (strategy, data set) was stored, load_predictions yields %s record(s) for the "
                              "%s part, expected exactly one" % (len(out) if isinstance(out, list) else "?", part), loc)
                continue
            w = out[0].attrs
            for f in fields:
                if f == "y_proba" and cname == "HDDResults":
                    continue  # the disk store does not persist probabilities (documented TODO in the code)
                want = norm(stored[part].get(f))
                have = norm(w.get(f))
                c = "%s[%s]:%s" % (tag, part, f)
                if have == want:
                    ctx.ok("R3", c, "read back what was stored", loc)
                else:
                    other = [p2 for p2 in stored for f2 in fields if norm(stored[p2].get(f2)) == have and have is not None]
                    ctx.violation("R3", c, "stored %s = %s for (s, d, fold 0, %s) but load_predictions returns %s%s" % (
                        f, want, part, have, " (that is what was stored for the %s part / another field)" % other[0] if other else ""), loc)


def memo_lookup(e):
    """``self.C.setdefault(K, V)`` / ``self.C.get(K, V)`` -> (container, K, V)"""
    if isinstance(e, ast.Call) and isinstance(e.func, ast.Attribute) and e.func.attr in ("setdefault", "get") \
            and astq.is_self_attr(e.func.value) and len(e.args) == 2:
        return e.func.value, e.args[0], e.args[1]
    return None


_FIELD_DEPS = {}


def field_dependencies(repo):
    """record field -> key roles its value varies with, read off the arguments Orchestrator.fit_predict passes to
    save_predictions (provenance over the components yielded by _iter)."""
    key = "deps"
    _FIELD_DEPS = repo.__dict__.setdefault("_c19_field_deps", {})  # per Repo object (ids of collected repos are reused)
    if key in _FIELD_DEPS:
        return _FIELD_DEPS[key]
    from ..report import Ctx
    out = {}
    try:
        roles = analyse_iter(Ctx("C19", repo), repo)
        if roles is not None:
            cons = Consumer(repo, repo.cls(ORCH + ":Orchestrator"), "fit_predict", roles)
            role_of = {"R_strategy": {"S"}, "R_dataset": {"D"}, "R_data": {"D"}, "R_task": {"D"}, "R_fold": {"F"},
                       "R_train_idx": {"D", "F", "P"}, "R_test_idx": {"D", "F", "P"}}
            for call, m in cons.results_calls():
                if m != "save_predictions":
                    continue
                h = repo.lookup_method(cons.hdd, m)
                b = astq.bind_call(h[1], call, skip_self=True) if h else None
                for f, v in (b or {}).items():
                    if isinstance(v, ast.AST):
                        names = {n.id for n in ast.walk(cons.sub(v, call)) if isinstance(n, ast.Name) and n.id in role_of}
                        d = set()
                        for n in names:
                            d |= role_of[n]
                        out[f] = out.get(f, set()) | d
    except (AnalysisError, ValueError):
        out = {}
    _FIELD_DEPS[key] = out
    return out


def rule_R3_fields(ctx, repo, reg_pos):
    """Record fields: what is stored under a name is what is read back under that name."""
    wcls = repo.cls(BASE + ":_PredictionsWrapper")
    winit = wcls.methods.get("__init__")
    if winit is None:
        ctx.undecided("R3", "_PredictionsWrapper.__init__", "constructor missing", ctx.loc(wcls.module, wcls.node))
        return
    fields = astq.param_names(winit, skip_self=True)
    stores = {a: v for a, v, _ in astq.self_attr_stores(winit)}
    for f in fields:
        v = stores.get(f)
        ctx.check(isinstance(v, ast.Name) and v.id == f and not astq.assigned_in(winit, f), "R3",
                  "_PredictionsWrapper:field:" + f, "attribute %s holds the argument %s" % (f, f),
                  "attribute %s is not the constructor argument of that name (%s)" % (f, astq.canon(v) if v is not None else "never set"),
                  ctx.loc(wcls.module, winit))
    hdd = repo.cls(RESULTS + ":HDDResults")
    ram = repo.cls(RESULTS + ":RAMResults")
    # --- disk store, save side: column name -> value
    sp = repo.lookup_method(hdd, "save_predictions")
    written = {}
    if sp:
        dcls, fn = sp
        params = astq.param_names(fn, skip_self=True)
        tocsv = [c for c in astq.calls(fn) if isinstance(c.func, ast.Attribute) and c.func.attr == "to_csv"]
        if len(tocsv) != 1:
            ctx.undecided("R3", "HDDResults.save_predictions:record", "expected one to_csv call, found %d" % len(tocsv), ctx.loc(dcls.module, fn))
        else:
            frame = S.resolve_at(fn, tocsv[0].func.value, tocsv[0])
            sym = repo.resolve_expr(dcls.module, frame.func) if isinstance(frame, ast.Call) else None
            d = frame.args[0] if isinstance(frame, ast.Call) and frame.args else None
            if sym is None or sym.dotted != "pandas.DataFrame" or not isinstance(d, ast.Dict):
                ctx.undecided("R3", "HDDResults.save_predictions:record", "stored frame is not pd.DataFrame({...}): %s" % astq.canon(frame)[:80],
                              ctx.loc(dcls.module, tocsv[0]))
            else:
                kw = {k.arg: k.value for k in tocsv[0].keywords}
                hdr = kw.get("header")
                idx = kw.get("index")
                ctx.check(None if (idx is not None and not isinstance(idx, ast.Constant)) else
                          (isinstance(idx, ast.Constant) and idx.value is False), "R3", "HDDResults.save_predictions:no-index-column",
                          "only the record's columns are written (index=False)",
                          "to_csv writes the frame's row index as an extra column (index=%s); the row index comes from the caller's data "
                          "(y_true), so a data set whose row index is named like a record column (e.g. 'index') shadows that column "
                          "when load_predictions reads by name: the stored instance index is not what is read back"
                          % ("True by default" if idx is None else astq.canon(idx)), ctx.loc(dcls.module, tocsv[0]))
                ctx.check(hdr is None or (isinstance(hdr, ast.Constant) and hdr.value is True), "R3",
                          "HDDResults.save_predictions:header", "column names are written",
                          "to_csv(header=%s): column names are not written but load_predictions reads by name" % astq.canon(hdr),
                          ctx.loc(dcls.module, tocsv[0]))
                for k, v in zip(d.keys, d.values):
                    if not (isinstance(k, ast.Constant) and isinstance(k.value, str)):
                        ctx.undecided("R3", "HDDResults.save_predictions:column", "non-constant column name", ctx.loc(dcls.module, tocsv[0]))
                        continue
                    col = k.value
                    src = strip_wrappers(v)
                    written[col] = src
                    c = "HDDResults.save_predictions:column:" + col
                    if isinstance(src, ast.Name) and src.id in params:
                        ctx.check(src.id == col, "R3", c, "column %s holds the argument %s" % (col, col),
                                  "column %r holds the argument %r" % (col, src.id), ctx.loc(dcls.module, tocsv[0]))
                    else:
                        ctx.undecided("R3", c, "column %r holds %s" % (col, astq.canon(src)[:60]), ctx.loc(dcls.module, tocsv[0]))
    # --- disk store, load side
    lp = repo.lookup_method(hdd, "load_predictions")
    if lp:
        dcls, fn = lp
        wc = wrapper_calls(repo, dcls.module, fn)
        if len(wc) != 1:
            ctx.undecided("R3", "HDDResults.load_predictions:record", "expected one _PredictionsWrapper(...) call", ctx.loc(dcls.module, fn))
        else:
            call = wc[0][0]
            b = astq.bind_call(winit, call, skip_self=True)
            if b is None or any(k in b for k in ("*", "**", "!unknown")):
                ctx.violation("R3", "HDDResults.load_predictions:record", "_PredictionsWrapper call does not match its signature", ctx.loc(dcls.module, call))
                b = {}
            env = S.env_at(fn, call)
            for f, a in b.items():
                if f not in fields:
                    continue
                e = S.subst(a, env)
                c = "HDDResults.load_predictions:field:" + f
                loc = ctx.loc(dcls.module, call)
                if f in ROLE_OF_PARAM:
                    src = classify_source(e, fn, reg_pos)
                    ctx.check((src[1] == ROLE_OF_PARAM[f]) if src[0] == "role" else None, "R3", c, "%s <- %s" % (f, src[-1]),
                              "record field %s receives the %s" % (f, src[-1]), loc)
                    continue
                m = {}
                core = strip_wrappers(e)
                if S.unify(S.pattern("H_R.loc[H_ROW, H_C]"), core, m) and isinstance(m["H_C"], ast.Constant):
                    col = m["H_C"].value
                    rd = m["H_R"]
                    sym = repo.resolve_expr(dcls.module, rd.func) if isinstance(rd, ast.Call) else None
                    if sym is None or sym.dotted != "pandas.read_csv" or not rd.args or \
                            not mentions_key(repo, hdd, fn, rd.args[0]):
                        ctx.undecided("R3", c, "field is not read from read_csv(<key>): %s" % astq.canon(rd)[:80], loc)
                    elif col not in written and written:
                        ctx.violation("R3", c, "field %s is read from column %r which save_predictions never writes" % (f, col), loc)
                    else:
                        ctx.check(col == f, "R3", c, "field %s read from the column of that name" % f,
                                  "field %s is read from column %r (stored %s is returned as %s)" % (f, col, col, f), loc)
                else:
                    ctx.undecided("R3", c, "field %s has an unrecognised source %s" % (f, astq.canon(core)[:80]), loc)
    # --- in-memory store
    rs = repo.lookup_method(ram, "save_predictions")
    if rs:
        dcls, fn = rs
        params = astq.param_names(fn, skip_self=True)
        wc = wrapper_calls(repo, dcls.module, fn)
        if len(wc) != 1:
            ctx.undecided("R3", "RAMResults.save_predictions:record", "expected one _PredictionsWrapper(...) call", ctx.loc(dcls.module, fn))
        else:
            call = wc[0][0]
            b = astq.bind_call(winit, call, skip_self=True)
            if b is None or any(k in b for k in ("*", "**", "!unknown")):
                ctx.violation("R3", "RAMResults.save_predictions:record", "_PredictionsWrapper call does not match its signature", ctx.loc(dcls.module, call))
                b = {}
            env = S.env_at(fn, call)
            for f, a in b.items():
                if f not in fields:
                    continue
                src = strip_wrappers(S.subst(a, env))
                c = "RAMResults.save_predictions:field:" + f
                memo = memo_lookup(src)
                if memo is not None:
                    # (H2) the field is read through an instance-level memo: its key must cover every component of the
                    # record key the stored value varies with (derived from what fit_predict passes in)
                    cont, key, val = memo
                    val = strip_wrappers(val)
                    deps = field_dependencies(repo).get(f)
                    kroles = set()
                    for e in (key.elts if isinstance(key, ast.Tuple) else [key]):
                        k = classify_source(e, fn, reg_pos)
                        if k[0] == "role":
                            kroles.add(k[1])
                    if not (isinstance(val, ast.Name) and val.id == f) or deps is None:
                        ctx.undecided("R3", c, "field %s <- memo %s" % (f, astq.canon(src)[:70]), ctx.loc(dcls.module, call))
                    else:
                        missing = sorted(deps - kroles)
                        ctx.check(not missing, "R3", c, "field %s memoised under a key covering %s" % (f, sorted(deps)),
                                  "field %s is taken from the instance-level memo %s keyed by (%s) only, but the value fit_predict passes "
                                  "varies with the %s: records that differ in it share whichever value was stored first (e.g. the "
                                  "train and the test record of one fold)" % (
                                      f, astq.canon(cont), ", ".join(ROLE_TEXT[r] for r in sorted(kroles)),
                                      " and ".join(ROLE_TEXT[r] for r in missing)), ctx.loc(dcls.module, call))
                    continue
                if isinstance(src, ast.Name) and src.id in params:
                    ctx.check(src.id == f, "R3", c, "field %s <- argument %s" % (f, f),
                              "record field %s receives the argument %s" % (f, src.id), ctx.loc(dcls.module, call))
                else:
                    ctx.undecided("R3", c, "field %s <- %s" % (f, astq.canon(src)[:60]), ctx.loc(dcls.module, call))
            # stored under / read from the same mapping with the generated key
            subs_store = [t for n in astq.walk_no_nested(fn) if isinstance(n, ast.Assign) for t in n.targets
                          if isinstance(t, ast.Subscript) and astq.is_self_attr(t.value)]
            rl = repo.lookup_method(ram, "load_predictions")
            if rl and len(subs_store) == 1:
                lfn = rl[1]
                loads = [n for n in astq.walk_no_nested(lfn) if isinstance(n, ast.Subscript) and astq.is_self_attr(n.value)
                         and isinstance(n.ctx, ast.Load)]
                st = subs_store[0]
                k1 = S.resolve_at(fn, st.slice, st)
                ok = None
                if len(loads) == 1:
                    k2 = S.resolve_at(lfn, loads[0].slice, loads[0])
                    ok = (loads[0].value.attr == st.value.attr and mentions_key(repo, ram, fn, k1)
                          and mentions_key(repo, ram, lfn, k2))
                ctx.check(ok, "R3", "RAMResults:mapping", "records stored in and read from self.%s[key]" % st.value.attr,
                          "save_predictions stores into self.%s but load_predictions reads elsewhere" % st.value.attr, ctx.loc(rl[0].module, lfn))


# ------------------------------------------------------------------------------- the producer: Orchestrator._iter
class RoleRename(ast.NodeTransformer):
    """ITER__(self._iter())[i] -> R_<role of position i>"""

    def __init__(self, roles):
        self.roles = roles

    def visit_Subscript(self, node):
        self.generic_visit(node)
        if S.is_marker(node.value, S.ITER) and isinstance(node.slice, ast.Constant) and node.value.args \
                and isinstance(node.value.args[0], ast.Call) and self_call(node.value.args[0], "_iter"):
            r = self.roles.get(node.slice.value)
            if r:
                return ast.Name(id="R_" + r, ctx=ast.Load())
        return node


def ctor_identity_attrs(cls):
    """attr -> ctor parameter for ``self.attr = param`` stores of __init__ (parameter not reassigned)."""
    init = cls.methods.get("__init__")
    out = {}
    if init is None:
        return out
    for a, v, _ in astq.self_attr_stores(init):
        if isinstance(v, ast.Name) and v.id in astq.param_names(init, skip_self=True) and not astq.assigned_in(init, v.id):
            out[a] = v.id
        else:
            out.pop(a, None)
    return out


def analyse_iter(ctx, repo):
    """R4 on the producer; returns {position: role} of the yielded tuple (None if not interpretable)."""
    cls = repo.cls(ORCH + ":Orchestrator")
    mod = cls.module
    fn = repo.func(ORCH, "Orchestrator._iter")
    loc = ctx.loc(mod, fn)
    # the generator may delegate its inner loops to helper generators (``yield from self._iter_folds(...)``): the loop
    # nest is flattened -- ``levels`` = [(function, environment of its parameters in terms of the outer levels, node)]
    levels = []
    cur_fn, cur_env = fn, {}
    y = None
    for _depth in range(4):
        ys = [n for n in astq.walk_no_nested(cur_fn) if isinstance(n, (ast.Yield, ast.YieldFrom))]
        if len(ys) != 1:
            break
        node = ys[0]
        if isinstance(node, ast.Yield):
            levels.append((cur_fn, cur_env, node))
            y = node
            break
        call = node.value
        h = repo.lookup_method(cls, call.func.attr) if isinstance(call, ast.Call) and self_call(call) else None
        b = astq.bind_call(h[1], call, skip_self=not h[0].is_static(call.func.attr)) if h else None
        if h is None or b is None or any(k in b for k in ("*", "**", "!unknown")):
            break
        levels.append((cur_fn, cur_env, node))
        env_here = S.env_at(cur_fn, node)
        nxt = {pn: S.subst(S.subst(v, env_here), cur_env) for pn, v in b.items() if isinstance(v, ast.AST)}
        for pn, dv in astq.param_defaults(h[1]).items():
            nxt.setdefault(pn, dv)
        cur_fn, cur_env = h[1], nxt
    if y is None or not isinstance(y.value, ast.Tuple):
        ctx.undecided("R4", "Orchestrator._iter:yield", "expected exactly one `yield (tuple)` (possibly behind `yield from self.<helper>(...)`)", loc)
        return None
    fn_y, env_y = levels[-1][0], levels[-1][1]

    def res(level_fn, level_env, expr, at):
        return S.subst(S.resolve_at(level_fn, expr, at), level_env)

    chain = []
    for lf, le, node in levels:
        ch = astq.enclosing_stmts(lf, node)
        chain.extend((st, lf, le) for st in (ch[:-1] if node is not y else ch))
    owner = {id(st): (lf, le) for st, lf, le in chain}
    chain = [st for st, _, _ in chain]
    loops = [st for st in chain if isinstance(st, (ast.For, ast.While))]
    conds = [st for st in chain[:-1] if not isinstance(st, ast.For)]
    ctx.check(not conds, "R4", "Orchestrator._iter:yield-unconditional", "the yield is executed for every element of the loop nest",
              "the yield is nested in %s: some (task, strategy, fold) combinations are never produced"
              % ", ".join(type(c).__name__.lower() for c in conds), ctx.loc(mod, y))
    exits = [n for lf, _, _ in levels for n in astq.walk_no_nested(lf) if isinstance(n, (ast.Break, ast.Continue, ast.Return))]
    ctx.check(not exits, "R4", "Orchestrator._iter:no-early-exit", "no break/continue/return in the loop nest",
              "%s at line %s cuts the product short" % (type(exits[0]).__name__.lower() if exits else "", exits[0].lineno if exits else ""),
              ctx.loc(mod, exits[0]) if exits else loc)
    ident = ctor_identity_attrs(cls)
    elts = [res(fn_y, env_y, e, y) for e in y.value.elts]
    roles = {}
    zip_src = None
    enum_src = None
    for i, e in enumerate(elts):
        core = e
        # zip component
        if isinstance(core, ast.Subscript) and S.is_marker(core.value, S.ITER) and isinstance(core.slice, ast.Constant):
            src = core.value.args[0]
            if isinstance(src, ast.Call) and isinstance(src.func, ast.Name) and src.func.id == "zip" and not src.keywords \
                    and repo.resolve_name(mod, "zip") is None and all(astq.is_self_attr(a) for a in src.args):
                k = core.slice.value
                if isinstance(k, int) and 0 <= k < len(src.args):
                    p = ident.get(src.args[k].attr)
                    r = {"tasks": "task", "datasets": "dataset"}.get(p)
                    if r:
                        roles[i] = r
                        zip_src = src
                        continue
            if isinstance(src, ast.Call) and isinstance(src.func, ast.Name) and src.func.id == "enumerate" \
                    and repo.resolve_name(mod, "enumerate") is None and core.slice.value == 0:
                roles[i] = "fold"
                enum_src = src
                continue
        if isinstance(core, ast.Subscript) and isinstance(core.slice, ast.Constant) and isinstance(core.value, ast.Subscript) \
                and S.is_marker(core.value.value, S.ITER) and isinstance(core.value.slice, ast.Constant) and core.value.slice.value == 1:
            src = core.value.value.args[0]
            if isinstance(src, ast.Call) and isinstance(src.func, ast.Name) and src.func.id == "enumerate" and core.slice.value in (0, 1):
                roles[i] = "train_idx" if core.slice.value == 0 else "test_idx"
                enum_src = src
                continue
        if isinstance(core, ast.Call) and isinstance(core.func, ast.Attribute) and core.func.attr == "load" and not core.args:
            roles[i] = "data"
            continue
        if isinstance(core, ast.Call):
            sym = repo.resolve_expr(mod, core.func)
            if sym is not None and sym.dotted == "sklearn.base.clone":
                roles[i] = "strategy"
                continue
        roles[i] = "?%d" % i
    by_role = {r: i for i, r in roles.items()}
    want = ("task", "dataset", "data", "strategy", "fold", "train_idx", "test_idx")
    # fresh clone -------------------------------------------------------------------------------
    c = "Orchestrator._iter:fresh-clone"
    if "strategy" not in by_role:
        # which element descends from the strategies list?
        cand = [i for i, e in enumerate(elts) if any(astq.is_self_attr(n) and ident.get(n.attr) == "strategies" for n in ast.walk(e))]
        if len(cand) == 1 and not S.is_opaque(elts[cand[0]]):
            ctx.violation("R4", c, "the strategy handed out for fitting is %s, not a clone made for this fold: state fitted on one "
                          "fold (or by an earlier run) leaks into the next" % astq.canon(elts[cand[0]]), ctx.loc(mod, y))
            roles[cand[0]] = "strategy"
            by_role["strategy"] = cand[0]
        else:
            ctx.undecided("R4", c, "cannot identify the strategy component of the yielded tuple", ctx.loc(mod, y))
    else:
        e = elts[by_role["strategy"]]
        arg = e.args[0] if e.args else None
        inner = arg.args[0] if arg is not None and S.is_marker(arg, S.PHI) else arg
        from_list = (inner is not None and S.is_marker(inner, S.ITER) and astq.is_self_attr(inner.args[0])
                     and ident.get(inner.args[0].attr) == "strategies")
        clones = [k for lf, _, _ in levels for k in astq.calls(lf) if (repo.resolve_expr(mod, k.func) or None) is not None
                  and repo.resolve_expr(mod, k.func).dotted == "sklearn.base.clone"]
        if not from_list or len(clones) != 1:
            ctx.undecided("R4", c, "clone argument not recognised: %s (%d clone calls)" % (astq.canon(e)[:80], len(clones)), ctx.loc(mod, y))
        else:
            cl_chain = []
            for lf, le, node in levels:
                inside = any(n is clones[0] for n in ast.walk(lf))
                ch = astq.enclosing_stmts(lf, clones[0] if inside else node)
                cl_chain.extend(st for st in ch if isinstance(st, (ast.For, ast.While)))
                if inside:
                    break
            same = len(cl_chain) == len(loops) and all(a is b for a, b in zip(cl_chain, loops))
            ctx.check(same, "R4", c, "fitted object = clone(strategy) made inside the innermost (fold) loop",
                      "clone() is executed in loop depth %d but the tuple is yielded in depth %d: the same object is handed out "
                      "for several folds" % (len(cl_chain), len(loops)), ctx.loc(mod, clones[0]))
    # full product ------------------------------------------------------------------------------
    c = "Orchestrator._iter:product"
    ok = None
    if len(loops) == 3 and all(isinstance(l, ast.For) for l in loops) and zip_src is not None and enum_src is not None:
        outer, mid, inner = loops
        e_out = res(owner[id(outer)][0], owner[id(outer)][1], outer.iter, outer.iter)
        e_mid = res(owner[id(mid)][0], owner[id(mid)][1], mid.iter, mid.iter)
        e_in = res(owner[id(inner)][0], owner[id(inner)][1], inner.iter, inner.iter)
        ok = (astq.canon(e_out) == astq.canon(zip_src) and len(zip_src.args) == 2
              and [ident.get(a.attr) for a in zip_src.args] == ["tasks", "datasets"]
              and astq.is_self_attr(e_mid) and ident.get(e_mid.attr) == "strategies"
              and astq.canon(e_in) == astq.canon(enum_src))
        known = all(a.attr in ident for a in zip_src.args) and (not astq.is_self_attr(e_mid) or e_mid.attr in ident)
        if not ok and (not known or any(S.is_opaque(x) for x in (e_out, e_mid, e_in))):
            ok = None  # e.g. the constructor copies / validates the lists: provenance of the attribute not established
    ctx.check(ok, "R4", c, "loops = zip(tasks, datasets) x strategies x enumerate(cv.split(...)), all unfiltered",
              "the loop nest is not the full product zip(self.tasks, self.datasets) x self.strategies x enumerate(folds)", loc)
    # folds over the loaded data of the same dataset ---------------------------------------------
    c = "Orchestrator._iter:folds"
    ok = None
    if enum_src is not None and "data" in by_role and "dataset" in by_role:
        sp = enum_src.args[0] if enum_src.args else None
        start = [k for k in enum_src.keywords if k.arg == "start"] or enum_src.args[1:2]
        start_ok = not start or (isinstance(getattr(start[0], "value", start[0]), ast.Constant)
                                 and getattr(start[0], "value", start[0]).value == 0)
        data_e, ds_e = elts[by_role["data"]], elts[by_role["dataset"]]
        while isinstance(sp, ast.Call) and isinstance(sp.func, ast.Name) and sp.func.id in ("list", "tuple") and len(sp.args) == 1:
            sp = sp.args[0]
        if isinstance(sp, ast.Subscript) and astq.is_self_attr(sp.value):
            # (H2) folds memoised on the instance: the key must determine everything cv.split depends on (the data and y)
            key = astq.canon(sp.slice)
            coarse = ".shape" in key or "len(" in key or isinstance(sp.slice, ast.Constant)
            if coarse:
                ctx.violation("R4", c, "folds are read from the per-instance container self.%s keyed by %s: the folds computed for one "
                              "data set are reused for every later data set (and run) with the same key although cv.split depends on the "
                              "rows and on y -- history: two data sets with the same number of rows" % (
                                  sp.value.attr, key.replace("ITER__(zip(self.tasks, self.datasets))[1]", "dataset")), loc)
                ok = "reported"
        if isinstance(sp, ast.Call) and isinstance(sp.func, ast.Attribute) and sp.func.attr == "split" \
                and astq.is_self_attr(sp.func.value) and ident.get(sp.func.value.attr) == "cv" and sp.args:
            ok = (astq.canon(sp.args[0]) == astq.canon(data_e) and astq.canon(data_e.func.value) == astq.canon(ds_e) and start_ok)
    if ok != "reported":
        ctx.check(ok, "R4", c, "folds = enumerate(self.cv.split(data of this dataset)), numbered from 0",
                  "folds are not enumerate(self.cv.split(<loaded data of the yielded dataset>)) numbered from 0", loc)
    c = "Orchestrator._iter:tuple"
    got = tuple(roles[i] for i in sorted(roles))
    ctx.check(None if any(r.startswith("?") for r in got) else set(got) == set(want) and len(got) == len(want), "R4", c,
              "yields (%s)" % ", ".join(got), "yielded tuple is (%s)" % ", ".join(got), ctx.loc(mod, y))
    if any(r.startswith("?") for r in got) or set(got) != set(want):
        return None
    return roles


# ------------------------------------------------------------------------------- consumers: fit_predict / fit
FLAGS = {
    # kind -> (enable flag or None, overwrite flag): the options named by the property (public API of fit_predict)
    "fitted": ("save_fitted_strategies", "overwrite_fitted_strategies"),
    "train": ("predict_on_train", "overwrite_predictions"),
    "test": (None, "overwrite_predictions"),
}


def single_return(fn):
    """The returned expression of a straight-line helper (docstring, plain assignments, then one ``return <expr>``),
    rewritten over the helper's parameters; else None."""
    body = [st for st in fn.body if not (isinstance(st, ast.Expr) and isinstance(st.value, ast.Constant))]
    if body and isinstance(body[-1], ast.Return) and body[-1].value is not None \
            and all(isinstance(st, (ast.Assign, ast.AnnAssign)) for st in body[:-1]) \
            and len(astq.returns(fn)) == 1:
        v = S.resolve_at(fn, body[-1].value, body[-1])
        return None if S.is_opaque(v) else v
    return None


class Consumer:
    """One Orchestrator method that iterates ``self._iter()``."""

    def inline_helper(self, call, closed=False, depth=0):
        """``self.<helper>(...)`` with a single-return body -> its returned expression over the caller's terms."""
        if not self_call(call) or depth > 3:
            return None
        h = self.repo.lookup_method(self.cls, call.func.attr)
        if h is None or h[1] is self.fn:
            return None
        ret = single_return(h[1])
        b = astq.bind_call(h[1], call, skip_self=not self.cls.is_static(call.func.attr)) if ret is not None else None
        if b is None or any(k in b for k in ("*", "**", "!unknown")):
            return None
        env = {}
        for pn, v in b.items():
            if isinstance(v, ast.AST):
                env[pn] = v if closed else self.sub(v, call)
        for pn, dv in astq.param_defaults(h[1]).items():
            env.setdefault(pn, dv)
        free = {n.id for n in ast.walk(ret) if isinstance(n, ast.Name) and n.id in astq.all_param_names(h[1], skip_self=True)}
        if not free <= set(env):
            return None
        return S.subst(ret, env)

    def __init__(self, repo, cls, name, roles):
        self.repo, self.cls, self.name = repo, cls, name
        self.mod = cls.module
        self.fn = repo.func(ORCH, "Orchestrator." + name)
        self.cfg = CFG(self.fn)
        self.roles = roles
        self.hdd = repo.cls(RESULTS + ":HDDResults")
        self.ram = repo.cls(RESULTS + ":RAMResults")
        self.loop = None
        for n in astq.walk_no_nested(self.fn):
            if isinstance(n, ast.For):
                it = S.resolve_at(self.fn, n.iter, n.iter)
                if isinstance(it, ast.Call) and self_call(it, "_iter"):
                    self.loop = n
        self.params = astq.all_param_names(self.fn, skip_self=True)

    def sub(self, expr, at):
        e = S.subst(expr, S.env_at(self.fn, at))
        return RoleRename(self.roles).visit(e)

    def results_calls(self):
        """(call, method name) for every call on self.results in this method."""
        out = []
        for c in astq.calls(self.fn):
            if isinstance(c.func, ast.Attribute):
                try:
                    recv = self.sub(c.func.value, c)
                except ValueError:
                    continue
                if astq.is_self_attr(recv, attr="results"):
                    out.append((c, c.func.attr))
        return out

    def store_sites(self):
        """Every place of this method where a record is stored: direct ``self.results.save_*`` calls and calls of a
        helper method of the class whose body stores unconditionally (the helper is inlined: its arguments are rewritten over
        the caller's terms).  -> list of (site call in this method, results method, closed call, {param: closed arg}, helper or None);
        second value: helpers that store but cannot be inlined."""
        sites, opaque = [], []
        for c, m in self.results_calls():
            if m in ("save_predictions", "save_fitted_strategy"):
                args = [self.sub(a, c) for a in c.args]
                kws = [ast.keyword(arg=k.arg, value=self.sub(k.value, c)) for k in c.keywords]
                closed = ast.Call(func=c.func, args=args, keywords=kws)
                sites.append((c, m, closed, None))
        for c in astq.calls(self.fn):
            if not self_call(c):
                continue
            h = self.repo.lookup_method(self.cls, c.func.attr)
            if h is None or h[1] is self.fn:
                continue
            hfn = h[1]
            inner = []
            for sc in astq.calls(hfn):
                if isinstance(sc.func, ast.Attribute) and sc.func.attr in ("save_predictions", "save_fitted_strategy"):
                    try:
                        recv = S.resolve_at(hfn, sc.func.value, sc)
                    except ValueError:
                        continue
                    if astq.is_self_attr(recv, attr="results"):
                        inner.append(sc)
            if not inner:
                continue
            b = astq.bind_call(hfn, c, skip_self=not h[0].is_static(c.func.attr))
            hg = CFG(hfn)
            ok = b is not None and not any(k in b for k in ("*", "**", "!unknown"))
            if ok:
                try:
                    henv = {pn: self.sub(v, c) for pn, v in b.items() if isinstance(v, ast.AST)}
                except ValueError:
                    ok = False
            if ok:
                for pn, dv in astq.param_defaults(hfn).items():
                    henv.setdefault(pn, dv)
                for sc in inner:
                    node = hg.node_of(sc)
                    if node is None or not hg.must_pass(lambda n, node=node: n is node):
                        ok = False
            if not ok:
                opaque.append(c.func.attr)
                continue
            for sc in inner:
                env = S.env_at(hfn, sc)
                args = [S.subst(S.subst(a, env), henv) for a in sc.args]
                kws = [ast.keyword(arg=k.arg, value=S.subst(S.subst(k.value, env), henv)) for k in sc.keywords]
                closed = ast.Call(func=ast.Attribute(value=ast.Attribute(value=ast.Name(id="self", ctx=ast.Load()), attr="results", ctx=ast.Load()),
                                                     attr=sc.func.attr, ctx=ast.Load()), args=args, keywords=kws)
                sites.append((c, sc.func.attr, closed, c.func.attr))
        return sites, opaque

    def interpreted_key(self, call, mname, closed=False):
        """The file the disk store probes / writes for this call, found by interpreting the HDDResults method on tokens that
        stand for the caller's argument expressions: ('path', P, suffix).  Independent of how the method builds the path."""
        from ._c18_mini import Interp, PyRaise, Undecided as U
        from . import _c18_models as M
        h = self.repo.lookup_method(self.hdd, mname)
        if h is None:
            return None
        dcls, mfn = h
        b = astq.bind_call(mfn, call, skip_self=True)
        if b is None or any(k in b for k in ("*", "**", "!unknown")):
            return None
        env = {} if closed else S.env_at(self.fn, call)
        vfs = M.VFS()
        seen = []

        class _Obj:
            def __init__(self, text):
                self.text = text

            def m_getattr(self, interp, attr):
                if attr == "save":
                    return M.BoundExt(self, "save")
                return "«%s.%s»" % (self.text, attr)

            def m_method(self, interp, name, args, kwargs, node):
                seen.append(args[0] if args else kwargs.get("path"))

        args = {}
        part = "'train'"
        for pn, v in b.items():
            if not isinstance(v, ast.AST):
                continue
            e = RoleRename(self.roles).visit(S.subst(v, env))
            if isinstance(e, ast.Constant):
                args[pn] = e.value
            elif pn == "strategy":
                args[pn] = _Obj(astq.canon(e))
            else:
                args[pn] = "«%s»" % astq.canon(e)
            if pn == "train_or_test":
                part = astq.canon(e)
        ext = dict(M.make_externals(vfs))
        ext["os.path.isfile"] = lambda i, a, k, n: (seen.append(a[0]), False)[1]
        ext["os.path.exists"] = lambda i, a, k, n: True
        it = Interp(self.repo, ext, M.to_float, M.str_hook)
        it.vfs = vfs
        me = _Instance(self.repo, self.hdd, {"_path": "/res", "strategy_names": [], "dataset_names": [], "cv": None})
        try:
            it.call_function(dcls.module, mfn, [me], args)
        except (U, PyRaise):
            return None
        paths = [p for p in seen if isinstance(p, str)] + [p for p in vfs.files if isinstance(p, str)]
        if len(set(paths)) != 1:
            return None
        path = paths[0]
        suffix = "." + path.rsplit(".", 1)[-1] if "." in path.rsplit("/", 1)[-1] else ""
        return (path, "", "", part, "", suffix)

    def caller_key(self, call, mname, closed=False):
        """Key probed / written by a results call: interpreted (see interpreted_key); the syntactic key template is the
        fall-back when the method cannot be interpreted."""
        k = self.interpreted_key(call, mname, closed)
        if k is not None:
            return k
        return self.template_key(call, mname, closed)

    def template_key(self, call, mname, closed=False):
        """Key probed / written by a results call, in caller terms: (S, D, F, P, prefix, suffix) canonical strings.
        ``closed``: ``call`` is a synthetic expression already written over parameters and roles (an inlined helper)."""
        h = self.repo.lookup_method(self.hdd, mname)
        if h is None:
            return None
        dcls, mfn = h
        b = astq.bind_call(mfn, call, skip_self=True)
        if b is None or any(k in b for k in ("*", "**", "!unknown")):
            return None
        try:
            tpls = key_templates(self.repo, self.hdd, mfn)
        except Undecided:
            return None
        if len(tpls) != 1:
            return None
        t = tpls[0]
        env = {} if closed else S.env_at(self.fn, call)
        menv = {p: S.subst(v, env) for p, v in b.items() if isinstance(v, ast.AST)}
        mparams = set(astq.all_param_names(mfn, skip_self=True))
        parts = []
        for role in ROLES:
            e = t.roles[role]
            free = {n.id for n in ast.walk(e) if isinstance(n, ast.Name) and n.id in mparams}
            if not free <= set(menv):
                return None
            parts.append(astq.canon(RoleRename(self.roles).visit(S.subst(e, menv))))
        return tuple(parts) + (t.prefix, t.suffix)


def key_text(k):
    return k[0] if not k[1] and not k[2] else "%s|%s|%s|%s%s" % (k[0], k[1], k[2], k[3], k[5])


def atom_name(k):
    if k[0] == "flag":
        return k[1]
    if k[0] == "exists":
        return "exists[%s%s]" % (k[1][3].strip("'"), k[1][5])
    return "%s" % (k[1],)


FIT_FLAGS = {"fitted": (None, "overwrite_fitted_strategies")}


def analyse_fit_predict(ctx, repo, flow, roles, method="fit_predict", FLAGS=FLAGS, registry=True):
    cls = repo.cls(ORCH + ":Orchestrator")
    cons = Consumer(repo, cls, method, roles)
    fn, g, mod = cons.fn, cons.cfg, cons.mod
    tag = "Orchestrator." + method
    if cons.loop is None:
        for r in ("R1", "R2", "R5"):
            ctx.undecided(r, tag + ":loop", "no loop over self._iter() found", ctx.loc(mod, fn))
        return cons
    header = g.node_of(cons.loop.iter)
    body_starts = [s for s, lab in header.succ if lab is True]
    unresolved = set()

    def closed_atom(e, depth=0):
        """atom of a synthetic (inlined) expression written over parameters and roles"""
        if isinstance(e, ast.Name) and e.id in cons.params and not astq.assigned_in(fn, e.id):
            return P.Atom(("flag", e.id))
        if isinstance(e, ast.Call) and isinstance(e.func, ast.Attribute) and e.func.attr in (
                "check_predictions_exist", "check_fitted_strategy_exists") and astq.is_self_attr(e.func.value, attr="results"):
            key = cons.caller_key(e, e.func.attr, closed=True)
            if key is not None:
                return P.Atom(("exists", key))
        if isinstance(e, ast.Call) and depth < 3:
            inl = cons.inline_helper(e, closed=True, depth=depth)
            if inl is not None:
                return P.from_ast(inl, lambda x: closed_atom(x, depth + 1))
        if isinstance(e, ast.Subscript) and isinstance(e.slice, ast.Constant) and isinstance(e.slice.value, int) and depth < 3:
            # component of a tuple-returning helper: ``a, b, c = self._lookup(...)``
            base = e.value.args[0] if S.is_marker(e.value, S.UNPACK) and e.value.args else e.value
            tup = cons.inline_helper(base, closed=True, depth=depth) if isinstance(base, ast.Call) else base
            if isinstance(tup, ast.Tuple) and 0 <= e.slice.value < len(tup.elts):
                return P.from_ast(tup.elts[e.slice.value], lambda x: closed_atom(x, depth + 1))
        k = ("opaque", astq.canon(e))
        unresolved.add(k)
        return P.Atom(k)

    def atom_of_at(node):
        def atom_of(e):
            if isinstance(e, ast.Call) and self_call(e):
                inl = cons.inline_helper(e)
                if inl is not None:
                    return P.from_ast(inl, closed_atom)
            if isinstance(e, ast.Name):
                if e.id in cons.params and not astq.assigned_in(fn, e.id):
                    return P.Atom(("flag", e.id))
                stores = [n for n in astq.walk_no_nested(fn) if isinstance(n, ast.Name) and n.id == e.id
                          and isinstance(n.ctx, (ast.Store, ast.Del))]
                vals = astq.assigned_values(fn, e.id)
                if len(stores) == 1 and len(vals) == 1:
                    dn = g.node_of(vals[0])
                    if dn is not None and node is not None and g.dominates(dn, node):
                        return P.from_ast(vals[0], atom_of_at(dn))
                # any other straight-line provenance (tuple unpacking, helper results): the symbolic environment at the test
                at = getattr(getattr(node, "stmt", None), "test", None) if node is not None else None
                if at is None and node is not None and node.exprs:
                    at = node.exprs[0]
                if at is not None:
                    try:
                        e2 = cons.sub(e, at)
                    except ValueError:
                        e2 = e
                    if not (isinstance(e2, ast.Name) and e2.id == e.id) and not S.is_opaque(e2):
                        return P.from_ast(e2, closed_atom)
                k = ("opaque", e.id)
                unresolved.add(k)
                return P.Atom(k)
            if isinstance(e, ast.Call) and isinstance(e.func, ast.Attribute) and e.func.attr in (
                    "check_predictions_exist", "check_fitted_strategy_exists"):
                recv = cons.sub(e.func.value, e)
                if astq.is_self_attr(recv, attr="results"):
                    key = cons.caller_key(e, e.func.attr)
                    if key is not None:
                        return P.Atom(("exists", key))
            k = ("opaque", astq.canon(e))
            unresolved.add(k)
            return P.Atom(k)
        return atom_of

    formulas = {}

    def test_formula(n):
        if n.id not in formulas:
            formulas[n.id] = P.from_ast(n.stmt.test, atom_of_at(n))
        return formulas[n.id]

    # precondition enforced at entry: rejecting guards that dominate the loop
    adm = P.TRUE
    for t, test, branch in rejecting_guards(g):
        if g.dominates(t, header) and t is not header:
            f = P.from_ast(test, atom_of_at(t))
            adm = P.And(adm, P.Not(f) if branch else f)
    # ... or delegated to a helper that raises for inadmissible option combinations
    for st in fn.body:
        call = st.value if isinstance(st, ast.Expr) and isinstance(st.value, ast.Call) else None
        if call is None or not self_call(call):
            continue
        h = repo.lookup_method(cls, call.func.attr)
        if h is None or not any(isinstance(n, ast.Raise) for n in astq.walk_no_nested(h[1])):
            continue
        hfn = h[1]
        b = astq.bind_call(hfn, call, skip_self=not h[0].is_static(call.func.attr))
        if b is None or any(k in b for k in ("*", "**", "!unknown")):
            continue
        pf = {pn: P.from_ast(v, atom_of_at(g.node_of(call))) for pn, v in b.items() if isinstance(v, ast.AST)}
        hkeys = []
        for f in pf.values():
            for k in P.atoms(f):
                if k not in hkeys:
                    hkeys.append(k)
        if not hkeys or len(hkeys) > 6 or any(k[0] != "flag" for k in hkeys):
            continue
        hg = CFG(hfn)

        def hatom(e2, pf=pf):
            if isinstance(e2, ast.Name) and e2.id in pf:
                return pf[e2.id]
            return None

        ok_rows, clean = [], True
        for sg in P.assignments(hkeys):
            bad = []

            def truth(n, sg=sg):
                f = P.from_ast(n.stmt.test, hatom)
                if any(k not in sg for k in P.atoms(f)):
                    bad.append(n)
                    return None
                return P.evaluate(f, sg)

            seen_h, _ = simulate(hg, [hg.entry], set(), truth)
            if bad:
                clean = False
                break
            if hg.exit.id in seen_h:
                ok_rows.append(sg)
        if clean:
            adm = P.And(adm, P.Or(*[P.And(*[P.Atom(k) if v else P.Not(P.Atom(k)) for k, v in sg.items()]) for sg in ok_rows]))
    # sites ------------------------------------------------------------------------------------
    in_body, _ = simulate(g, body_starts, {header.id}, lambda n: None)
    stores, fits, registers = {}, [], []
    base_pred = name_pred("_append_key")
    site_list, opaque_helpers = cons.store_sites()
    for call, m, closed, helper in site_list:
        node = g.node_of(call)
        if node is None or node.id not in in_body:
            continue
        key = cons.caller_key(closed, m, closed=True)
        kind = None
        if m == "save_fitted_strategy":
            kind = "fitted"
        elif key is not None and key[3] in ("'train'", "'test'"):
            kind = key[3].strip("'")
        if kind is None or key is None:
            ctx.undecided("R2", "%s:store:%s" % (tag, m), "cannot determine which record this call writes", ctx.loc(mod, call))
            continue
        stores.setdefault(kind, []).append((call, node, key))
        if helper is not None:
            hh = repo.lookup_method(cons.hdd, m)
            if hh is not None and flow.must_call(hh[1], base_pred, hh[0].module, cons.hdd, hh[0]):
                registers.append((call, node))
    for call, m in cons.results_calls():
        node = g.node_of(call)
        if node is None or node.id not in in_body:
            continue
        reg = m == "_append_key"
        for k in (cons.hdd,):
            h = repo.lookup_method(k, m)
            if h is not None and m != "_append_key" and flow.must_call(h[1], base_pred, h[0].module, k, h[0]):
                reg = True
        if m == "_append_key":
            b = astq.bind_call(repo.func(BASE, "BaseResults._append_key"), call, skip_self=True) or {}
            for pname, want in (("strategy_name", "R_strategy.name"), ("dataset_name", "R_dataset.name")):
                got = astq.canon(cons.sub(b[pname], call)) if isinstance(b.get(pname), ast.AST) else None
                if got != want:
                    reg = False
                ctx.check(None if got is None else got == want, "R5", "%s:_append_key:%s" % (tag, pname),
                          "registers the %s of this iteration" % pname,
                          "_append_key receives %s as %s" % ((got or "nothing").replace("R_", ""), pname), ctx.loc(mod, call))
        if reg:
            registers.append((call, node))
    for c in astq.calls(fn):
        if isinstance(c.func, ast.Attribute) and c.func.attr == "fit":
            node = g.node_of(c)
            if node is not None and node.id in in_body and astq.canon(cons.sub(c.func.value, c)) == "R_strategy":
                fits.append((c, node))
    cons.stores, cons.fits, cons.header = stores, fits, header
    # atoms ------------------------------------------------------------------------------------
    tests = [n for n in g.nodes if n.id in in_body and n.kind == "test" and isinstance(n.stmt, ast.If)]
    odd = [n for n in g.nodes if n.id in in_body and (n.kind == "loop" or (n.kind == "test" and not isinstance(n.stmt, ast.If)))]
    keys = list(P.atoms(adm))
    for n in tests:
        for k in P.atoms(test_formula(n)):
            if k not in keys:
                keys.append(k)
    need = {}
    for kind, sites in stores.items():
        en, ow = FLAGS[kind]
        for fl in (en, ow):
            if fl is not None and fl not in cons.params:
                ctx.undecided("R2", "%s:store[%s]:flags" % (tag, kind), "fit_predict has no option %r" % fl, ctx.loc(mod, fn))
                return cons
        skeys = {s[2] for s in sites}
        if len(skeys) != 1:
            ctx.undecided("R2", "%s:store[%s]" % (tag, kind), "several %s stores with different keys" % kind, ctx.loc(mod, sites[0][0]))
            continue
        key = sites[0][2]
        ex = ("exists", key)
        own = ex in keys
        # the existence atom must have been evaluated before the store
        ctx.check(own, "R2", "%s:store[%s]:own-check" % (tag, kind),
                  "guard consults the existence check of the very record it writes (%s)" % key_text(key),
                  "no decision in the loop consults the existence check for the record this store writes (%s); "
                  "checks consulted: %s" % (key_text(key), ", ".join(key_text(k[1]) for k in keys if k[0] == "exists") or "none"),
                  ctx.loc(mod, sites[0][0]))
        if not own:
            keys.append(ex)
        f = P.Or(P.Atom(("flag", ow)), P.Not(P.Atom(ex)))
        if en is not None:
            f = P.And(P.Atom(("flag", en)), f)
        need[kind] = f
        for fl in (en, ow):
            if fl is not None and ("flag", fl) not in keys:
                keys.append(("flag", fl))
    hidden = list(opaque_helpers)  # helpers that store records but could not be inlined (conditional store, star arguments)
    for kind in FLAGS:
        if kind not in stores:
            if hidden:
                ctx.undecided("R2", "%s:store[%s]:present" % (tag, kind), "no direct call stores the %s record; the loop calls helper(s) %s that "
                              "store records -- stores inside helper methods are not followed" % (kind, ", ".join(sorted(set(hidden)))),
                              ctx.loc(mod, cons.loop))
            else:
                ctx.violation("R2", "%s:store[%s]:present" % (tag, kind), "no call stores the %s record" % kind, ctx.loc(mod, cons.loop))
    if hidden and set(stores) != set(FLAGS):
        return cons
    if odd:
        ctx.undecided("R1", tag + ":loop-body", "nested loop in the loop body: decisions are not a pure function of the atoms",
                      ctx.loc(mod, odd[0].stmt))
        return cons
    try:
        sigmas = [s for s in P.assignments(keys) if P.evaluate(adm, s)]
    except P.TooManyAtoms as e:
        ctx.undecided("R1", tag + ":truth-table", str(e), ctx.loc(mod, fn))
        return cons
    ctx.count("truth_table_rows", len(sigmas))
    ctx.info("%s: atoms %s; precondition %s; %d admissible assignments" % (
        tag, ", ".join(atom_name(k) for k in keys), P.show(adm, atom_name), len(sigmas)))
    # execute the loop body on every assignment ---------------------------------------------------
    rows = []
    for s in sigmas:
        seen, _ = simulate(g, body_starts, {header.id}, lambda n: P.evaluate(test_formula(n), s))
        rows.append((s, seen))
    cons.rows, cons.keys, cons.need, cons.registers, cons.unresolved = rows, keys, need, registers, unresolved

    def report(rule, construct, bad, ok_text, bad_text, loc):
        """bad: list of assignments violating the obligation."""
        if not bad:
            ctx.ok(rule, construct, ok_text + " (%d assignments)" % len(rows), loc)
        elif unresolved:
            ctx.undecided(rule, construct, "%s, but the decisions involve conditions the analysis cannot interpret: %s"
                          % (bad_text, ", ".join(sorted(str(k[1]) for k in unresolved))), loc)
        else:
            ctx.violation(rule, construct, "%s; e.g. %s (%d of %d admissible assignments)" % (
                bad_text, P.show_sigma(bad[0], atom_name), len(bad), len(rows)), loc,
                witness={"assignment": {atom_name(k): v for k, v in bad[0].items()}, "count": len(bad)})

    # R1: the fold is skipped (not fitted) exactly when nothing is to be written ------------------
    if not fits:
        # decidable: something is stored (or predicted) for a strategy that this iteration never fits
        anyfit = [c for c in astq.calls(fn) if isinstance(c.func, ast.Attribute) and c.func.attr == "fit"]
        ctx.check(None if anyfit else False, "R1", tag + ":fit", "",
                  "the loop stores records but never calls fit on the strategy yielded for the fold" if not anyfit else
                  "fit is called, but not on the strategy yielded for the fold", ctx.loc(mod, cons.loop))
    elif set(need) == set(FLAGS):
        anyneed = P.Or(*need.values())
        fit_ids = {n.id for _, n in fits}
        bad_skip = [s for s, seen in rows if P.evaluate(anyneed, s) and not (seen & fit_ids)]
        bad_fit = [s for s, seen in rows if not P.evaluate(anyneed, s) and (seen & fit_ids)]
        loc = ctx.loc(mod, fits[0][0])
        report("R1", tag + ":skip=>nothing-to-write", bad_skip,
               "whenever a requested record is missing or overwriting is on, the fold is fitted",
               "the fold is skipped although a requested record is missing or must be overwritten", loc)
        report("R1", tag + ":fit=>something-to-write", bad_fit,
               "the fold is fitted only when some record will be written",
               "the strategy is re-fitted although every requested record exists and nothing will be written", loc)
    # R2: each store executes exactly when its own record is needed ----------------------------------
    for kind, f in need.items():
        ids = {n.id for _, n, _ in stores[kind]}
        en, ow = FLAGS[kind]
        ex = ("exists", stores[kind][0][2])
        loc = ctx.loc(mod, stores[kind][0][0])
        over = [s for s, seen in rows if (seen & ids) and s[ex] and not s[("flag", ow)]]
        unreq = [s for s, seen in rows if (seen & ids) and en is not None and not s[("flag", en)]]
        miss = [s for s, seen in rows if P.evaluate(f, s) and not (seen & ids)]
        report("R2", "%s:store[%s]:guard" % (tag, kind), over,
               "never executed when the record exists and %s is off" % ow,
               "an existing %s record is overwritten although %s is off" % (kind, ow), loc)
        if en is not None:
            report("R2", "%s:store[%s]:requested" % (tag, kind), unreq, "only executed when %s is on" % en,
                   "the %s record is written although %s is off" % (kind, en), loc)
        report("R2", "%s:store[%s]:produced" % (tag, kind), miss,
               "executed whenever the record is requested and (missing or %s)" % ow,
               "the %s record is requested and missing (or %s is on) but is not written" % (kind, ow), loc)
    # defaults: a plain call must be admissible and must not overwrite (a re-run with defaults resumes) ----------
    defaults = astq.param_defaults(fn)
    dvals = {}
    for k in keys:
        if k[0] == "flag" and isinstance(defaults.get(k[1]), ast.Constant) and isinstance(defaults[k[1]].value, bool):
            dvals[k] = defaults[k[1]].value
    flag_keys = [k for k in keys if k[0] == "flag"]
    if flag_keys and all(k in dvals for k in P.atoms(adm)):
        ctx.check(P.evaluate(adm, dvals) if P.atoms(adm) else True, "R1", tag + ":defaults-admissible",
                  "the default options satisfy the method's own precondition",
                  "calling %s() with its default options is rejected by its own precondition (%s)" % (method, P.show(adm, atom_name)), ctx.loc(mod, fn))
    for kind in need:
        ow = FLAGS[kind][1]
        if ("flag", ow) in dvals:
            ctx.check(dvals[("flag", ow)] is False, "R1", "%s:default:%s" % (tag, ow), "overwriting is off by default: a repeated default run resumes",
                      "%s defaults to True: a repeated run with default options recomputes and overwrites every existing %s record"
                      % (ow, kind), ctx.loc(mod, fn))
    if not registry:
        return cons
    # R5: every path registers (strategy, dataset) -----------------------------------------------------
    reg_ids = {n.id for _, n in registers}
    fit_ids = {n.id for _, n in fits}
    skip_bad = [s for s, seen in rows if not (seen & fit_ids) and not (seen & reg_ids)]
    work_bad = [s for s, seen in rows if (seen & fit_ids) and not (seen & reg_ids)]
    loc = ctx.loc(mod, cons.loop)
    report("R5", tag + ":registry:skip-path", skip_bad, "folds that are skipped still register (strategy, dataset)",
           "a fold that is skipped because its records exist registers nothing: results.save() then writes a registry "
           "that omits strategies/datasets completed by an earlier, interrupted run", loc)
    report("R5", tag + ":registry:work-path", work_bad, "folds that are fitted register (strategy, dataset)",
           "a fold is fitted but no executed call registers (strategy, dataset)", loc)
    return cons


# ------------------------------------------------------------------------------------------------ R4 (consumer side)
def _eq(e, text):
    return astq.canon(e) == text


def check_slice_of(ctx, construct, expr, want_idx, what, loc):
    """expr must be R_data.iloc[<want_idx>]"""
    m = {}
    if S.unify(S.pattern("R_data.iloc[H_I]"), expr, m):
        got = astq.canon(m["H_I"])
        if got == want_idx:
            ctx.ok("R4", construct, "%s = data.iloc[%s]" % (what, want_idx[2:]), loc)
        elif got in ("R_train_idx", "R_test_idx"):
            ctx.violation("R4", construct, "%s uses the rows of %s, expected %s" % (what, got[2:], want_idx[2:]), loc)
        else:
            ctx.undecided("R4", construct, "%s = data.iloc[%s]" % (what, got), loc)
        return
    if _eq(expr, "R_data"):
        ctx.violation("R4", construct, "%s is the whole data set, not the fold's %s rows" % (what, want_idx[2:]), loc)
    else:
        ctx.undecided("R4", construct, "%s has an unrecognised source: %s" % (what, astq.canon(expr)[:100]), loc)


def consumer_R4(ctx, repo, cons):
    fn, g, mod = cons.fn, cons.cfg, cons.mod
    tag = "Orchestrator." + cons.name
    if cons.loop is None:
        ctx.undecided("R4", tag + ":loop", "no loop over self._iter()", ctx.loc(mod, fn))
        return
    tgt = cons.loop.target
    n_roles = len(cons.roles)
    ok = isinstance(tgt, ast.Tuple) and len(tgt.elts) == n_roles and all(isinstance(e, ast.Name) for e in tgt.elts)
    ctx.check(ok, "R4", tag + ":unpack", "unpacks the %d components yielded by _iter()" % n_roles,
              "loop target does not unpack the %d-tuple yielded by _iter()" % n_roles, ctx.loc(mod, cons.loop))
    if not ok:
        return
    strat = repo.cls(STRAT + ":BaseSupervisedLearningStrategy")
    header = g.node_of(cons.loop.iter)
    in_body, _ = simulate(g, [s for s, lab in header.succ if lab is True], {header.id}, lambda n: None)
    fit_nodes = set()
    for c in astq.calls(fn):
        if not isinstance(c.func, ast.Attribute) or c.func.attr not in ("fit", "predict"):
            continue
        node = g.node_of(c)
        if node is None or node.id not in in_body:
            continue
        recv = cons.sub(c.func.value, c)
        if not _eq(recv, "R_strategy"):
            if any(isinstance(n, ast.Name) and n.id.startswith("R_") for n in ast.walk(recv)) and c.func.attr == "fit":
                ctx.violation("R4", tag + ":fit:receiver", "fit is called on %s, not on the fold's clone" % astq.canon(recv), ctx.loc(mod, c))
            continue
        h = repo.lookup_method(strat, c.func.attr)
        if h is None:
            continue
        b = astq.bind_call(h[1], c, skip_self=True)
        loc = ctx.loc(mod, c)
        if b is None or "!unknown" in b:
            ctx.violation("R4", "%s:%s:signature" % (tag, c.func.attr), "call does not match %s.%s" % (h[0].name, c.func.attr), loc)
            continue
        if c.func.attr == "fit":
            fit_nodes.add(node.id)
            t = cons.sub(b["task"], c) if "task" in b else None
            ctx.check(None if t is None else _eq(t, "R_task"), "R4", tag + ":fit:task", "fitted for the task of this dataset",
                      "fit receives %s as task" % (astq.canon(t) if t is not None else "nothing"), loc)
            if "data" in b:
                check_slice_of(ctx, tag + ":fit:data", cons.sub(b["data"], c), "R_train_idx", "training data of fit", loc)
    # stored records
    for call, m, closed, helper in cons.store_sites()[0]:
        node = g.node_of(call)
        if node is None or node.id not in in_body:
            continue
        h = repo.lookup_method(cons.hdd, m)
        b = astq.bind_call(h[1], closed, skip_self=True) if h else None
        if b is None or any(k in b for k in ("*", "**", "!unknown")):
            continue  # reported by the arity rule
        loc = ctx.loc(mod, call)
        a = {k: v for k, v in b.items() if isinstance(v, ast.AST)}  # already over the roles of the yielded tuple
        if m == "save_fitted_strategy":
            c0 = tag + ":save_fitted"
            if "strategy" in a:
                ctx.check(_eq(a["strategy"], "R_strategy") if not S.is_opaque(a["strategy"]) else None, "R4", c0 + ":strategy",
                          "the fitted clone of this fold is saved", "saves %s, not the strategy fitted in this fold" % astq.canon(a["strategy"])[:80], loc)
        else:
            part = astq.const_value(a.get("train_or_test"))
            if part not in ("train", "test"):
                ctx.undecided("R4", tag + ":save_predictions:part", "train_or_test is not a constant", loc)
                continue
            c0 = "%s:save_predictions[%s]" % (tag, part)
            idx = "R_%s_idx" % part
            if "index" in a:
                e = strip_wrappers(a["index"])
                got = astq.canon(e)
                if got == idx:
                    ctx.ok("R4", c0 + ":index", "index = %s" % idx[2:], loc)
                elif got in ("R_train_idx", "R_test_idx"):
                    ctx.violation("R4", c0 + ":index", "the %s record stores the instance index of the %s rows" % (part, got[2:-4]), loc)
                elif S.match("R_data.iloc[H_I].index", e) is not None or S.match("R_data.index[H_I]", e) is not None:
                    ctx.violation("R4", c0 + ":index", "the %s record stores the row *labels* of the predicted rows (%s) instead of their "
                                  "positions %s: for a data set whose row index is not 0..n-1 the stored instance index is not the fold's"
                                  % (part, got.replace("R_", ""), idx[2:]), loc)
                else:
                    ctx.undecided("R4", c0 + ":index", "index = %s" % got[:80], loc)
            X = None
            if "y_pred" in a:
                mm = {}
                if S.unify(S.pattern("H_S.predict(H_X)"), a["y_pred"], mm) or S.unify(S.pattern("H_S.predict(data=H_X)"), a["y_pred"], mm):
                    if _eq(mm["H_S"], "R_strategy"):
                        X = mm["H_X"]
                        check_slice_of(ctx, c0 + ":y_pred", X, idx, "predicted rows", loc)
                    else:
                        ctx.undecided("R4", c0 + ":y_pred", "predictions of %s" % astq.canon(mm["H_S"])[:60], loc)
                else:
                    ctx.undecided("R4", c0 + ":y_pred", "y_pred = %s" % astq.canon(a["y_pred"])[:100], loc)
            if "y_true" in a:
                mm = {}
                yt = a["y_true"]
                if S.unify(S.pattern("H_X.loc[H_ROWS, R_task.target]"), yt, mm) or S.unify(S.pattern("H_X[R_task.target]"), yt, mm):
                    rows = mm.get("H_ROWS")
                    full = rows is None or (isinstance(rows, ast.Slice) and rows.lower is None and rows.upper is None and rows.step is None)
                    if not full:
                        ctx.undecided("R4", c0 + ":y_true", "row selection %s" % astq.canon(rows), loc)
                    elif X is not None and astq.canon(mm["H_X"]) == astq.canon(X):
                        ctx.ok("R4", c0 + ":y_true", "true values = target column of the very rows that were predicted", loc)
                    else:
                        check_slice_of(ctx, c0 + ":y_true", mm["H_X"], idx, "true values", loc)
                else:
                    ctx.undecided("R4", c0 + ":y_true", "y_true = %s" % astq.canon(yt)[:100], loc)
        for pname, want, txt in (("cv_fold", "R_fold", "fold number"), ("dataset_name", "R_dataset.name", "dataset name"),
                                 ("strategy_name", "R_strategy.name", "strategy name")):
            if pname in a:
                got = astq.canon(a[pname])
                cc = "%s:%s:%s" % (tag, m if m == "save_fitted_strategy" else "save_predictions[%s]" % astq.const_value(a.get("train_or_test")), pname)
                roots = {n.id for n in ast.walk(a[pname]) if isinstance(n, ast.Name) and n.id.startswith("R_")}
                if got == want:
                    ctx.ok("R4", cc, "%s of this iteration" % txt, loc)
                elif S.is_opaque(a[pname]) or not roots or roots == {want.split(".")[0]}:
                    ctx.undecided("R4", cc, "%s = %s" % (pname, got[:80]), loc)
                else:
                    ctx.violation("R4", cc, "%s is taken from %s, expected %s (the %s component yielded by _iter)"
                                  % (pname, got.replace("R_", ""), want.replace("R_", ""), want.split(".")[0][2:]), loc)
    # fit precedes predict / stores in every iteration
    if fit_nodes:
        IN, _ = g.forward_must(lambda n: n.id in fit_nodes, kill=lambda n: n is header)
        nseen = {}
        for c in astq.calls(fn):
            node = g.node_of(c)
            if node is None or node.id not in in_body or not isinstance(c.func, ast.Attribute):
                continue
            is_pred = c.func.attr == "predict" and _eq(cons.sub(c.func.value, c), "R_strategy")
            is_savefit = c.func.attr == "save_fitted_strategy"
            if is_pred or is_savefit:
                nseen[c.func.attr] = nseen.get(c.func.attr, 0) + 1
                ctx.check(IN[node.id], "R4", "%s:%s%s:after-fit" % (tag, c.func.attr, "" if nseen[c.func.attr] == 1 else "#%d" % nseen[c.func.attr]),
                          "executed only after strategy.fit in the same iteration",
                          "%s can be reached without strategy.fit having run in this iteration" % c.func.attr, ctx.loc(mod, c))


def rule_arity(ctx, repo, roles):
    cls = repo.cls(ORCH + ":Orchestrator")
    classes = [repo.cls(RESULTS + ":HDDResults"), repo.cls(RESULTS + ":RAMResults")]
    for mname, fn in sorted(cls.methods.items()):
        cons_calls = []
        for c in astq.calls(fn):
            if isinstance(c.func, ast.Attribute):
                try:
                    recv = S.resolve_at(fn, c.func.value, c)
                except ValueError:
                    continue
                if astq.is_self_attr(recv, attr="results"):
                    cons_calls.append(c)
        seen = {}
        for c in cons_calls:
            m = c.func.attr
            k = seen[m] = seen.get(m, 0) + 1
            construct = "Orchestrator.%s:call:%s%s" % (mname, m, "" if k == 1 else "#%d" % k)
            probs = []
            for rc in classes:
                h = repo.lookup_method(rc, m)
                if h is None:
                    probs.append("%s has no method %s" % (rc.name, m))
                    continue
                dcls, mfn = h
                b = astq.bind_call(mfn, c, skip_self=True)
                if b is None:
                    probs.append("%s.%s: too many positional arguments or an argument given twice" % (dcls.name, m))
                    continue
                if "*" in b or "**" in b:
                    probs.append(None)
                    continue
                if "!unknown" in b:
                    probs.append("%s.%s has no parameter %s" % (dcls.name, m, ", ".join(b["!unknown"])))
                req = [p for p in astq.all_param_names(mfn, skip_self=True) if p not in astq.param_defaults(mfn)]
                missing = [p for p in req if p not in b]
                if missing:
                    probs.append("%s.%s(%s) is called without %s" % (dcls.name, m, ", ".join(astq.param_names(mfn, skip_self=True)),
                                                                  ", ".join(missing)))
            real = [p for p in probs if p]
            if None in probs and not real:
                ctx.undecided("R4", construct, "star arguments", ctx.loc(cls.module, c))
            else:
                ctx.check(not real, "R4", construct, "matches the signatures of HDDResults and RAMResults",
                          "definite TypeError: " + "; ".join(real), ctx.loc(cls.module, c))


# ------------------------------------------------------------------------------------------------ R5 (rest)
def rule_R5_rest(ctx, repo, flow, cons, reg_pos):
    fn, g, mod = cons.fn, cons.cfg, cons.mod
    tag = "Orchestrator.fit_predict"
    # master file written after the loop on every normal path
    save_nodes = set()
    for call, m in cons.results_calls():
        if m == "save":
            n = g.node_of(call)
            if n is not None:
                save_nodes.add(n.id)
    if cons.loop is not None:
        header = g.node_of(cons.loop.iter)
        in_body, _ = simulate(g, [s for s, lab in header.succ if lab is True], {header.id}, lambda n: None)
        after = {i for i in save_nodes if i not in in_body}
        ctx.check(g.must_pass(lambda n: n.id in after), "R5", tag + ":save-after-loop",
                  "results.save() is executed after the loop on every normal path",
                  "some normal path leaves fit_predict without results.save() after the loop: the registry is never persisted",
                  ctx.loc(mod, fn))
    # the save_* methods register (strategy, dataset) on every path, with the right roles
    pred = name_pred("_append_key")
    ak = repo.func(BASE, "BaseResults._append_key")
    for cname in ("HDDResults", "RAMResults"):
        k = repo.cls(RESULTS + ":" + cname)
        for m in ("save_predictions", "save_fitted_strategy"):
            h = repo.lookup_method(k, m)
            if h is None:
                continue
            dcls, mfn = h
            calls = [c for c in astq.calls(mfn) if self_call(c, "_append_key")]
            if not calls and cname == "RAMResults" and CFG(mfn).exit.id not in CFG(mfn).reachable():
                continue  # not implemented for the in-memory store (always raises)
            c0 = "%s.%s:_append_key" % (cname, m)
            ctx.check(flow.must_call(mfn, pred, dcls.module, k, dcls), "R5", c0, "registers on every path",
                      "some path through %s does not call _append_key: the record is stored but never listed" % m, ctx.loc(dcls.module, mfn))
            for c in calls:
                b = astq.bind_call(ak, c, skip_self=True)
                if b is None:
                    ctx.violation("R5", c0 + ":args", "_append_key call does not match its signature", ctx.loc(dcls.module, c))
                    continue
                env = S.env_at(mfn, c)
                for pname, v in b.items():
                    role = ROLE_OF_PARAM.get(pname)
                    if role is None or not isinstance(v, ast.AST):
                        continue
                    src = classify_source(S.subst(v, env), mfn, reg_pos)
                    ctx.check((src[1] == role) if src[0] == "role" else None, "R5", "%s:%s" % (c0, role),
                              "%s registered from %s" % (ROLE_TEXT[role], src[-1]),
                              "the %s list receives the %s" % (ROLE_TEXT[role], ROLE_TEXT.get(src[1], src[-1]) if src[0] == "role" else src[-1]),
                              ctx.loc(dcls.module, c))
    # _append_key really appends
    for attr, p in (("strategy_names", "strategy_name"), ("dataset_names", "dataset_name")):
        app = [c for c in astq.calls(ak) if isinstance(c.func, ast.Attribute) and c.func.attr in ("append", "add")
               and astq.is_self_attr(c.func.value, attr=attr) and len(c.args) == 1 and isinstance(c.args[0], ast.Name) and c.args[0].id == p]
        good = None
        if app:
            gk = CFG(ak)
            node = gk.node_of(app[0])
            guards = gk.guards_of(node)
            # the only admissible guard: "not already in the list"
            good = all(isinstance(t, ast.Compare) and len(t.ops) == 1 and isinstance(t.ops[0], (ast.NotIn, ast.In))
                       and isinstance(t.ops[0], ast.NotIn) == br and astq.canon(t.left) == p
                       and astq.is_self_attr(t.comparators[0], attr=attr) for t, br in guards)
        ctx.check(good if app else False, "R5", "BaseResults._append_key:" + attr, "appends a new %s to self.%s" % (p, attr),
                  "does not append %s to self.%s unless it is already there" % (p, attr), ctx.loc(repo.module(BASE), ak))
    # master file merges with an existing one
    hb = repo.cls(BASE + ":HDDBaseResults")
    sv = hb.methods.get("save")
    if sv is None:
        ctx.undecided("R5", "HDDBaseResults.save", "method missing", ctx.loc(hb.module, hb.node))
    else:
        m = hb.module

        def ext(c, names):
            sym = repo.resolve_expr(m, c.func)
            return sym is not None and sym.dotted in names

        gs = CFG(sv)
        dumps = [c for c in astq.calls(sv) if ext(c, ("joblib.dump", "pickle.dump"))]
        dump_ids = {gs.node_of(c).id for c in dumps if c.args and isinstance(c.args[0], ast.Name) and c.args[0].id == "self"}
        ctx.check(gs.must_pass(lambda n: n.id in dump_ids), "R5", "HDDBaseResults.save:dump-all-paths",
                  "the registry object is dumped on every path", "some path through save() does not dump the registry", ctx.loc(m, sv))
        merge_by_interpretation(ctx, repo, hb, sv)


class _Store:
    """Model of a results object for the interpreted ``save``: plain attributes, ``path`` fixed."""

    def __init__(self, attrs):
        self.attrs = dict(attrs)

    def m_getattr(self, interp, attr):
        if attr in self.attrs:
            return self.attrs[attr]
        from ._c18_mini import Undecided as U
        raise U("results object has no modelled attribute %r" % attr)

    def m_setattr(self, interp, attr, v):
        self.attrs[attr] = v


def merge_by_interpretation(ctx, repo, hb, sv):
    """HDDBaseResults.save is interpreted (token interpreter of C18) on a registry that partly overlaps the one
    already on disk: what is dumped must list every own and every previously saved name exactly once, per list."""
    from ._c18_mini import Interp, PyRaise, Undecided as U
    m = hb.module
    loc = ctx.loc(m, sv)
    own = {"strategy_names": ["s_new", "s_both", "x_shared"], "dataset_names": ["d_new", "d_both", "x_shared"]}
    old = {"strategy_names": ["s_both", "s_old"], "dataset_names": ["d_both", "d_old", "x_shared", "d_old2", "d_old3"]}  # lists of different lengths
    for exists in (True, False):
        dumped = []
        me = _Instance(repo, hb, dict({k: list(v) for k, v in own.items()}, path="/res", _path="/res", cv=None))
        prev = _Store({k: list(v) for k, v in old.items()})

        def _dump(interp, args, kwargs, node):
            obj = args[0]
            dumped.append({k: list(obj.attrs.get(k, [])) for k in own} if isinstance(obj, _Store) else None)

        ext = {
            "os.path.join": lambda i, a, k, n: "/".join(a),
            "os.path.isfile": lambda i, a, k, n: exists,
            "os.path.exists": lambda i, a, k, n: exists,
            "joblib.dump": _dump, "pickle.dump": _dump,
            "joblib.load": lambda i, a, k, n: prev, "pickle.load": lambda i, a, k, n: prev,
        }
        tag = "HDDBaseResults.save:%s" % ("merge" if exists else "first-save")
        try:
            Interp(repo, ext).call_function(m, sv, [me])
        except U as e:
            ctx.undecided("R5", tag, str(e), loc)
            continue
        except PyRaise as e:
            ctx.violation("R5", tag, "save() raises %s when the master file %s" % (e.exc, "exists" if exists else "does not exist"), loc)
            continue
        if len(dumped) != 1 or dumped[0] is None:
            ctx.check(False if not dumped else None, "R5", tag, "", "save() dumps %d objects (expected: the registry once)" % len(dumped), loc)
            continue
        for attr in own:
            got = dumped[0][attr]
            want = set(own[attr]) | (set(old[attr]) if exists else set())
            c0 = "%s:%s" % (tag, attr)
            missing, extra = sorted(want - set(got)), sorted(set(got) - want)
            dup = sorted({x for x in got if got.count(x) > 1})
            if missing or extra:
                ctx.violation("R5", c0, "with own names %s and saved names %s the dumped %s is %s: %s" % (
                    own[attr], old[attr] if exists else [], attr, got,
                    "; ".join(x for x in ("lost: %s" % missing if missing else "", "foreign: %s" % extra if extra else "") if x)), loc)
            elif dup:
                ctx.violation("R5", c0, "with own names %s and saved names %s the dumped %s is %s: %s listed more than once, so "
                              "load_predictions yields those records repeatedly" % (own[attr], old[attr] if exists else [], attr, got, dup), loc)
            else:
                ctx.ok("R5", c0, "dumped %s = own ∪ previously saved names, each once" % attr, loc)


EMBEDDED_DELETER = """
import os
import shutil
from os import remove as rm
from pathlib import Path
def cleanup(path):
    try:
        work(path)
    except Exception:
        os.remove(path)
        raise
def a(p):
    shutil.rmtree(p)
def b(p):
    rm(p)
def c(p):
    Path(p).unlink()
def harmless(p):
    os.path.isfile(p)
"""


def deletions_in(repo, module):
    """Calls that delete / move / truncate files; imports anywhere in the module (also function-local) are honoured."""
    local = {}
    for n in ast.walk(module.tree):
        if isinstance(n, ast.Import):
            for a in n.names:
                local[a.asname or a.name.split(".")[0]] = a.name if a.asname else a.name.split(".")[0]
        elif isinstance(n, ast.ImportFrom) and n.level == 0 and n.module:
            for a in n.names:
                local[a.asname or a.name] = n.module + "." + a.name
    out = []
    for c in ast.walk(module.tree):
        if not isinstance(c, ast.Call):
            continue
        sym = repo.resolve_expr(module, c.func)
        d = sym.dotted if sym is not None else None
        if d is None:
            dn = dotted(c.func)
            if dn and dn.split(".")[0] in local:
                d = ".".join([local[dn.split(".")[0]]] + dn.split(".")[1:])
        if d in DELETERS:
            out.append((c, d))
        elif isinstance(c.func, ast.Attribute) and c.func.attr in DELETER_METHODS and (sym is None or sym.kind == "ext"):
            out.append((c, "." + c.func.attr))
    return out


def rule_no_deletion(ctx, repo):
    emb = Module("sktime.benchmarking._c19_embedded", "sktime/benchmarking/_c19_embedded.py", EMBEDDED_DELETER)
    found = sorted(d for _, d in deletions_in(repo, emb))
    ctx.check(found == [".unlink", "os.remove", "os.remove", "shutil.rmtree"], "R5", "embedded-positive-example:deletion",
              "the deletion detector finds the four seeded deletions of the embedded example and nothing else",
              "deletion detector self-check failed: %s" % found, "embedded")
    if found != [".unlink", "os.remove", "os.remove", "shutil.rmtree"]:
        # fail closed: the detector is broken, do not report HOLDS for the real modules
        for rel in sorted(repo.by_relpath):
            if rel.startswith("sktime/benchmarking/") and "/tests/" not in rel:
                ctx.undecided("R5", rel + ":no-deletion", "detector self-check failed", rel)
        return
    for rel in sorted(repo.by_relpath):
        if not rel.startswith("sktime/benchmarking/") or "/tests/" in rel:
            continue
        mod = repo.by_relpath[rel]
        dels = deletions_in(repo, mod)
        if dels:
            for c, d in dels:
                ctx.violation("R5", "%s:no-deletion:%s" % (rel, d), "%s(...) removes or replaces files of the result store; completed records "
                              "must survive failures and re-runs" % d, ctx.loc(mod, c))
        else:
            ctx.ok("R5", rel + ":no-deletion", "no call deletes, moves or truncates files", rel)


# ------------------------------------------------------------------------------- fold generation / feature selection
SPLITMOD = "sktime/series_as_features/model_selection/_split.py"


def rule_presplit(ctx, repo):
    """R4: PresplitFilesCV.split is interpreted (token interpreter) on a frame whose rows are *not* ordered train-first:
    the predefined fold must consist of the positions labelled "train" / "test", whatever their order."""
    from ._c18_mini import Interp, PyRaise, Undecided as U
    from . import _c18_models as M
    cls = repo.cls(SPLITMOD + ":PresplitFilesCV")
    fn = repo.func(SPLITMOD, "PresplitFilesCV.split")
    loc = ctx.loc(cls.module, fn)
    labels = ["test", "train", "train", "test", "train", "test", "test"]
    data = M.FrameV({"dim_0": ["x%d" % i for i in range(len(labels))], "target": ["t%d" % i for i in range(len(labels))]}, index=labels)
    tag = "PresplitFilesCV.split"
    try:
        out = Interp(repo, M.make_externals(M.VFS()), M.to_float, M.str_hook).call_function(cls.module, fn, [_Store({"cv": None}), data])
    except U as e:
        ctx.undecided("R4", tag, str(e), loc)
        return
    except PyRaise as e:
        ctx.violation("R4", tag, "raises %s on a frame indexed by 'train' / 'test' labels" % (e.exc,), loc)
        return
    if not isinstance(out, list) or len(out) != 1:
        ctx.check(None if not isinstance(out, list) else False, "R4", tag + ":one-predefined-fold", "",
                  "without an inner cv the iterator yields %s folds, expected exactly the predefined one"
                  % (len(out) if isinstance(out, list) else "?"), loc)
        return
    ctx.ok("R4", tag + ":one-predefined-fold", "exactly the predefined fold is yielded when no inner cv is given", loc)
    fold = out[0]
    if not (isinstance(fold, tuple) and len(fold) == 2 and all(hasattr(x, "data") for x in fold)):
        ctx.undecided("R4", tag + ":positions", "yielded value %r is not a (train, test) pair of position arrays" % (fold,), loc)
        return
    # with an inner cv iterator the predefined fold still comes first, followed by the iterator's folds
    class _CV:
        def m_getattr(self, interp, attr):
            if attr in ("split", "get_n_splits"):
                return M.BoundExt(self, attr)
            raise U("cv.%s" % attr)

        def m_method(self, interp, name, args, kwargs, node):
            return [("«cv_train»", "«cv_test»")] if name == "split" else 1

    try:
        out2 = Interp(repo, M.make_externals(M.VFS()), M.to_float, M.str_hook).call_function(cls.module, fn, [_Store({"cv": _CV()}), data])
        ok2 = isinstance(out2, list) and len(out2) == 2 and isinstance(out2[0], tuple) and len(out2[0]) == 2 \
            and all(hasattr(x, "data") for x in out2[0]) and list(out2[0][0].data) == [i for i, l in enumerate(labels) if l == "train"] \
            and list(out2[0][1].data) == [i for i, l in enumerate(labels) if l == "test"] and tuple(out2[1]) == ("«cv_train»", "«cv_test»")
        ctx.check(ok2, "R4", tag + ":with-inner-cv", "predefined fold first, then the folds of the inner cv iterator",
                  "with an inner cv iterator that has one fold the generator yields %r, expected the predefined (train, test) fold "
                  "followed by that fold" % (out2,), loc)
    except U as e:
        ctx.undecided("R4", tag + ":with-inner-cv", str(e), loc)
    except PyRaise as e:
        ctx.violation("R4", tag + ":with-inner-cv", "raises %s when an inner cv iterator is given" % (e.exc,), loc)
    for part, got in (("train", fold[0]), ("test", fold[1])):
        want = [i for i, l in enumerate(labels) if l == part]
        ctx.check(list(got.data) == want, "R4", "%s:%s-positions" % (tag, part),
                  "%s positions = rows labelled %r (rows in arbitrary order)" % (part, part),
                  "for row labels %s the %s positions are %s, but the rows labelled %r are %s: the fold is cut by count / order, "
                  "not by the labels that define the pre-split" % (labels, part, list(got.data), part, want), loc)


def rule_splitters_stateless(ctx, repo):
    """R4 (H1/H3): the fold generators are functions of their configuration and the data: ``split`` / ``get_n_splits`` must
    not overwrite what the constructor stored -- otherwise the second call (next data set, next strategy, resumed run)
    produces other folds than the first."""
    for cname in ("PresplitFilesCV", "SingleSplit"):
        cls = repo.cls(SPLITMOD + ":" + cname)
        init = cls.methods.get("__init__")
        config = {a for a, _, _ in astq.self_attr_stores(init)} if init else set()
        for mname in ("split", "get_n_splits"):
            fn = cls.methods.get(mname)
            if fn is None:
                continue
            c = "%s.%s:stateless" % (cname, mname)
            loc = ctx.loc(cls.module, fn)
            stores = astq.self_attr_stores(fn) if not cls.is_static(mname) else []
            inplace = [n for n in astq.walk_no_nested(fn) if isinstance(n, ast.Subscript) and isinstance(n.ctx, (ast.Store, ast.Del))
                       and astq.is_self_attr(n.value)]
            bad = sorted({a for a, _, _ in stores if a in config})
            other = sorted({a for a, _, _ in stores if a not in config} | {n.value.attr for n in inplace})
            if bad:
                st = [x for x in stores if x[0] == bad[0]][0]
                ctx.violation("R4", c, "%s.%s overwrites self.%s, which the constructor set (%s): the configuration of the fold generator "
                              "changes with the first call, so calling it again (next strategy / data set, or a resumed run) yields other "
                              "folds -- history: split twice on the same object" % (
                                  cname, mname, bad[0], astq.canon(st[1])[:60] if st[1] is not None else "in place"), ctx.loc(cls.module, st[2]))
            elif other:
                ctx.undecided("R4", c, "%s.%s keeps state in self.%s across calls" % (cname, mname, ", self.".join(other)), loc)
            else:
                ctx.ok("R4", c, "no attribute of the fold generator is written while splitting", loc)


class _Bound:
    def __init__(self, inst, module, fn):
        self.inst, self.module, self.fn = inst, module, fn

    def m_call(self, interp, args, kwargs, node):
        return interp.call_function(self.module, self.fn, [self.inst] + list(args), kwargs, 1)


class _Instance(_Store):
    """Instance of a repo class for the token interpreter: stored attributes, properties and methods of its MRO."""

    def __init__(self, repo, cls, attrs):
        _Store.__init__(self, attrs)
        self.repo, self.cls = repo, cls

    def m_getattr(self, interp, attr):
        if attr in self.attrs:
            return self.attrs[attr]
        for k in self.repo.mro(self.cls):
            if isinstance(k, str):
                continue
            g = k.properties.get(attr, {}).get("getter")
            if g is not None:
                return interp.call_function(k.module, g, [self], {}, 1)
            if attr in k.methods:
                if k.is_static(attr):
                    from ._c18_mini import Func
                    return Func(k.module, k.methods[attr], raw=True)
                return _Bound(self, k.module, k.methods[attr])
        from ._c18_mini import Undecided as U
        raise U("%s object has no modelled attribute %r" % (self.cls.name, attr))

    def m_isinstance(self, interp, c):
        name = getattr(c, "name", "")
        return any((not isinstance(k, str)) and name.split(".")[-1] == k.name for k in self.repo.mro(self.cls))


def rule_default_features(ctx, repo):
    """R4: BaseTask.set_metadata is interpreted for a task without an explicit feature list: the default features must be
    the data's columns without the target, *in the data's column order* (what _fit / predict hand the estimator)."""
    from ._c18_mini import Interp, PyRaise, Undecided as U
    from . import _c18_models as M
    TASKS = "sktime/benchmarking/tasks.py"
    cls = repo.cls(TASKS + ":TSCTask")
    hit = repo.lookup_method(cls, "set_metadata")
    c = "BaseTask.set_metadata:default-features"
    if hit is None:
        ctx.undecided("R4", c, "set_metadata missing", TASKS)
        return
    kcls, fn = hit
    loc = ctx.loc(kcls.module, fn)
    cols = ["dim_b", "target", "dim_a", "dim_c"]  # deliberately not in lexicographic order, target in the middle
    data = M.FrameV({k: ["%s%d" % (k, i) for i in range(3)] for k in cols})
    task = _Instance(repo, cls, {"_target": "target", "_features": None, "_metadata": None})
    try:
        Interp(repo, M.make_externals(M.VFS()), M.to_float, M.str_hook).call_function(kcls.module, fn, [task, data])
    except U as e:
        ctx.undecided("R4", c, str(e), loc)
        task.attrs["_features"] = "?"
    except PyRaise as e:
        ctx.violation("R4", c, "set_metadata raises %s for a task without explicit features" % (e.exc,), loc)
        task.attrs["_features"] = "?"
    # a task with an explicit feature list keeps exactly that list
    c2 = "BaseTask.set_metadata:explicit-features"
    task2 = _Instance(repo, cls, {"_target": "target", "_features": M.IndexV(["dim_a"]), "_metadata": None})
    try:
        Interp(repo, M.make_externals(M.VFS()), M.to_float, M.str_hook).call_function(kcls.module, fn, [task2, data])
        got2 = task2.attrs.get("_features")
        got2 = list(got2.labels) if isinstance(got2, M.IndexV) else got2
        ctx.check(got2 == ["dim_a"], "R4", c2, "an explicit feature list is kept as given",
                  "a task created with features ['dim_a'] has features %s after set_metadata: the estimator is fitted on other "
                  "columns than the task specifies" % (got2,), loc)
    except U as e:
        ctx.undecided("R4", c2, str(e), loc)
    except PyRaise as e:
        ctx.violation("R4", c2, "set_metadata raises %s for a task with explicit features ['dim_a']" % (e.exc,), loc)
    got = task.attrs.get("_features")
    got = list(got.labels) if isinstance(got, M.IndexV) else (list(got) if isinstance(got, (list, tuple)) else got)
    want = [k for k in cols if k != "target"]
    if got == "?":
        return
    if got == want:
        ctx.ok("R4", c, "default features = data columns without the target, in data order", loc)
    elif isinstance(got, list) and sorted(got) == sorted(want):
        ctx.violation("R4", c, "for data columns %s the default features are %s: the estimator is fitted and asked to predict on "
                      "column-permuted data (expected %s, the data's own order)" % (cols, got, want), loc)
    else:
        ctx.violation("R4", c, "for data columns %s and target 'target' the default features are %s, expected %s" % (cols, got, want), loc)


def rule_store_sinks(ctx, repo):
    """R3: what the existence checks and the stores rely on.
    * RAMResults never claims that a record exists unless it consults its store (a constant True makes every fold be skipped);
    * HDDResults.save_* really write to the key they register (to_csv(key) / strategy.save(key)) on every path;
    * BaseStrategy.save dumps the strategy itself to the given path;
    * the generated key, interpreted with real path-join semantics, lies under the results path and contains all four components."""
    from ._c18_mini import Interp, PyRaise, Undecided as U
    import posixpath
    ram = repo.cls(RESULTS + ":RAMResults")
    hdd = repo.cls(RESULTS + ":HDDResults")
    for m in ("check_predictions_exist", "check_fitted_strategy_exists"):
        h = repo.lookup_method(ram, m)
        if h is None:
            continue
        fn = h[1]
        c = "RAMResults.%s:never-claims-unstored" % m
        rets = astq.returns(fn)
        consts = [r.value.value for r in rets if isinstance(r.value, ast.Constant)]
        reads_store = any(astq.is_self_attr(n) and n.attr == "results" for n in ast.walk(fn))
        if rets and len(consts) == len(rets):
            ctx.check(not any(v is True for v in consts), "R3", c, "answers False (in-memory results are always recomputed)",
                      "answers True without looking at the store: every fold is skipped and no record is ever produced", ctx.loc(h[0].module, fn))
        elif reads_store:
            ctx.ok("R3", c, "consults self.results", ctx.loc(h[0].module, fn))
        else:
            ctx.undecided("R3", c, "return value not interpretable", ctx.loc(h[0].module, fn))
    flow = Flow(repo)
    for m, sink in (("save_predictions", "to_csv"), ("save_fitted_strategy", "save")):
        h = repo.lookup_method(hdd, m)
        if h is None:
            continue
        dcls, fn = h
        c = "HDDResults.%s:writes-key" % m
        sinks = []
        for call in astq.calls(fn):
            if isinstance(call.func, ast.Attribute) and call.func.attr == sink and not self_call(call):
                args = list(call.args) + [k.value for k in call.keywords]
                if any(mentions_key(repo, hdd, fn, S.resolve_at(fn, a, call)) for a in args):
                    sinks.append(call)
        g = CFG(fn)
        ids = {g.node_of(x).id for x in sinks if g.node_of(x) is not None}
        ctx.check(bool(ids) and g.must_pass(lambda n: n.id in ids), "R3", c, "writes the record to the generated key on every path (.%s(key))" % sink,
                  "%s registers the record but does not write it to the generated key on every path (no .%s(<key>) call): the "
                  "existence check keeps answering False / the record cannot be loaded" % (m, sink), ctx.loc(dcls.module, fn))
    st = repo.cls(STRAT + ":BaseStrategy")
    sv = st.methods.get("save")
    if sv is not None:
        c = "BaseStrategy.save:dumps-self-to-path"
        params = astq.param_names(sv, skip_self=True)
        dumps = [x for x in astq.calls(sv) if (repo.resolve_expr(st.module, x.func) or None) is not None
                 and repo.resolve_expr(st.module, x.func).dotted in ("joblib.dump", "pickle.dump")]
        ok = None
        if len(dumps) == 1 and params:
            a = list(dumps[0].args) + [None, None]
            kw = {k.arg: k.value for k in dumps[0].keywords}
            val = a[0] if a[0] is not None else kw.get("value")
            fname = a[1] if a[1] is not None else kw.get("filename")
            ok = isinstance(val, ast.Name) and val.id == "self" and isinstance(fname, ast.Name) and fname.id == params[0]
        elif not dumps:
            ok = False
        ctx.check(ok, "R3", c, "dump(self, path)", "save(path) does not dump the strategy itself to the given path", ctx.loc(st.module, sv))
    # the key as a path
    h = repo.lookup_method(hdd, "_generate_key")
    if h is not None:
        kcls, keyfn = h
        c = "HDDResults._generate_key:path"
        toks = {"S": "«sname»", "D": "«dname»", "F": "«fold»", "P": "«part»"}
        made = []
        ext = {"os.path.join": lambda i, a, k, n: posixpath.join(*a), "os.path.exists": lambda i, a, k, n: False,
               "os.makedirs": lambda i, a, k, n: made.append(a[0])}
        me = _Instance(repo, hdd, {"_path": "/results", "path": "/results"})
        kwargs = {p: toks[ROLE_OF_PARAM[p]] for p in astq.param_names(keyfn, skip_self=True) if p in ROLE_OF_PARAM}
        try:
            key = Interp(repo, ext).call_function(kcls.module, keyfn, [me], kwargs)
        except U as e:
            ctx.undecided("R3", c, str(e), ctx.loc(kcls.module, keyfn))
            key = None
        except PyRaise as e:
            ctx.violation("R3", c, "_generate_key raises %s" % (e.exc,), ctx.loc(kcls.module, keyfn))
            key = None
        if key is not None:
            missing = [ROLE_TEXT[r] for r, t in toks.items() if not isinstance(key, str) or t not in key]
            under = isinstance(key, str) and key.startswith("/results/")
            ctx.check(under and not missing, "R3", c, "key %s lies under the results path and names all four components" % key,
                      "for results path /results the key is %r: %s" % (key, "; ".join(x for x in (
                          "it does not lie under the results path" if not under else "",
                          "it does not contain the %s (os.path.join drops everything before an absolute component)" % ", ".join(missing) if missing else "") if x)),
                      ctx.loc(kcls.module, keyfn))
            ctx.check(bool(made) and all(isinstance(d, str) and key.startswith(d.rstrip("/") + "/") for d in made) if isinstance(key, str) else None,
                      "R3", c + ":directory", "the key's directory is created when missing",
                      "the directory of the key is not created when it does not exist (created: %s)" % made, ctx.loc(kcls.module, keyfn))


def rule_single_split(ctx, repo):
    """R4: SingleSplit.split is interpreted: the positions handed to train_test_split are 0..n_rows-1 of the data, the
    configured options are forwarded unchanged, and exactly that one (train, test) pair is yielded."""
    from ._c18_mini import Interp, PyRaise, Undecided as U
    from . import _c18_models as M
    cls = repo.cls(SPLITMOD + ":SingleSplit")
    fn = cls.methods.get("split")
    init = cls.methods.get("__init__")
    tag = "SingleSplit.split"
    if fn is None or init is None:
        ctx.undecided("R4", tag, "method missing", ctx.loc(cls.module, cls.node))
        return
    loc = ctx.loc(cls.module, fn)
    opts = {"test_size": "«test_size»", "train_size": "«train_size»", "random_state": "«random_state»", "shuffle": "«shuffle»",
            "stratify": "«stratify»"}
    me = _Instance(repo, cls, {})
    seen = []

    def tts(interp, args, kwargs, node):
        seen.append((args, kwargs))
        return ("«train»", "«test»")

    ext = dict(M.make_externals(M.VFS()))
    ext["sklearn.model_selection.train_test_split"] = tts
    ext["sklearn.model_selection._split.train_test_split"] = tts
    # 5 rows, 3 columns, row labels that are not the positions
    data = M.FrameV({"a": list("12345"), "b": list("12345"), "target": list("12345")}, index=[10, 11, 12, 13, 14])
    try:
        it = Interp(repo, ext, M.to_float, M.str_hook)
        it.call_function(cls.module, init, [me], {k: v for k, v in opts.items() if k in astq.param_names(init, skip_self=True)})
        out = it.call_function(cls.module, fn, [me, data])
    except U as e:
        ctx.undecided("R4", tag, str(e), loc)
        return
    except PyRaise as e:
        ctx.violation("R4", tag, "raises %s on a 5-row frame" % (e.exc,), loc)
        return
    ctx.check(isinstance(out, list) and out == [("«train»", "«test»")] and len(seen) == 1, "R4", tag + ":one-fold",
              "yields exactly the one (train, test) pair train_test_split returns",
              "does not yield exactly the (train, test) pair of one train_test_split call: %r" % (out,), loc)
    if len(seen) == 1:
        args, kwargs = seen[0]
        idx = args[0] if args else None
        ctx.check(isinstance(idx, M.ArrV) and idx.data == list(range(5)) and len(args) == 1, "R4", tag + ":positions",
                  "splits the positions 0..n_rows-1 of the data",
                  "for a frame of 5 rows and 3 columns the positions handed to train_test_split are %r, expected 0..4" % (getattr(idx, "data", idx),), loc)
        wrong = sorted(k for k, v in opts.items() if kwargs.get(k) != v)
        ctx.check(not wrong, "R4", tag + ":options", "test_size / train_size / random_state / shuffle / stratify forwarded as configured",
                  "the configured %s is not what train_test_split receives (%s)" % (", ".join(wrong), ", ".join("%s=%r" % (k, kwargs.get(k)) for k in wrong)), loc)


# ------------------------------------------------------------------- contracts the orchestration rules rely on
LOSSY_CALLS = {"os.path.splitext", "os.path.basename", "os.path.dirname", "os.path.normpath", "os.path.split", "hash", "len", "repr"}


def returns_param_unchanged(repo, module, fn, pname):
    """Does ``fn`` return its parameter ``pname`` itself on every return?  ('yes', '') | ('no', witness) | ('unknown', why)"""
    rets = astq.returns(fn)
    if not rets or any(r.value is None for r in rets):
        return ("no", "%s returns None on some path" % fn.name)
    g = CFG(fn)
    for r in rets:
        if not (isinstance(r.value, ast.Name) and r.value.id == pname):
            v = S.resolve_at(fn, r.value, r)
            if isinstance(v, ast.Name) and v.id == pname:
                continue
            return ("unknown" if S.is_opaque(v) else "no", "%s returns %s" % (fn.name, astq.canon(r.value)[:60]))
    rebinds = [n for n in astq.walk_no_nested(fn) if isinstance(n, (ast.Assign, ast.AugAssign, ast.AnnAssign))
               and any(isinstance(t, ast.Name) and t.id == pname for t in ast.walk(n) if isinstance(getattr(t, "ctx", None), ast.Store))]
    for a in rebinds:
        node = g.node_of(a)
        if node is not None and g.may_reach_after(node, lambda n: n.kind == "return"):
            val = getattr(a, "value", None)
            return ("no", "%s rebinds %s to %s (line %s) before returning it" % (fn.name, pname, astq.canon(val)[:60] if val is not None else "?", a.lineno))
    return ("yes", "")


def attr_from_param(repo, cls, attr, pname):
    """How ``cls.__init__`` derives ``self.<attr>`` from its parameter ``pname``."""
    hit = repo.lookup_method(cls, "__init__")
    if hit is None:
        return ("unknown", "no constructor"), None
    k, init = hit
    st = [(v, n) for a, v, n in astq.self_attr_stores(init) if a == attr]
    if len(st) != 1 or st[0][0] is None:
        return ("unknown", "self.%s stored %d times in %s.__init__" % (attr, len(st), k.name)), init
    val = S.resolve_at(init, st[0][0], st[0][1])

    def classify(e):
        if isinstance(e, ast.Name) and e.id == pname:
            return ("yes", "")
        if isinstance(e, ast.IfExp):
            t = e.test
            none_test = isinstance(t, ast.Compare) and isinstance(t.left, ast.Name) and t.left.id == pname and len(t.ops) == 1 \
                and isinstance(t.comparators[0], ast.Constant) and t.comparators[0].value is None
            if none_test:
                given = e.orelse if isinstance(t.ops[0], ast.Is) else e.body
                return classify(given)
        if isinstance(e, ast.Call):
            uses = [a for a in list(e.args) + [kw.value for kw in e.keywords] if any(isinstance(n, ast.Name) and n.id == pname for n in ast.walk(a))]
            if self_call(e) and len(uses) == 1 and isinstance(uses[0], ast.Name):
                h = repo.lookup_method(cls, e.func.attr)
                if h is not None:
                    b = astq.bind_call(h[1], e, skip_self=not h[0].is_static(e.func.attr)) or {}
                    formal = [p for p, v in b.items() if v is uses[0]]
                    if formal:
                        return returns_param_unchanged(repo, h[0].module, h[1], formal[0])
            sym = repo.resolve_expr(k.module, e.func)
            full = sym.dotted if sym is not None else dotted(e.func)
            if isinstance(e.func, ast.Attribute) and isinstance(e.func.value, ast.Name) and e.func.value.id == pname:
                return ("no" if e.func.attr in LOSSY_STR_METHODS else "unknown", "%s.%s(...)" % (pname, e.func.attr))
            if full in LOSSY_CALLS:
                return ("no", "%s(%s)" % (full, pname))
            return ("unknown", astq.canon(e)[:60])
        if isinstance(e, ast.Subscript):
            inner = classify(e.value)
            if inner[0] == "no" or (isinstance(e.value, ast.Name) and e.value.id == pname):
                return ("no", astq.canon(e)[:60])
            if isinstance(e.value, ast.Call):
                return classify(e.value) if classify(e.value)[0] == "no" else ("unknown", astq.canon(e)[:60])
        return ("unknown", astq.canon(e)[:60])

    return classify(val), st[0][1]


def rule_identity_contracts(ctx, repo):
    """The orchestration rules identify records by ``strategy.name`` / ``dataset.name`` and compare with "a clone of the
    strategy's estimator": decided here from the sources -- the properties return what the constructor was given."""
    jobs = [("R3", BASE + ":BaseDataset", "name", "_name", "name", "two data sets whose names differ only in what is cut off share one record key"),
            ("R3", STRAT + ":BaseStrategy", "name", "_name", "name", "two strategies whose names differ only in what is cut off share one record key"),
            ("R4", STRAT + ":BaseStrategy", "estimator", "_estimator", "estimator", "the strategy fits and predicts with another object than the estimator it was given")]
    for rule, q, prop, attr, pname, effect in jobs:
        cls = repo.cls(q)
        c = "%s.%s:is-constructor-argument" % (cls.name, prop)
        getter = cls.properties.get(prop, {}).get("getter")
        loc = ctx.loc(cls.module, cls.node)
        if getter is None:
            ctx.undecided(rule, c, "no property %s" % prop, loc)
            continue
        rets = astq.returns(getter)
        if not (len(rets) == 1 and astq.is_self_attr(rets[0].value, attr=attr)):
            ctx.undecided(rule, c, "property %s does not simply return self.%s" % (prop, attr), ctx.loc(cls.module, getter))
            continue
        (verdict, why), node = attr_from_param(repo, cls, attr, pname)
        loc = ctx.loc(cls.module, node) if node is not None else loc
        if verdict == "yes":
            ctx.ok(rule, c, "%s.%s returns the constructor argument %s unchanged" % (cls.name, prop, pname), loc)
        elif verdict == "no":
            ctx.violation(rule, c, "%s.%s is not the %s the object was constructed with: %s -- %s" % (cls.name, prop, pname, why, effect), loc)
        else:
            ctx.undecided(rule, c, "cannot establish that %s.%s is the constructor argument: %s" % (cls.name, prop, why), loc)
    # subclasses hand their own name on unchanged
    base = repo.cls(BASE + ":BaseDataset")
    for k in repo.subclasses(base):
        init = k.methods.get("__init__")
        if init is None or "name" not in astq.param_names(init, skip_self=True):
            continue
        c = "%s.__init__:name-forwarded" % k.name
        sup = [x for x in astq.calls(init) if isinstance(x.func, ast.Attribute) and x.func.attr == "__init__"
               and isinstance(x.func.value, ast.Call) and dotted(x.func.value.func) == "super"]
        hit = repo.lookup_method(k, "__init__", after=k)
        if len(sup) != 1 or hit is None:
            ctx.undecided("R3", c, "expected one super().__init__ call", ctx.loc(k.module, init))
            continue
        b = astq.bind_call(hit[1], sup[0], skip_self=True) or {}
        v = b.get("name")
        ok = isinstance(v, ast.Name) and v.id == "name" and not astq.assigned_in(init, "name")
        ctx.check(ok if v is not None else None, "R3", c, "passes its name argument on unchanged",
                  "passes %s as the data set's name instead of its own name argument" % (astq.canon(v) if v is not None else "?"),
                  ctx.loc(k.module, sup[0]))


def selection_kind(expr, data_param):
    """How a strategy method selects the estimator's input columns from its ``data`` parameter."""
    m = S.match("H_D[H_E]", expr)
    if m and isinstance(m["H_D"], ast.Name) and m["H_D"].id == data_param:
        return ("select", astq.canon(m["H_E"]))
    m = S.match("H_D.loc[H_R, H_E]", expr)
    if m and isinstance(m["H_D"], ast.Name) and m["H_D"].id == data_param and isinstance(m["H_R"], ast.Slice) \
            and m["H_R"].lower is None and m["H_R"].upper is None:
        return ("select", astq.canon(m["H_E"]))
    if isinstance(expr, ast.Call) and isinstance(expr.func, ast.Attribute) and expr.func.attr == "drop" \
            and isinstance(expr.func.value, ast.Name) and expr.func.value.id == data_param:
        kw = {k.arg: k.value for k in expr.keywords}
        cols = kw.get("columns") or (expr.args[0] if expr.args else None)
        return ("drop", astq.canon(cols) if cols is not None else "?")
    if isinstance(expr, ast.Name) and expr.id == data_param:
        return ("all", "")
    return ("unknown", astq.canon(expr))


def rule_feature_selection(ctx, repo):
    """R4: the supervised strategy hands the estimator the same feature columns in fit and in predict, and the
    task's target as y (sibling agreement; column sets themselves are data)."""
    cls = repo.cls(STRAT + ":BaseSupervisedLearningStrategy")
    mod = cls.module
    sel = {}
    for mname, call_attr in (("_fit", "fit"), ("predict", "predict")):
        h = repo.lookup_method(cls, mname)
        if h is None:
            ctx.undecided("R4", "BaseSupervisedLearningStrategy.%s" % mname, "method missing", ctx.loc(mod, cls.node))
            return
        fn = h[1]
        params = astq.param_names(fn, skip_self=True)
        calls = [c for c in astq.calls(fn) if isinstance(c.func, ast.Attribute) and c.func.attr == call_attr
                 and astq.canon(S.resolve_at(fn, c.func.value, c)) in ("self.estimator", "self._estimator")]
        if len(calls) != 1 or not params or not calls[0].args:
            ctx.undecided("R4", "BaseSupervisedLearningStrategy.%s:estimator-call" % mname,
                          "expected one self.estimator.%s(X, ...) call" % call_attr, ctx.loc(h[0].module, fn))
            return
        c = calls[0]
        sel[mname] = (selection_kind(S.resolve_at(fn, c.args[0], c), params[0]), c, fn, params[0])
        if mname == "_fit":
            yexpr = c.args[1] if len(c.args) > 1 else {k.arg: k.value for k in c.keywords}.get("y")
            yk = selection_kind(S.resolve_at(fn, yexpr, c), params[0]) if yexpr is not None else ("unknown", "missing")
            ctx.check(True if yk == ("select", "self._task.target") else (None if yk[0] == "unknown" else False), "R4",
                      "BaseSupervisedLearningStrategy._fit:target", "y = the task's target column",
                      "the estimator is fitted on y = %s %s, not on the task's target column" % yk, ctx.loc(h[0].module, c))
    (kf, cf, ffn, _), (kp, cp, pfn, _) = sel["_fit"], sel["predict"]
    c0 = "BaseSupervisedLearningStrategy:features:fit-vs-predict"
    loc = ctx.loc(mod, cp)
    if "unknown" in (kf[0], kp[0]):
        ctx.undecided("R4", c0, "column selection not recognised: fit uses %s %s, predict uses %s %s" % (kf + kp), loc)
    else:
        ctx.check(kf == kp, "R4", c0, "fit and predict hand the estimator the same columns (%s %s)" % kf,
                  "fit hands the estimator the columns [%s %s] but predict hands it [%s %s]: for a task with an explicit feature list "
                  "(or extra columns in the data) the estimator predicts on other columns than it was fitted on" % (kf + kp), loc)


# ------------------------------------------------------------------------------------------------ entry point
def run(ctx):
    repo = ctx.repo
    flow = Flow(repo)
    ctx.explain("C19: (R1) the loop body of Orchestrator.fit_predict is executed abstractly on every admissible truth assignment of "
                "the option flags and existence checks (atoms identified by the storage key they probe) and the fold is fitted exactly "
                "when some requested record is missing or to be overwritten; (R2) every store executes exactly when its own record is "
                "needed and consults the existence check with the same key; (R3) save/check/load of HDDResults and RAMResults build "
                "the key with the same function, roles and suffix, the key depends on all four components, stored fields are read "
                "back under their own name; (R4) fresh clone per fold inside the innermost loop, full product, provenance of "
                "index / y_true / y_pred / fit data, call arities against both results classes; (R5) every loop path registers "
                "(strategy, dataset), results.save() after the loop, master file merged, nothing in sktime/benchmarking deletes files.")
    ctx.assume("sklearn.base.clone returns a new unfitted estimator with the same parameters; cv.split yields (train, test) position arrays")
    ctx.assume("option flags and the results of the existence checks do not change within one loop iteration; strategy / dataset names "
               "contain no path separators")
    ctx.assume("pandas DataFrame.to_csv(header=True) / read_csv(header=0) round-trip column names; os.path.isfile reports file existence")
    templates = rule_R3(ctx, repo)
    _, _, reg_pos = registry_roles(repo)
    roles = analyse_iter(ctx, repo)
    if roles is None:
        for r in ("R1", "R2", "R5"):
            ctx.undecided(r, "Orchestrator._iter", "producer not interpretable, consumers cannot be analysed", ORCH)
    else:
        cons = analyse_fit_predict(ctx, repo, flow, roles)
        consumer_R4(ctx, repo, cons)
        fit_cons = analyse_fit_predict(ctx, repo, flow, roles, method="fit", FLAGS=FIT_FLAGS, registry=False)
        consumer_R4(ctx, repo, fit_cons)
        rule_R5_rest(ctx, repo, flow, cons, reg_pos)
    rule_arity(ctx, repo, roles)
    rule_presplit(ctx, repo)
    rule_splitters_stateless(ctx, repo)
    rule_feature_selection(ctx, repo)
    rule_default_features(ctx, repo)
    rule_identity_contracts(ctx, repo)
    rule_store_sinks(ctx, repo)
    rule_single_split(ctx, repo)
    rule_no_deletion(ctx, repo)
    ctx.floor("R1", 2)
    ctx.floor("R2", 11)
    ctx.floor("R3", 60)
    ctx.floor("R4", 30)
    ctx.floor("R5", 20)
