"""C02 -- ForecastingHorizon conversions are exact, order-preserving and mutually inverse.

All rules interpret the *source* of ``_fh.py`` / ``check_fh`` abstractly (``_c02_fh.FHInterp``): a horizon is
an abstract object whose ``_values`` is the symbolic sorted integer vector ``fh`` and whose ``_is_relative``
is a Boolean; methods, properties, constructors and helper functions are interpreted from their bodies,
``isinstance`` / ``type(x) in TYPES`` are decided for the integer scenario of the property's quantifier.

R1  to_absolute == cutoff + steps, to_relative == absolute - cutoff, both compositions are the identity,
    short-circuit branches return an equal horizon, to_absolute_int == absolute - start.
    Every integer cutoff is accepted: a trace that raises under a condition on the cutoff alone (e.g. a truthiness test
    that excludes 0) is a violation (":every-cutoff", also checked on the R2 / R3 runs).
R2  in-sample mask == [relative <= 0], out-of-sample mask == its complement, to_in_sample / to_out_of_sample
    select the own values by exactly these masks, is_all_* == "mask holds everywhere".
R3  to_indexer(cutoff[, from_cutoff=True]) == relative - 1 for relative and absolute horizons.
R4  _check_values per input type: index / list / array inputs pass the duplicate test and come back sorted,
    a single int is wrapped, every other type raises TypeError; __init__ accepts exactly the
    (index type, is_relative) combinations of the documented tables, stores what it validated, and rejects a
    non-bool ``is_relative``.
R5  check_fh hands the caller's values *unchanged* (no cast; value-preserving np.asarray allowed) to the validating
    constructor as a *relative* horizon, returns horizons unchanged, rejects empty
    horizons and (with enforce_relative) absolute ones.
"""
import ast

from ..absint import Vec, Tup, K, Opq, Lin, Alt, as_lin_val
from ..index import AnalysisError
from ..lin import Facts
from .. import astq
from ._c02_fh import FHInterp, Obj, TV, Mask, Sel, Cnt, AllV, exc_name, FH_PATH
from ._c02_fh import run as irun, AlwaysRaises, no_result, rejects_for_sure

VAL_PATH = "sktime/utils/validation/forecasting.py"
C = Lin.sym("cutoff")
START = Lin.sym("start")
STEPS = Vec("fh")
NONE = K(None)


def new_interp(repo):
    return FHInterp(repo)


def method(repo, it, obj, name):
    hit = repo.lookup_method(obj.cls, name)
    if hit is None:
        raise AnalysisError("anchor missing: ForecastingHorizon.%s" % name)
    return hit


def call(repo, it, obj, name, **args):
    k, fn = method(repo, it, obj, name)
    a = dict(args)
    a[fn.args.args[0].arg] = obj
    mark, mmark = len(it.partial_rejections), len(it.mutations)
    rets, raises, _ = irun(it, k.module, fn, a, obj.cls, k)
    rets.partial = it.partial_rejections[mark:]
    rets.mutations = it.mutations[mmark:]
    return rets, raises, k, fn


# the integer inputs the property quantifies over: cutoff, start, and the (sorted) steps through their extremes / count
INPUT_SYMBOLS = {"cutoff", "start", "fh[0]", "fh[-1]", "len(fh)"}


def cutoff_rejections(rets):
    """Conditions on the integer cutoff alone under which some trace raises although other traces return:
    [(facts about `cutoff`, raise node)].  The property quantifies over *every* integer cutoff."""
    out = []
    recs = list(getattr(rets, "partial", ()))
    for r in getattr(rets, "raises", ()):
        recs.append(type("R", (), {"facts": r[0].facts, "node": r[1]})())
    for r in recs:
        facts = getattr(r, "facts", None)
        node = r[0] if isinstance(r, tuple) else r.node
        if facts is None:
            continue
        # conditions assumed on the raising trace (axioms such as len() >= 0 are not conditions)
        assumed = [f for f, o in facts.items if str(o).startswith(("guard", "negated guard", "truthy", "falsy", "negated equality"))]
        cond = [f for f in assumed if f.symbols() and f.symbols() <= INPUT_SYMBOLS]
        # only if the whole path condition is about the integer inputs is the rejected input set known exactly
        if cond and len(cond) == len(assumed) and not any(repr(cond) == repr(c) for c, _ in out):
            out.append((cond, node))
    return out


def distinct(vals):
    out = []
    for v in vals:
        if not any(v == w for w in out):
            out.append(v)
    return out


def wf_vec(v):
    return isinstance(v, Vec) and v.base == "fh"


def wf_values(v):
    return wf_vec(v) or (isinstance(v, Sel) and wf_vec(v.base) and wf_vec(v.mask.vec))


def wf_fh(it, v):
    return it.is_fh(v) and wf_values(v.attrs.get("_values")) and isinstance(v.attrs.get("_is_relative"), K) \
        and isinstance(v.attrs["_is_relative"].v, bool)


def judge(ctx, rule, construct, rets, want, wf, loc, what):
    """One obligation: every returning trace returns ``want``.  Well-formed but different -> VIOLATION,
    uninterpretable -> UNDECIDED, no returning trace -> VIOLATION (valid input rejected)."""
    vals = distinct([v for _, v in rets])
    if not vals:
        no_result(ctx, rule, construct, getattr(rets, "raises", ()),
                  "%s: every path raises for a valid integer horizon / cutoff" % what, loc)
        return None
    bad = [v for v in vals if not wf(v)]
    if bad:
        ctx.undecided(rule, construct, "%s: result not interpretable: %r" % (what, bad[0]), loc)
        return None
    wrong = [v for v in vals if not v == want]
    if wrong:
        note = ""
        if "from-first-" in repr(wrong[0]):
            note = " (values[mask.argmax():] is the whole vector when the mask is all False: argmax of an all-False mask is 0)"
        ctx.violation(rule, construct, "%s: got %r, expected %r%s" % (what, wrong[0], want, note), loc,
                      witness={"got": repr(wrong[0]), "expected": repr(want)})
        return None
    for m in getattr(rets, "mutations", ())[:1]:
        ctx.violation(rule, construct + ":no-mutation",
                      "%s: %s in %s (line %s) works in place on a numpy view of a horizon's stored values (%r): the horizon -- "
                      "and every cached conversion result sharing the data -- is changed, so a second call with the same "
                      "arguments returns different steps" % (what, m["how"], m["func"].name, getattr(m["node"], "lineno", "?"), m["value"]),
                      loc, witness={"history": "call twice on the same horizon"})
    rej = cutoff_rejections(rets)
    if rej:
        cond, node = rej[0]
        syms = set().union(*[f.symbols() for f in cond])
        suffix = ":every-cutoff" if syms == {"cutoff"} else ":every-input"
        ctx.violation(rule, construct + suffix, "%s: valid integer inputs with %s are rejected (raise at line %s); the conversions "
                      "are defined for every integer cutoff / start and every duplicate-free set of steps, including the empty one"
                      % (what, " and ".join("%r <= 0" % f for f in cond), getattr(node, "lineno", "?")), loc,
                      witness={"rejected_inputs": [repr(f) + " <= 0" for f in cond]})
    ctx.ok(rule, construct, "%s == %r" % (what, want), loc)
    return vals[0]


def fh_obj(it, off, relative, base=STEPS):
    return it.make_fh(base.shift(off), relative)


# ------------------------------------------------------------------------------ R1
def rule_r1(ctx, repo):
    it = new_interp(repo)
    mod = repo.module(FH_PATH)
    wf = lambda v: wf_fh(it, v)  # noqa: E731
    for rel in (True, False):
        tag = "relative" if rel else "absolute"
        me = fh_obj(it, 0, rel)
        # to_absolute
        rets, _, k, fn = call(repo, it, me, "to_absolute", cutoff=C)
        loc = ctx.loc(mod, fn)
        want = fh_obj(it, C if rel else 0, False)
        a = judge(ctx, "R1", "ForecastingHorizon.to_absolute[%s]" % tag, rets, want, wf, loc,
                  "to_absolute(cutoff) of a %s horizon" % tag)
        # to_relative
        rets, _, k, fn = call(repo, it, me, "to_relative", cutoff=C)
        loc = ctx.loc(mod, fn)
        want = fh_obj(it, 0 if rel else -C, True)
        r = judge(ctx, "R1", "ForecastingHorizon.to_relative[%s]" % tag, rets, want, wf, loc,
                  "to_relative(cutoff) of a %s horizon" % tag)
        # round trips
        first, second = ("to_absolute", "to_relative") if rel else ("to_relative", "to_absolute")
        mid = a if rel else r
        if mid is not None:
            rets, _, k, fn = call(repo, it, mid, second, cutoff=C)
            judge(ctx, "R1", "ForecastingHorizon.%s.%s[%s]" % (first, second, tag), rets, me, wf, ctx.loc(mod, fn),
                  "%s(c) after %s(c) of a %s horizon (round trip)" % (second, first, tag))
        # to_absolute_int
        rets, _, k, fn = call(repo, it, me, "to_absolute_int", start=START, cutoff=C)
        want = fh_obj(it, (C - START) if rel else -START, False)
        judge(ctx, "R1", "ForecastingHorizon.to_absolute_int[%s]" % tag, rets, want, wf, ctx.loc(mod, fn),
              "to_absolute_int(start, cutoff) of a %s horizon" % tag)
    # a relative horizon needs no cutoff to stay relative
    me = fh_obj(it, 0, True)
    rets, _, k, fn = call(repo, it, me, "to_relative")
    judge(ctx, "R1", "ForecastingHorizon.to_relative[relative,no-cutoff]", rets, me, wf, ctx.loc(mod, fn),
          "to_relative() of a relative horizon")
    # conversions that need the cutoff reject a missing one
    for name, rel in (("to_absolute", True), ("to_relative", False)):
        me = fh_obj(it, 0, rel)
        rets, raises, k, fn = call(repo, it, me, name, cutoff=NONE)
        ctx.check(not rets and bool(raises), "R1", "ForecastingHorizon.%s[cutoff-missing]" % name,
                  "%s(None) is rejected on every path" % name,
                  "%s(None) returns %r instead of rejecting the missing cutoff" % (name, [v for _, v in rets][:1]),
                  ctx.loc(mod, fn))


# ------------------------------------------------------------------------------ R2
def rule_r2(ctx, repo):
    it = new_interp(repo)
    mod = repo.module(FH_PATH)
    wf_mask = lambda v: isinstance(v, Mask) and wf_vec(v.vec)  # noqa: E731
    wf = lambda v: wf_fh(it, v)  # noqa: E731
    scen = [("relative", True, C), ("relative,no-cutoff", True, NONE), ("absolute", False, C)]
    for tag, rel, cutoff in scen:
        me = fh_obj(it, 0, rel)
        rel_steps = STEPS if rel else STEPS.shift(-C)
        m_in, m_out = Mask("le", rel_steps), Mask("gt", rel_steps)
        for name, want in (("_is_in_sample", m_in), ("_is_out_of_sample", m_out)):
            rets, _, k, fn = call(repo, it, me, name, cutoff=cutoff)
            judge(ctx, "R2", "ForecastingHorizon.%s[%s]" % (name, tag), rets, want, wf_mask, ctx.loc(mod, fn),
                  "%s mask of a %s horizon" % (name, tag))
        for name, m in (("to_in_sample", m_in), ("to_out_of_sample", m_out)):
            rets, _, k, fn = call(repo, it, me, name, cutoff=cutoff)
            want = it.make_fh(Sel(STEPS, m), rel)
            judge(ctx, "R2", "ForecastingHorizon.%s[%s]" % (name, tag), rets, want, wf, ctx.loc(mod, fn),
                  "%s of a %s horizon (own values selected by the mask)" % (name, tag))
        for name, m in (("is_all_in_sample", m_in), ("is_all_out_of_sample", m_out)):
            rets, _, k, fn = call(repo, it, me, name, cutoff=cutoff)
            vals = distinct([v for _, v in rets])
            folded = fold_boolean_returns(it, rets)
            if folded is not None:
                vals = [folded]
            loc = ctx.loc(mod, fn)
            cons = "ForecastingHorizon.%s[%s]" % (name, tag)
            if len(vals) != 1:
                ctx.undecided("R2", cons, "predicate has %d distinct results: %r" % (len(vals), vals[:2]), loc)
                continue
            got = all_form(vals[0])
            if got is None:
                ctx.undecided("R2", cons, "predicate not in a recognised all-of-mask form: %r" % (vals[0],), loc)
            elif got[0] == "bad":
                ctx.violation("R2", cons, "%s tests %s" % (name, got[1]), loc)
            else:
                ctx.check(got[1] == m, "R2", cons, "%s == all%r" % (name, m),
                          "%s tests the mask %r, expected %r" % (name, got[1], m), loc,
                          witness={"got": repr(got[1]), "expected": repr(m)})
    # len(self) used by is_all_* is the delegated __len__ of the wrapped index
    tbl = mod.defs.get("DELEGATED_METHODS")
    names = [e.value for e in tbl.elts if isinstance(e, ast.Constant)] if isinstance(tbl, (ast.Tuple, ast.List)) else None
    ctx.check(None if names is None else "__len__" in names, "R2", "DELEGATED_METHODS:__len__",
              "len(horizon) is delegated to the wrapped index", "__len__ is not delegated to the wrapped index",
              ctx.loc(mod, tbl) if tbl is not None else FH_PATH)


def _extreme_mask(v):
    """``min(vec) > c`` / ``max(vec) <= c`` (and the strict / non-strict variants) as the mask that must hold everywhere;
    the extreme elements of the sorted vector appear as the symbols fh[0] / fh[-1]."""
    if not (isinstance(v, Opq) and v.tag.startswith("cmp:") and len(v.args) == 2):
        return None
    op = v.tag[4:]
    a, b = as_lin_val(v.args[0]), as_lin_val(v.args[1])
    if a is None or b is None:
        return None
    d = a - b
    for sym, which in (("fh[0]", "first"), ("fh[-1]", "last")):
        coef = d.terms.get(sym)
        if coef in (1, -1) and not (d.symbols() - {sym, "cutoff"}):
            if coef == -1:
                d = -d
                op = {"<": ">", "<=": ">=", ">": "<", ">=": "<=", "==": "==", "!=": "!="}[op]
            off = d - Lin.sym(sym)
            vec = STEPS.shift(off)
            # min > 0 <=> all > 0 ; max <= 0 <=> all <= 0
            if which == "first" and op in (">", ">="):
                return Mask("gt", vec if op == ">" else vec.shift(1))
            if which == "last" and op in ("<=", "<"):
                return Mask("le", vec if op == "<=" else vec.shift(1))
            return None
    return None


def fold_boolean_returns(it, rets):
    """Traces that return the constants True / False under one and the same condition c (True exactly where c holds)
    denote the value c itself (early-exit loops: ``for f in mask: if not f: return False`` ... ``return True``)."""
    if len(rets) < 2 or not all(isinstance(v, K) and isinstance(v.v, bool) for _, v in rets):
        return None
    cond = None
    for s_, v in rets:
        path = [(pv, t) for pv, t, _ in it.path_of(s_) if isinstance(pv, AllV)]
        if len(path) != 1:
            return None
        pv, t = path[0]
        if cond is None:
            cond = pv
        if not (pv == cond) or t != v.v:
            return None
    return cond


def all_form(v):
    """('all', mask) for the recognised spellings of "mask holds for every element";
    ('bad', text) for a well-formed but different comparison; None if not recognised."""
    if isinstance(v, AllV):
        return "all", v.mask
    if isinstance(v, Opq) and v.tag == "last-element-of" and len(v.args) == 2 and isinstance(v.args[0], Mask) \
            and v.args[0].op == "le" and v.args[0].vec.sorted and not v.args[0].vec.neg and v.args[1] == K(True):
        # ascending values: the largest (last) one is <= 0 exactly if all are; the empty horizon keeps the initial True
        return "all", v.args[0]
    if isinstance(v, Opq) and v.tag in ("last-element-of", "not-last-element-of", "any") and v.args and isinstance(v.args[0], Mask):
        return "bad", {"last-element-of": "only the last element of %r (the accumulator is overwritten in every iteration)",
                       "not-last-element-of": "only the negated last element of %r",
                       "any": "whether *some* element satisfies %r"}[v.tag] % (v.args[0],)
    if isinstance(v, Opq) and v.tag == "or" and len(v.args) == 2:
        # empty horizon or extreme element on the right side:  len == 0 or min(v) > 0   /   len == 0 or max(v) <= 0
        n = Lin.sym("len(fh)")
        for e, x in ((v.args[0], v.args[1]), (v.args[1], v.args[0])):
            empty = isinstance(e, Opq) and e.tag in ("cmp:==", "cmp:<=", "cmp:<") and len(e.args) == 2 \
                and as_lin_val(e.args[0]) == n and as_lin_val(e.args[1]) == Lin.c(1 if e.tag == "cmp:<" else 0)
            m = _extreme_mask(x)
            if empty and m is not None:
                return "all", m
    m = _extreme_mask(v)
    if m is not None:
        # without the empty-horizon case: min() / max() of an empty index raises -- equivalent only for non-empty horizons
        return None
    if isinstance(v, Opq) and v.tag.startswith("cmp:") and len(v.args) == 2:
        op = v.tag[4:]
        a, b = v.args
        n = Lin.sym("len(fh)")
        if isinstance(b, Cnt) and not isinstance(b, AllV):
            a, b = b, a
            op = {"<": ">", "<=": ">=", ">": "<", ">=": "<=", "==": "==", "!=": "!="}[op]
        if isinstance(a, Cnt) and not isinstance(a, AllV) and as_lin_val(b) is not None:
            lb = as_lin_val(b)
            # count <= len always: count == len  <=>  count >= len  <=>  count > len - 1
            if (op in ("==", ">=") and lb == n) or (op == ">" and lb == n - 1):
                return "all", a.mask
            if set(lb.symbols()) <= {"len(fh)"}:
                return "bad", "count%r %s %r (expected == len(fh))" % (a.mask, op, lb)
    return None


# ------------------------------------------------------------------------------ R3
def rule_r3(ctx, repo):
    it = new_interp(repo)
    mod = repo.module(FH_PATH)
    for tag, rel, cutoff in (("relative", True, C), ("relative,no-cutoff", True, NONE), ("absolute", False, C)):
        me = fh_obj(it, 0, rel)
        want = STEPS.shift(-1) if rel else STEPS.shift(-C - 1)
        for ftag, extra in (("default", {}), ("from_cutoff=True", {"from_cutoff": K(True)})):
            rets, _, k, fn = call(repo, it, me, "to_indexer", cutoff=cutoff, **extra)
            judge(ctx, "R3", "ForecastingHorizon.to_indexer[%s,%s]" % (tag, ftag), rets, want, wf_vec, ctx.loc(mod, fn),
                  "to_indexer(cutoff) of a %s horizon (zero-based: steps - 1)" % tag)
        # documented option of the same mechanism: zero-based from the first value, alike for both kinds of horizon
        rets, _, k, fn = call(repo, it, me, "to_indexer", cutoff=cutoff, from_cutoff=K(False))
        judge(ctx, "R3", "ForecastingHorizon.to_indexer[%s,from_cutoff=False]" % tag, rets, STEPS.shift(-Lin.sym("fh[0]")), wf_vec,
              ctx.loc(mod, fn), "to_indexer(cutoff, from_cutoff=False) of a %s horizon (zero-based from the first step)" % tag)


# ------------------------------------------------------------------------------ R4
ACCEPT_INDEX = ("pandas.Int64Index", "pandas.RangeIndex", "pandas.PeriodIndex", "pandas.DatetimeIndex")
ACCEPT_INT = ("builtins.int", "numpy.int64")
ACCEPT_SEQ = ("builtins.list", "numpy.ndarray")
REJECT = ("builtins.str", "builtins.float", "builtins.tuple", "builtins.set", "builtins.dict", "builtins.NoneType",
          "pandas.Series", "pandas.Float64Index", "pandas.Index")


def dup_atom(v, truth, X):
    """Is (test value, truth) the duplicate test on X?  Returns True if it says "X has duplicates",
    False if it says "X has no duplicates", None if it is not a recognised duplicate test on X."""
    n = Lin.sym("len(%r)" % (X,))

    def is_nu(x):
        return isinstance(x, Opq) and x.tag == "nunique" and x.args == (X,)

    if isinstance(v, Opq) and v.tag.startswith("cmp:") and len(v.args) == 2:
        op = v.tag[4:]
        a, b = v.args
        if is_nu(a) and as_lin_val(b) == n:
            a, b = b, a
            op = {"<": ">", "<=": ">=", ">": "<", ">=": "<=", "==": "==", "!=": "!="}[op]
        if as_lin_val(a) == n and is_nu(b):
            # len >= nunique always holds: "<" can never fire, ">=" always does
            if op in ("!=", ">"):
                return truth
            if op in ("==", "<="):
                return not truth
            return "vacuous"
    if isinstance(v, Opq) and v.tag == "has-duplicates" and v.args == (X,):
        return truth
    if isinstance(v, Opq) and v.tag == "attr:has_duplicates" and v.args == (X,):
        return truth
    if isinstance(v, Opq) and v.tag == "attr:is_unique" and v.args == (X,):
        return not truth
    return None


def mentions(v, X):
    if v == X:
        return True
    if isinstance(v, (Opq, TV)):
        return any(mentions(a, X) for a in v.args)
    if isinstance(v, Tup):
        return any(mentions(a, X) for a in v.items)
    if isinstance(v, Lin):
        return any(repr(X) in s for s in v.symbols())
    return False


def rule_r4(ctx, repo):
    mod = repo.module(FH_PATH)
    fn = repo.func(FH_PATH, "_check_values")
    loc = ctx.loc(mod, fn)
    for kind in ACCEPT_INDEX + ACCEPT_SEQ:
        it = new_interp(repo)
        inp = TV(kind, "input", ["values"])
        X = inp if kind in ACCEPT_INDEX else TV("pandas.Int64Index", "Int64Index", [inp])
        rets, raises, _ = irun(it, mod, fn, {"values": inp})
        cons = "_check_values[%s]" % kind.split(".")[-1]
        if not rets:
            no_result(ctx, "R4", cons + ":accepted", raises, "a %s horizon is rejected on every path" % kind, loc)
            continue
        ctx.ok("R4", cons + ":accepted", "%d accepting path(s)" % len(rets), loc)
        for i, (s, v) in enumerate(rets):
            want = TV(X.kind, "sorted", [X])
            if isinstance(v, TV) and v.tag in ("input", "Int64Index", "sorted", "single"):
                ctx.check(v == want, "R4", cons + ":sorted", "returns %r" % (want,),
                          "returns %r, expected the sorted index %r" % (v, want), loc)
            else:
                ctx.undecided("R4", cons + ":sorted", "returned value not interpretable: %r" % (v,), loc)
            path = it.path_of(s)
            verdicts = [dup_atom(pv, truth, X) for pv, truth, _ in path]
            if any(d == "vacuous" for d in verdicts) and not any(d is False for d in verdicts):
                ctx.violation("R4", cons + ":duplicates", "the duplicate test compares len() and nunique() with an operator that "
                              "cannot separate duplicate-free from duplicated input", loc)
            elif any(d is False for d in verdicts):
                ctx.ok("R4", cons + ":duplicates", "accepting path passed the duplicate test with outcome 'no duplicates'", loc)
            elif any(d is True for d in verdicts):
                ctx.violation("R4", cons + ":duplicates", "the accepting path is the one on which the duplicate test fires", loc)
            elif any(mentions(pv, X) and not (isinstance(pv, Opq) and pv.tag in ("isinstance", "type")) for pv, _, _ in path):
                ctx.undecided("R4", cons + ":duplicates", "a condition on the values is not a recognised duplicate test: %r"
                              % ([pv for pv, _, _ in path],), loc)
            else:
                ctx.violation("R4", cons + ":duplicates",
                              "an accepting path for %s input reaches the return without any duplicate test" % kind, loc)
        dupraise = [(s, n) for s, n in raises if any(dup_atom(pv, t, X) is True for pv, t, _ in it.path_of(s))]
        if dupraise:
            ctx.check(all(exc_name(n) == "ValueError" for _, n in dupraise), "R4", cons + ":duplicates-raise",
                      "duplicates raise ValueError", "duplicates raise %r" % ([exc_name(n) for _, n in dupraise],), loc)
    for kind in ACCEPT_INT:
        it = new_interp(repo)
        inp = TV(kind, "input", ["values"])
        rets, raises, _ = irun(it, mod, fn, {"values": inp})
        cons = "_check_values[%s]" % kind.split(".")[-1]
        want = TV("pandas.Int64Index", "single", [inp])
        vals = distinct([v for _, v in rets])
        if not vals:
            no_result(ctx, "R4", cons + ":wrapped", raises, "a single integer step is rejected", loc)
        elif all(isinstance(v, TV) for v in vals):
            ctx.check(all(v == want or v == TV(want.kind, "sorted", [want]) for v in vals), "R4", cons + ":wrapped",
                      "single integer wrapped as one-element index",
                      "single integer becomes %r, expected %r" % (vals, want), loc)
        else:
            ctx.undecided("R4", cons + ":wrapped", "returned value not interpretable: %r" % (vals,), loc)
    for kind in REJECT:
        it = new_interp(repo)
        inp = TV(kind, "input", ["values"])
        rets, raises, _ = irun(it, mod, fn, {"values": inp})
        cons = "_check_values[%s]" % kind.split(".")[-1]
        if rets:
            ctx.violation("R4", cons + ":rejected", "values of unsupported type %s are accepted (coerced to %r)"
                          % (kind, [v for _, v in rets][0]), loc)
        elif not raises:
            ctx.undecided("R4", cons + ":rejected", "no trace at all", loc)
        else:
            names = sorted({exc_name(n) or "?" for _, n in raises})
            ctx.check(names == ["TypeError"], "R4", cons + ":rejected", "unsupported type raises TypeError",
                      "unsupported type %s raises %s, expected TypeError" % (kind, names), loc)

    # constructor: (index type, is_relative) table and stored state
    cls = repo.cls(FH_PATH + ":ForecastingHorizon")
    hit = repo.lookup_method(cls, "__init__")
    if hit is None:
        raise AnalysisError("anchor missing: ForecastingHorizon.__init__")
    k, init = hit
    iloc = ctx.loc(mod, init)
    allowed = {True: ("pandas.Int64Index", "pandas.RangeIndex"), False: ACCEPT_INDEX}
    for rel in (True, False):
        for kind in ACCEPT_INDEX:
            it = new_interp(repo)
            inp = TV(kind, "input", ["values"])
            me = Obj(cls, mutable=True)
            rets, raises, _ = irun(it, k.module, init, {"self": me, "values": inp, "is_relative": K(rel)}, cls, k)
            cons = "ForecastingHorizon.__init__[%s,is_relative=%s]" % (kind.split(".")[-1], rel)
            if kind in allowed[rel]:
                if not rets:
                    no_result(ctx, "R4", cons, raises, "a supported combination is rejected on every path", iloc)
                    continue
                vals = [e["val"] for e in it.stores if e["obj"] is me and e["attr"] == "_values"]
                flags = [e["val"] for e in it.stores if e["obj"] is me and e["attr"] == "_is_relative"]
                want = TV(kind, "sorted", [inp])
                if not vals or not flags:
                    ctx.violation("R4", cons, "the constructor accepts the input but does not store %s" % (
                        " and ".join(n for n, x in (("the validated values", vals), ("the is_relative flag", flags)) if not x)), iloc)
                elif len(vals) != 1 or len(flags) != 1 or not isinstance(vals[0], TV) or not isinstance(flags[0], K):
                    ctx.undecided("R4", cons, "constructor state not interpretable: _values=%r _is_relative=%r" % (vals, flags), iloc)
                else:
                    ctx.check(vals[0] == want and flags[0] == K(rel), "R4", cons,
                              "stores the validated values and the given flag",
                              "stores _values=%r, _is_relative=%r; expected %r, %r" % (vals[0], flags[0], want, K(rel)), iloc)
            else:
                if rets:
                    ctx.violation("R4", cons, "%s values are accepted with is_relative=%s" % (kind, rel), iloc)
                else:
                    names = sorted({exc_name(n) or "?" for _, n in raises})
                    ctx.check(names == ["TypeError"] if raises else None, "R4", cons, "incompatible index type raises TypeError",
                              "incompatible index type raises %s, expected TypeError" % names, iloc)
    # documented default: values are steps relative to the cutoff unless is_relative=False is given
    it = new_interp(repo)
    me = Obj(cls, mutable=True)
    rets, raises, _ = irun(it, k.module, init, {"self": me, "values": TV("pandas.Int64Index", "input", ["values"])}, cls, k)
    flags = [e["val"] for e in it.stores if e["obj"] is me and e["attr"] == "_is_relative"]
    ctx.check(flags == [K(True)] if rets and flags and all(isinstance(f, K) for f in flags) else (None if rets else False), "R4",
              "ForecastingHorizon.__init__[default is_relative]", "a horizon built without the flag is relative",
              "a horizon built without `is_relative` gets %r (documented default: relative)" % (flags,), iloc)
    for label, val in (("int", Lin.c(1)), ("None", K(None)), ("str", K("True"))):
        it = new_interp(repo)
        me = Obj(cls, mutable=True)
        rets, raises, _ = irun(it, k.module, init, {"self": me, "values": TV("pandas.Int64Index", "input", ["values"]),
                                                   "is_relative": val}, cls, k)
        cons = "ForecastingHorizon.__init__[is_relative:%s]" % label
        if rets:
            ctx.violation("R4", cons, "a non-bool `is_relative` (%s) is accepted" % label, iloc)
        else:
            names = sorted({exc_name(n) or "?" for _, n in raises})
            ctx.check(names == ["TypeError"] if raises else None, "R4", cons, "non-bool is_relative raises TypeError",
                      "non-bool is_relative raises %s, expected TypeError" % names, iloc)


# ------------------------------------------------------------------------------ R5
def plain(v):
    """Normal form modulo value-preserving container conversions (``np.asarray(x)`` without dtype)."""
    if isinstance(v, TV):
        if v.tag == "asarray" and len(v.args) == 1:
            return plain(v.args[0])
        return TV(v.kind, v.tag, [plain(a) for a in v.args])
    if isinstance(v, Obj) and not v.mutable:
        return Obj(v.cls, {k: plain(a) for k, a in v.attrs.items()})
    if isinstance(v, Opq):
        return Opq(v.tag, [plain(a) for a in v.args])
    return v


def rule_r5(ctx, repo):
    mod = repo.module(VAL_PATH)
    fn = repo.func(VAL_PATH, "check_fh")
    loc = ctx.loc(mod, fn)
    fhcls = repo.cls(FH_PATH + ":ForecastingHorizon")

    def nonempty(it, s, fhval, cons):
        n = None
        vals = it.undelegate(fhval) if it.is_fh(fhval) else None
        if isinstance(vals, Vec):
            n = Lin.sym("len(%s)" % vals.base)
        elif isinstance(vals, (TV, Sel)):
            n = Lin.sym("len(%r)" % (vals,))
        if n is None:
            ctx.undecided("R5", cons, "horizon length not interpretable for %r" % (fhval,), loc)
            return
        if s.facts.entails_cmp(n, ">=", 1) is not None:
            ctx.ok("R5", cons, "%r >= 1 on the accepting path" % n, loc)
            return
        path = it.path_of(s)
        about_len = [pv for pv, _, _ in path if mentions_len(pv, n)]
        # conditions the integer facts capture completely: affine comparisons and the truthiness of an integer
        affine = [pv for pv in about_len if as_lin_val(pv) is not None or (
            isinstance(pv, Opq) and pv.tag.startswith("cmp:") and len(pv.args) == 2
            and all(as_lin_val(a) is not None for a in pv.args))]
        if about_len and len(affine) == len(about_len):
            ctx.violation("R5", cons, "an empty horizon is accepted: the tests on its length (%r) do not exclude %r == 0"
                          % (affine, n), loc)
        elif about_len:
            ctx.undecided("R5", cons, "a condition on the horizon length is not understood: %r" % (about_len,), loc)
        else:
            ctx.violation("R5", cons, "an empty horizon is accepted: no rejecting test on its length dominates the return", loc)

    def mentions_len(v, n):
        if isinstance(v, Lin):
            return bool(v.symbols() & n.symbols())
        if isinstance(v, Opq):
            return any(mentions_len(a, n) for a in v.args) or "len" in v.tag or "empty" in v.tag or "size" in v.tag
        return False

    # horizons are returned unchanged; absolute ones rejected under enforce_relative
    for rel in (True, False):
        for enforce in (False, True):
            it = new_interp(repo)
            me = it.make_fh(STEPS, rel)
            rets, raises, _ = irun(it, mod, fn, {"fh": me, "enforce_relative": K(enforce)})
            cons = "check_fh[%s horizon,enforce_relative=%s]" % ("relative" if rel else "absolute", enforce)
            if enforce and not rel:
                if rets:
                    ctx.violation("R5", cons, "an absolute horizon passes enforce_relative=True", loc)
                else:
                    ctx.check(bool(raises) or None, "R5", cons, "absolute horizon rejected", "no trace", loc)
                continue
            vals = distinct([v for _, v in rets])
            if not vals:
                no_result(ctx, "R5", cons, raises, "a valid horizon is rejected on every path", loc)
                continue
            if not all(it.is_fh(v) for v in vals):
                ctx.undecided("R5", cons, "result not interpretable: %r" % (vals,), loc)
                continue
            ctx.check(all(v == me for v in vals), "R5", cons, "horizon returned unchanged",
                      "horizon is changed: %r -> %r" % (me, vals), loc)
            for s, v in rets:
                nonempty(it, s, v, cons + ":non-empty")
    # default: absolute horizons are admitted unless the caller asks for enforce_relative
    it = new_interp(repo)
    me = it.make_fh(STEPS, False)
    rets, raises, _ = irun(it, mod, fn, {"fh": me})
    vals = distinct([v for _, v in rets])
    if not vals:
        no_result(ctx, "R5", "check_fh[absolute horizon,default]", raises, "an absolute horizon is rejected by default", loc)
    else:
        ctx.check(all(v == me for v in vals) if all(it.is_fh(v) for v in vals) else None, "R5", "check_fh[absolute horizon,default]",
                  "absolute horizon returned unchanged by default", "absolute horizon becomes %r by default" % (vals,), loc)
    # everything else is wrapped as a *relative* horizon built by the validating constructor
    for kind in ("builtins.list", "builtins.int", "numpy.ndarray", "pandas.Int64Index"):
        for enforce in (False, True):
            it = new_interp(repo)
            inp = TV(kind, "input", ["values"])
            st0 = None
            from ..absint import State, Frame
            st0 = State()
            try:
                want = it.instantiate(fhcls, [inp], {"is_relative": K(True)}, st0, Frame(mod, fn))
            except AlwaysRaises:
                want = Opq("never-constructs")
            rets, raises, _ = irun(it, mod, fn, {"fh": inp, "enforce_relative": K(enforce)})
            cons = "check_fh[%s,enforce_relative=%s]" % (kind.split(".")[-1], enforce)
            vals = distinct([v for _, v in rets])
            if not it.is_fh(want):
                ctx.undecided("R5", cons, "reference constructor call not interpretable: %r" % (want,), loc)
                continue
            if not vals:
                no_result(ctx, "R5", cons, raises, "valid %s input is rejected on every path" % kind, loc)
                continue
            if any(isinstance(v, TV) for v in vals):
                ctx.violation("R5", cons, "returns %r, not a ForecastingHorizon built from the input"
                              % ([v for v in vals if isinstance(v, TV)][0],), loc)
                continue
            if not all(it.is_fh(v) and isinstance(v.attrs.get("_is_relative"), K) for v in vals):
                ctx.undecided("R5", cons, "result not interpretable: %r" % (vals,), loc)
                continue
            casts = [v for v in vals if "cast(" in repr(v)]
            ctx.check(all(plain(v) == plain(want) for v in vals), "R5", cons,
                      "the caller's values reach ForecastingHorizon(values, is_relative=True) unchanged",
                      "wrapped as %r, expected %r%s" % (vals, want, " -- the values are cast before validation, so fractional steps "
                                                        "are truncated instead of rejected" if casts else ""), loc)
            if kind != "builtins.int":
                for s, v in rets:
                    nonempty(it, s, v, cons + ":non-empty")


# ------------------------------------------------------------------ R1: memoisation of the conversions
TRANSPARENT_DECORATORS = {"builtins.property", "builtins.staticmethod", "builtins.classmethod", "functools.wraps"}
# functools.lru_cache keys on *all* arguments including the receiver and keeps the receiver alive in the cache:
# for an immutable horizon the memoised result is the result (immutability: ":no-mutation" obligations of R1-R3)
KEYED_ON_ALL_ARGUMENTS = {"functools.lru_cache", "functools.cache"}


def rule_decorators(ctx, repo, rule="R1"):
    """The bodies interpreted by R1-R3 are what callers get only if the decorators do not change the result: every
    decorator of a ForecastingHorizon method is transparent, an all-arguments cache, or a repo-local wrapper whose
    memo key is checked here (H2: results are not memoised under a key that misses something they depend on)."""
    mod = repo.module(FH_PATH)
    cls = repo.cls(FH_PATH + ":ForecastingHorizon")
    for name, fn in sorted(cls.methods.items()):
        for dec in fn.decorator_list:
            target = dec.func if isinstance(dec, ast.Call) else dec
            cons = "ForecastingHorizon.%s:decorator:%s" % (name, ast.unparse(target))
            loc = ctx.loc(mod, dec)
            sym = repo.resolve_expr(mod, target)
            dotted_name = sym.dotted if sym is not None else ("builtins." + target.id if isinstance(target, ast.Name) else None)
            if isinstance(target, ast.Attribute) and target.attr in ("setter", "getter", "deleter"):
                ctx.ok(rule, cons, "property accessor", loc, nontrivial=False)
            elif dotted_name in TRANSPARENT_DECORATORS:
                ctx.ok(rule, cons, "transparent decorator", loc, nontrivial=False)
            elif dotted_name in KEYED_ON_ALL_ARGUMENTS:
                ctx.ok(rule, cons, "cache keyed on the receiver object (kept alive) and every argument", loc)
            elif sym is not None and sym.kind == "func":
                judge_wrapper(ctx, repo, cons, sym, fn, loc, rule)
            else:
                ctx.undecided(rule, cons, "decorator %r is not interpreted: the method body analysed by R1-R3 may not be what "
                              "callers get" % ast.unparse(target), loc)


def bare_receiver(key, recv):
    """Does the receiver object itself (not an attribute / method result of it) occur in the key expression?"""
    inner = set()
    for n in ast.walk(key):
        if isinstance(n, ast.Attribute) and isinstance(n.value, ast.Name) and n.value.id == recv:
            inner.add(id(n.value))
        if isinstance(n, ast.Call) and isinstance(n.func, ast.Name) and n.func.id in ("id", "type", "len", "repr", "str"):
            inner.update(id(a) for a in n.args if isinstance(a, ast.Name))
    return any(isinstance(n, ast.Name) and n.id == recv and id(n) not in inner for n in ast.walk(key))


def self_reads(repo, cls, node, recv, depth=0, seen=None):
    """Instance attributes of ``recv`` read by ``node`` (an expression or function), through properties and methods of
    the class; None if the receiver escapes (passed on as an argument, aliased) so that the set is not known."""
    seen = set() if seen is None else seen
    if depth > 6:
        return None
    out = set()
    body = node.body if isinstance(node, (ast.FunctionDef, ast.AsyncFunctionDef)) else [node]
    attr_bases = set()
    for b in body:
        for n in ast.walk(b):
            if isinstance(n, ast.Attribute) and isinstance(n.value, ast.Name) and n.value.id == recv:
                attr_bases.add(id(n.value))
                hit = repo.lookup_method(cls, n.attr)
                prop = None
                for k in repo.mro(cls):
                    if hasattr(k, "properties") and n.attr in k.properties and "getter" in k.properties[n.attr]:
                        prop = k.properties[n.attr]["getter"]
                        break
                target = prop or (hit[1] if hit else None)
                if target is not None:
                    if id(target) in seen:
                        continue
                    seen.add(id(target))
                    sub = self_reads(repo, cls, target, target.args.args[0].arg, depth + 1, seen)
                    if sub is None:
                        return None
                    out |= sub
                elif n.attr.startswith("__") or n.attr in ("max", "min"):
                    out.add("_values")  # delegated to the wrapped index
                else:
                    out.add(n.attr)
    for b in body:
        for n in ast.walk(b):
            if isinstance(n, ast.Name) and n.id == recv and isinstance(n.ctx, ast.Load) and id(n) not in attr_bases:
                par_ok = False
                for c in ast.walk(b):
                    if isinstance(c, ast.Call) and isinstance(c.func, ast.Name) and c.func.id in ("type", "len", "isinstance") \
                            and any(a is n for a in c.args):
                        par_ok = True
                        if c.func.id == "len":
                            out.add("_values")
                if not par_ok:
                    return None
    return out


def judge_wrapper(ctx, repo, cons, sym, method, loc, rule="R1"):
    dec_fn, dmod = sym.target, sym.module
    inner = [n for n in dec_fn.body if isinstance(n, ast.FunctionDef)]
    rets = [r.value for r in ast.walk(dec_fn) if isinstance(r, ast.Return) and r in dec_fn.body]
    if len(inner) != 1 or len(rets) != 1 or not (isinstance(rets[0], ast.Name) and rets[0].id == inner[0].name):
        ctx.undecided(rule, cons, "decorator does not have the shape `def wrapper(...): ...; return wrapper`", loc)
        return
    w = inner[0]
    wrapped = dec_fn.args.args[0].arg if dec_fn.args.args else None
    params = [a.arg for a in w.args.args]
    # module-level containers the wrapper reads or writes
    containers = {}
    for n in ast.walk(w):
        if isinstance(n, ast.Name) and n.id not in params and isinstance(dmod.defs.get(n.id), (ast.Dict, ast.List, ast.Set, ast.Call)):
            d = dmod.defs[n.id]
            if isinstance(d, ast.Call) and not (isinstance(d.func, ast.Name) and d.func.id in ("dict", "list", "set", "OrderedDict")):
                continue
            containers[n.id] = d
    for stmt in dec_fn.body:  # containers created once per decorated method (closure of the wrapper)
        if isinstance(stmt, ast.Assign) and len(stmt.targets) == 1 and isinstance(stmt.targets[0], ast.Name):
            v = stmt.value
            if isinstance(v, (ast.Dict, ast.List, ast.Set)) or (isinstance(v, ast.Call) and isinstance(v.func, ast.Name)
                                                                  and v.func.id in ("dict", "list", "set", "OrderedDict")):
                containers[stmt.targets[0].id] = v
    stores = [n for n in ast.walk(w) if isinstance(n, ast.Subscript) and isinstance(n.ctx, ast.Store)
              and isinstance(n.value, ast.Name) and n.value.id in containers]
    if not containers:
        calls = [c for c in ast.walk(w) if isinstance(c, ast.Call) and isinstance(c.func, ast.Name) and c.func.id == wrapped]
        wrets = [r.value for r in ast.walk(w) if isinstance(r, ast.Return)]
        plain_call = len(calls) == 1 and len(wrets) == 1 and wrets[0] is calls[0] and \
            [ast.unparse(a) for a in calls[0].args] + sorted(k.arg or "**" for k in calls[0].keywords) == \
            [("*" + w.args.vararg.arg) if False else p for p in params] + ([] if w.args.kwarg is None else ["**"])
        if plain_call and not w.args.vararg:
            ctx.ok(rule, cons, "wrapper returns the method's result for the same arguments", loc)
        else:
            ctx.undecided(rule, cons, "repo-local decorator not interpreted", loc)
        return
    if not stores:
        ctx.undecided(rule, cons, "wrapper uses the module-level container(s) %s in a way that is not understood" % sorted(containers), loc)
        return
    cls = repo.cls(FH_PATH + ":ForecastingHorizon")
    for st_ in stores:
        key = astq.inline_locals(w, st_.slice)
        ids = [c for c in ast.walk(key) if isinstance(c, ast.Call) and isinstance(c.func, ast.Name) and c.func.id == "id"
               and repo.resolve_name(dmod, "id") is None and "id" not in params]
        names = {n.id for n in ast.walk(key) if isinstance(n, ast.Name)}
        recv = params[0] if params else None
        by_identity = [c for c in ids if c.args and isinstance(c.args[0], ast.Name) and c.args[0].id == recv]
        if by_identity and not any(isinstance(n, ast.Name) and n.id == recv and not any(n is c.args[0] for c in by_identity)
                                   for n in ast.walk(key)):
            ctx.violation(rule, cons, "results of %s are memoised in the long-lived %s under a key that contains only id(%s) of the "
                          "horizon: the entry outlives the object, and a later horizon that gets the same id (after garbage "
                          "collection) receives the other horizon's conversion -- the key misses the steps the result depends on"
                          % (method.name, st_.value.id, recv), loc,
                          witness={"history": "convert horizon A, drop it, create horizon B with other steps, convert B with the same cutoff"})
        elif recv in names and all(p in names for p in params) and bare_receiver(key, recv):
            ctx.ok(rule, cons, "memo key contains the receiver object and every argument", loc)
        elif recv in names and all(p in names for p in params) and not ids:
            # keyed on parts of the receiver's state: every attribute the method reads must be covered
            need = self_reads(repo, cls, method, method.args.args[0].arg)
            have = self_reads(repo, cls, key, recv)
            if need is None or have is None:
                ctx.undecided(rule, cons, "state read by %s / by the memo key %r not understood" % (method.name, ast.unparse(key)), loc)
            elif need <= have:
                ctx.ok(rule, cons, "memo key covers every attribute %s reads (%s) and every argument" % (method.name, sorted(need)), loc)
            else:
                ctx.violation(rule, cons, "results of %s are memoised in %s under the key %s, which covers %s of the horizon but the "
                              "result also depends on %s: two horizons that agree on the key share one entry"
                              % (method.name, st_.value.id, ast.unparse(key), sorted(have), sorted(need - have)), loc,
                              witness={"history": "convert a relative horizon, then an absolute horizon with the same numbers and cutoff"})
        else:
            missing = [p for p in params if p not in names]
            if missing and not ids:
                ctx.violation(rule, cons, "results of %s are memoised in %s under a key that omits %s" % (method.name, st_.value.id, missing), loc)
            else:
                ctx.undecided(rule, cons, "memo key %r not understood" % ast.unparse(key), loc)


def run_rules(ctx):
    repo = ctx.repo
    rule_r1(ctx, repo)
    rule_decorators(ctx, repo)
    rule_r2(ctx, repo)
    rule_r3(ctx, repo)
    rule_r4(ctx, repo)
    rule_r5(ctx, repo)


def run(ctx):
    ctx.explain("C02: the methods of ForecastingHorizon, _check_values and check_fh are interpreted abstractly on a "
                "symbolic sorted integer step vector `fh` and a symbolic integer cutoff; results are compared as normal "
                "forms (vector + affine offset, masks [v <= 0] / [v > 0], selections, typed index values); type tests are "
                "decided per input type of the quantifier (int, list, array, Int64Index, RangeIndex, and rejected types).")
    ctx.assume("pandas: Int64Index +/- int is element-wise; index[bool mask] keeps the selected elements in order; "
               "sort_values() sorts ascending and keeps the index type; nunique() counts distinct values")
    ctx.assume("pandas: Int64Index(values, dtype=int) raises for fractional values (not decided here)")
    ctx.assume("ForecastingHorizon.__new__ installs the DELEGATED_METHODS (len, [], arithmetic, max/min) on the wrapped index")
    ctx.assume("integer scenario: cutoff and steps are int / numpy integers, so the Period/Timestamp branches are not taken")
    run_rules(ctx)
    ctx.floor("R1", 11)
    ctx.floor("R2", 19)
    ctx.floor("R3", 9)
    ctx.floor("R4", 46)
    ctx.floor("R5", 21)
