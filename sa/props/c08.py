"""C08 -- tuning: ranking direction, one row, fresh clones, refit and guarded delegation.

Decides (DESIGN 3/C08): R1 the value passed as ``ascending=`` to ``rank`` is the Boolean negation of the
metric's ``greater_is_better`` (evaluated with Python ``bool`` semantics after every store to
``greater_is_better`` in the metric classes was typed as a Python bool) and the selected index is the
arg-min of that rank over the mean test-score column; R2 ``best_score_`` / ``best_params_`` are cells of the
same table at ``best_index_`` and ``best_forecaster_`` is a clone of ``self.forecaster`` with exactly
those parameters; R3 every candidate is a fresh parameterised clone evaluated on the same
cv / y / X / scoring / strategy, aggregated by the mean of the column ``evaluate`` writes, and the candidate
generators receive the constructor's grid / distributions; R4 refit on the method's own ``y, X, fh``
guarded by ``self.refit``, ``_is_fitted`` set last, every delegating member first calls
``check_is_fitted`` with a non-None method name and forwards all its arguments.

Engine: the provenance interpreter of ``_c07_prov`` run on ``BaseGridSearch.fit`` for every concrete tuner
(``_run_search`` and the two closures inlined, ``Parallel(delayed(f)(x) for x in xs)`` mapped).
"""
from ..index import AnalysisError
from .. import astq
from ._c07_prov import (Interp, Validators, T, P, C, NONE, attr, sub, fn, call, is_const, cval, is_call, is_mcall,
                        call_args, subterms, contains, show, bind_terms, ceval, pc_holds, Undef, strip_list,
                        anchor_unsupported)
from .c07 import Merged, metric_call_signature, EvalAnalysis, FUNCS, CLASSES, BASE, VMOD
from .c07 import as_row as _c07_as_row

TUNE = "sktime/forecasting/model_selection/_tune.py"
SELF = P("self")
CLONE = fn("sklearn.base.clone")
BF = attr(SELF, "best_forecaster_")
EVALUATE = "sktime.forecasting.model_evaluation._functions.evaluate"
GENERATORS = {
    "sklearn.model_selection.ParameterGrid": ["param_grid"],
    "sklearn.model_selection._search.ParameterGrid": ["param_grid"],
    "sklearn.model_selection.ParameterSampler": ["param_distributions", "n_iter", "random_state"],
    "sklearn.model_selection._search.ParameterSampler": ["param_distributions", "n_iter", "random_state"],
}
# members that must delegate to best_forecaster_ (DESIGN 3/C08-R4) even when an edit makes them stop mentioning it
DESIGNED_MEMBERS = ("predict", "update", "update_predict", "update_predict_single", "transform", "inverse_transform", "score",
                    "compute_pred_int", "get_fitted_params", "cutoff")
# members through which the wrapped forecaster's state (cutoff) moves
STATE_MOVERS = ("update", "update_predict_single")
MIN_SEL = ("argmin", "idxmin")
MAX_SEL = ("argmax", "idxmax")


# ----------------------------------------------------------------------------- table helpers
def table_core(t):
    """Strip column assignments: the underlying table term."""
    while isinstance(t, T) and t.op == "setcol":
        t = t.a[0]
    return t


def lookup_col(table, col):
    """Value assigned to column ``col`` of a ``setcol`` chain, or None."""
    while isinstance(table, T) and table.op == "setcol":
        if table.a[1] == col:
            return table.a[2]
        table = table.a[0]
    return None


def column_of(t):
    """(table, column name term) for ``tbl[c]`` / ``tbl.loc[:, c]``."""
    if isinstance(t, T) and t.op == "sub":
        b, i = t.a
        if isinstance(b, T) and b.op == "attr" and b.a[1] == "loc" and isinstance(i, T) and i.op == "tuple" and len(i.a[0]) == 2:
            rows, col = i.a[0]
            if isinstance(rows, T) and rows.op == "slice" and rows.a == (None, None, None):
                return b.a[0], col
            return None
        if isinstance(b, T) and b.op == "attr" and b.a[1] in ("loc", "iloc", "at", "iat"):
            return None
        if not (isinstance(i, T) and i.op in ("tuple", "slice")):
            return b, i
    return None


def cell_of(t):
    """(table, row term, column term) for the usual single-cell idioms, else None."""
    if not (isinstance(t, T) and t.op == "sub"):
        return None
    b, i = t.a
    if isinstance(b, T) and b.op == "attr" and b.a[1] in ("loc", "at") and isinstance(i, T) and i.op == "tuple" and len(i.a[0]) == 2:
        r, c = i.a[0]
        if isinstance(r, T) and r.op == "slice":
            return None
        return b.a[0], r, c
    # tbl[c][r] / tbl[c].iloc[r] / tbl.loc[:, c][r]
    inner = b.a[0] if isinstance(b, T) and b.op == "attr" and b.a[1] in ("iloc", "loc", "at", "iat") else b
    co = column_of(inner)
    if co is not None and not (isinstance(i, T) and i.op in ("tuple", "slice")):
        return co[0], i, co[1]
    # tbl.loc[r][c] / tbl.iloc[r][c]
    if isinstance(b, T) and b.op == "sub" and isinstance(b.a[0], T) and b.a[0].op == "attr" and b.a[0].a[1] in ("loc", "iloc") \
            and not (isinstance(b.a[1], T) and b.a[1].op in ("tuple", "slice")):
        return b.a[0].a[0], b.a[1], i
    return None


def acc_source(t):
    """Strip accumulators: ``base.extend(xs)`` / ``list(...)``.  Returns (what was added last, list of accumulator bases)."""
    bases = []
    t = strip_list(t)
    while isinstance(t, T) and t.op == "extended":
        bases.append(t.a[0])
        t = strip_list(t.a[1])
    return t, bases


def resolve_cond(t, val):
    """Pick the arm of (nested) conditional values under the valuation ``val`` (Undef if a test is not evaluable)."""
    while isinstance(t, T) and t.op == "ifexp":
        t = t.a[1] if bool(ceval(t.a[0], val)) else t.a[2]
    return t


def signed(t):
    """(sign, core) with unary minus / multiplication by -1 stripped."""
    sign = 1
    while isinstance(t, T):
        if t.op == "unop" and t.a[0] == "USub":
            sign, t = -sign, t.a[1]
        elif t.op == "binop" and t.a[0] == "Mult" and (t.a[1] == C(-1) or t.a[2] == C(-1)):
            sign, t = -sign, (t.a[2] if t.a[1] == C(-1) else t.a[1])
        else:
            break
    return sign, t


def gib_atoms(t):
    return {x for x in subterms(t) if isinstance(x, T) and x.op == "attr" and x.a[1] == "greater_is_better"}


def rel_pc(ev, ref_pc):
    n = 0
    for a, b in zip(ev.pc, ref_pc):
        if a != b:
            break
        n += 1
    return ev.pc[n:]


# ----------------------------------------------------------------------------- metric classes: greater_is_better is a bool
def type_greater_is_better(ctx, repo):
    """Every concrete metric class stores a Python bool (literal or bool-defaulted parameter) in
    ``greater_is_better``.  Returns True when all stores are typed."""
    mod = repo.module(CLASSES)
    base = repo.cls(CLASSES + ":_MetricFunctionWrapper")
    all_ok = True
    n = 0
    for c in [base] + repo.subclasses(base):
        hit = repo.lookup_method(c, "__init__")
        if hit is None:
            continue
        k, init = hit
        it = Interp(repo, policy=lambda kind, name, target, fr: kind == "super" and name == "__init__")
        r = it.run(k.module, init, {}, cls=c, defcls=k)
        loc = ctx.loc(k.module, init)
        name = "%s.__init__:greater_is_better" % c.name
        if r.unsupported or not r.returns:
            ctx.undecided("R1", name, "constructor not interpretable", loc)
            all_ok = False
            continue
        vals = set()
        for st, _ in r.returns:
            vals.add(st.heap.get("greater_is_better"))
        good = True
        for v in vals:
            if is_const(v, True, False) and isinstance(cval(v), bool):
                continue
            if isinstance(v, T) and v.op == "param":
                d = astq.param_defaults(init).get(v.a[0])
                if d is not None and isinstance(getattr(d, "value", None), bool):
                    continue
            good = False
        n += 1
        ctx.check(True if good else None, "R1", name, "stores a Python bool (%s)" % ", ".join(show(v) for v in vals),
                  "value stored in greater_is_better is not typed as a Python bool: %s" % ", ".join(show(v) for v in vals), loc)
        all_ok = all_ok and good
    # the factory forwards its bool-defaulted parameter
    f = repo.func(CLASSES, "make_forecasting_scorer")
    it = Interp(repo)
    r = it.run(mod, f, {})
    ok = None
    for st, t in r.returns:
        if is_call(t) and isinstance(t.a[0], T) and t.a[0].op == "fn" and t.a[0].a[0].endswith("._MetricFunctionWrapper"):
            b = bind_terms(base.methods["__init__"], *call_args(t))
            d = astq.param_defaults(f).get("greater_is_better")
            if b is None or "**" in b or "*" in b:
                ok = None
            else:
                ok = b.get("greater_is_better") == P("greater_is_better") and isinstance(getattr(d, "value", None), bool)
    ctx.check(ok, "R1", "make_forecasting_scorer:greater_is_better", "forwards its bool-defaulted greater_is_better unchanged",
              "make_forecasting_scorer does not forward greater_is_better unchanged", ctx.loc(mod, f))
    return all_ok and bool(ok) and n > 0


def wrapper_signs(ctx, repo):
    """What every metric wrapper's ``__call__`` returns relative to the metric function's value:
    {class name: {g: +1 | -1}} for greater_is_better = g.  The direction declared by the metric must be applied
    exactly once between the metric function and the selected index (R1), so a wrapper that flips the sign
    changes what the tuner's ``ascending=`` has to be."""
    mod = repo.module(CLASSES)
    signs = {}
    probe = 3.0
    for c in sorted(repo.classes.values(), key=lambda k: k.qual):
        if c.module is not mod or "__call__" not in c.methods:
            continue
        f = c.methods["__call__"]
        it = Interp(repo)
        r = it.run(mod, f, {}, cls=c, defcls=c)
        loc = ctx.loc(mod, f)
        name = "%s.__call__" % c.name
        res = {}
        why = None
        if r.unsupported or not r.returns:
            why = "not interpretable"
        else:
            for g in (True, False):
                val = {attr(SELF, "greater_is_better"): g}
                for _, t in r.returns:
                    for x in subterms(t):
                        if is_call(x) and x.a[0] == attr(SELF, "_func"):
                            val[x] = probe
                try:
                    vals = set()
                    pcs = [st.pc for st, _ in r.returns]
                    from ._c07_prov import valuations
                    for v, _free in valuations(pcs, val):
                        for st, t in r.returns:
                            if pc_holds(st.pc, v):
                                vals.add(ceval(t, v))
                    if vals == {probe}:
                        res[g] = 1
                    elif vals == {-probe}:
                        res[g] = -1
                    else:
                        why = "returns %s for greater_is_better=%r" % (sorted(map(repr, vals)), g)
                except Undef as u:
                    why = "return value is not +/- the metric function's value: %s" % show(u.args[0] if u.args else "?")[:120]
        if why is not None or len(res) != 2:
            ctx.undecided("R1", name + ":value", why or "?", loc)
            signs[c.name] = None
        else:
            desc = "the metric function's own value" if res == {True: 1, False: 1} else \
                "%s the metric when greater_is_better, %s otherwise" % ("minus" if res[True] < 0 else "plus", "minus" if res[False] < 0 else "plus")
            ctx.ok("R1", name + ":value", "returns " + desc, loc)
            signs[c.name] = res
    return signs


def direction_wrong(picks_low, signs):
    """``picks_low[g]``: the tuner selects the lowest *ranked* value for greater_is_better = g.  Combined with each wrapper's
    sign the lowest *metric* must be selected iff not g.  Returns [(g, wrapper name, sign)] of the failing combinations."""
    wrong = []
    if not any(sg is not None for sg in signs.values()):
        signs = {"<metric>": {True: 1, False: 1}}  # nothing known about the wrappers: the raw metric value is ranked
    for w, sg in sorted(signs.items()):
        if sg is None:
            continue
        for g in (True, False):
            lowest_metric = picks_low[g] == (sg[g] == 1)
            if lowest_metric != (not g):
                wrong.append((g, w, sg[g]))
    return wrong


# ----------------------------------------------------------------------------- fit()
class FitAnalysis:
    def __init__(self, repo, cls):
        self.repo, self.cls = repo, cls
        hit = repo.lookup_method(cls, "fit")
        if hit is None:
            raise AnalysisError("anchor missing: %s.fit" % cls.name)
        self.defcls, self.fn = hit
        self.mod = self.defcls.module
        self.V = Validators(repo)
        self.interp = Interp(repo, policy=self.policy, max_depth=5)
        self.res = self.interp.run(self.mod, self.fn, {}, cls=cls, defcls=self.defcls)
        self.events = self.res.events

    def policy(self, kind, name, target, fr):
        # _run_search and any other helper method of the tuner module (e.g. a closure lifted to ``self._fit_and_score``) are
        # followed with bound parameters exactly like the closures; public API members and the guard stay symbolic
        if kind != "method":
            return False
        k, _f = target
        return name == "_run_search" or (k.module.relpath == TUNE and name not in DESIGNED_MEMBERS
                                         and name not in ("fit", "check_is_fitted", "__init__"))

    def strips_to(self, t, core):
        return self.V.strip(t) == core

    def is_scoring(self, t):
        return self.V.strip(t) == attr(SELF, "scoring")


def check_fit(ctx, repo, out, cls, bool_typed, eval_score_key, signs):
    A = FitAnalysis(repo, cls)
    scen = cls.name
    mod = A.mod
    D = A.defcls.name
    loc0 = ctx.loc(mod, A.fn)
    ctx.count("tuner classes")

    def L(ev):
        m = ev.frame.module if ev.frame is not None else mod
        return ctx.loc(m, ev.node)

    for node, why in A.res.unsupported:
        out.add(scen, "undecided", "R3", "%s.fit:interpretable" % D, why, ctx.loc(mod, node))
    finals = [(st, t) for st, t in A.res.returns]
    if len(finals) != 1:
        out.add(scen, "undecided", "R4", "%s.fit:returns" % D, "fit has %d normal return paths" % len(finals), loc0)
        return A
    fst, fret = finals[0]
    heap = fst.heap
    ret_ev = [e for e in A.events if e.kind == "return" and not e.stack][-1]

    # ------------------------------------------------ R1 direction
    bi = heap.get("best_index_")
    stores = {e.attr: e for e in A.events if e.kind == "store" and not e.stack}
    loc_bi = L(stores["best_index_"]) if "best_index_" in stores else loc0
    G = None
    ranked_col = None  # (table, column term) of the column that is ranked / selected on
    # the results table: pd.DataFrame(<per-candidate map>)
    res_table = None
    tables = [e for e in A.events if e.kind == "call" and not e.stack and e.callee == fn("pandas.DataFrame") and e.args
              and isinstance(acc_source(e.args[0])[0], T) and acc_source(e.args[0])[0].op == "map"]
    if len(tables) == 1:
        res_table = tables[0].term
        # the table holds the rows of *this* search only: an accumulator it is built from starts empty in this call of fit
        stale = [b_ for b_ in acc_source(tables[0].args[0])[1] if not (isinstance(b_, T) and b_.op == "list" and not b_.a[0])]
        out.check(scen, not stale, "R2", "%s.fit:results-of-this-search" % D, "the results table is built from this search's candidates only",
                  "the results table is built from the accumulator %s, which fit never resets: a second fit (or a tuner whose __init__ created "
                  "it) ranks the rows of earlier searches as well, and best_index_ can point at a candidate of a previous fit"
                  % (show(stale[0]) if stale else ""), L(tables[0]), vkey="accumulator-not-reset")
    if bi is None:
        out.add(scen, "violation", "R1", "%s.fit:best_index_" % D, "fit does not store best_index_", loc0, "not-stored")
    else:
        def sel_parts(t):
            if is_mcall(t) and t.a[0].a[1] in MIN_SEL + MAX_SEL and not t.a[1]:
                return t.a[0].a[1], t.a[0].a[0]
            return None

        def unwrap(series):
            while True:
                if isinstance(series, T) and series.op == "attr" and series.a[1] == "values":
                    series = series.a[0]
                elif is_mcall(series, "to_numpy") and not series.a[1] and not series.a[2]:
                    series = series.a[0].a[0]
                else:
                    return series

        sp = sel_parts(bi)
        if sp is not None:
            how, series = sp
            series = unwrap(series)
            # a row-filtered column (tbl.loc[mask, c] / col.dropna() / col[mask]): arg-min is then a *position in the filtered
            # series*, while best_score_/best_params_ are cells of the full table
            filtered = None
            while True:
                if is_mcall(series, "dropna") and not series.a[1]:
                    filtered, series = "dropna()", series.a[0].a[0]
                    continue
                if isinstance(series, T) and series.op == "sub" and isinstance(series.a[0], T) and series.a[0].op == "attr" \
                        and series.a[0].a[1] == "loc" and isinstance(series.a[1], T) and series.a[1].op == "tuple" and len(series.a[1].a[0]) == 2:
                    rows_, col_ = series.a[1].a[0]
                    if not (isinstance(rows_, T) and rows_.op == "slice") and not is_const(rows_):
                        filtered = show(rows_)[:60]
                        series = sub(series.a[0], T("tuple", (T("slice", None, None, None), col_)))
                        continue
                break
            positional = how in ("argmin", "argmax")
            if filtered is not None and positional:
                out.add(scen, "violation", "R2", "%s.fit:best_index_:same-table" % D,
                        "best_index_ is the %s *position* in a row-filtered series (%s) but best_score_/best_params_ use it as a row of the full "
                        "results table: whenever a filtered-out candidate precedes the winner another candidate's row is reported" % (how, filtered),
                        loc_bi, "position-in-filtered-series")
            else:
                out.add(scen, "ok", "R2", "%s.fit:best_index_:same-table" % D,
                        "best_index_ is %s" % ("a row label (%s)" % how if not positional else "the arg-min position over all rows of the results "
                                               "table (default RangeIndex: position == label)"), loc_bi)
            co = column_of(series)
            rank_val = lookup_col(co[0], co[1]) if co is not None else (series if is_mcall(series, "rank") else None)
            direct = None
            if rank_val is None and isinstance(series, T) and (series.op in ("ifexp", "unop", "binop")):
                # arg-extremum taken directly on the score column, possibly sign-normalised under a test of greater_is_better
                gsx = gib_atoms(series)
                try:
                    per_g = {}
                    for g in (True, False):
                        sg, core = signed(resolve_cond(series, {x: g for x in gsx}))
                        sg2, core = signed(resolve_cond(core, {x: g for x in gsx}))
                        per_g[g] = (sg * sg2, column_of(core))
                    if per_g[True][1] is not None and per_g[True][1] == per_g[False][1]:
                        direct = per_g
                except Undef:
                    direct = None
            if direct is not None:
                ranked_col = direct[True][1]
                out.check(scen, None if res_table is None else table_core(ranked_col[0]) == res_table, "R1", "%s.fit:ranked-table" % D,
                          "the selected column belongs to the table of per-candidate results",
                          "the selected column is taken from another table than the per-candidate results", loc_bi, vkey="table")
                picks_low = {g: (how in MIN_SEL) == (direct[g][0] == 1) for g in direct}
                wrong = direction_wrong(picks_low, signs)
                out.check(scen, not wrong, "R1", "%s.fit:rank-direction" % D,
                          "%s of the score column with sign %+d / %+d for greater_is_better = True / False selects the best candidate"
                          % (how, direct[True][0], direct[False][0]),
                          "greater_is_better=%r: %s of %s the mean score (wrapper %s returns %s the metric) selects the worst candidate"
                          % (wrong[0][0], how, "minus" if direct[wrong[0][0]][0] < 0 else "plus", wrong[0][1], "minus" if wrong[0][2] < 0 else "plus")
                          if wrong else "", loc_bi, vkey="direct")
                gsx = gib_atoms(series)
                if gsx:
                    out.check(scen, all(A.is_scoring(x.a[0]) for x in gsx), "R1", "%s.fit:rank-direction:metric" % D,
                              "direction is read from the checked self.scoring", "direction is read from another object than the metric used for "
                              "evaluation", loc_bi, vkey="other-metric")
                    G = sorted(gsx, key=repr)[0]
                out.add(scen, "ok", "R1", "%s.fit:best-index-selects-rank-1" % D, "direct arg-extremum of the (sign-normalised) score column", loc_bi)
            elif rank_val is not None and is_mcall(rank_val, "rank"):
                args, kw = call_args(rank_val)
                asc = kw.get("ascending", C(True))
                if rank_val.node is not None:
                    loc_bi = ctx.loc(mod, rank_val.node)
                scored = rank_val.a[0].a[0]
                sc = column_of(scored)
                if sc is not None:
                    ranked_col = sc
                    out.check(scen, None if res_table is None else table_core(sc[0]) == res_table, "R1", "%s.fit:ranked-table" % D,
                              "the ranked column belongs to the table of per-candidate results",
                              "the ranked column is taken from another table than the per-candidate results", loc_bi, vkey="table")
                # whose direction?
                gs = [x for x in subterms(asc) if isinstance(x, T) and x.op == "attr" and x.a[1] == "greater_is_better"]
                Gs = {x for x in gs}
                verdict, detail, vkey = None, "", None
                if len(Gs) == 1:
                    G = Gs.pop()
                    try:
                        rows = []
                        for g in (True, False):
                            v = ceval(asc, {G: g})
                            rows.append((g, v))
                        wrong = [(g, v) for g, v in rows if bool(v) != (not g)]
                        combined = direction_wrong({g: bool(v) for g, v in rows}, signs)
                        flipped = [x for x in combined if x[2] != 1]
                        uses_invert = any(isinstance(x, T) and x.op == "unop" and x.a[0] == "Invert" for x in subterms(asc))
                        if uses_invert and not bool_typed:
                            verdict, detail = None, "`~` is applied to greater_is_better whose stores could not be typed as Python bool"
                        elif flipped or (combined and not wrong):
                            g, w, sg = (flipped or combined)[0]
                            verdict = False
                            detail = ("direction applied %s: %s.__call__ returns %s the metric for greater_is_better=%r and the tuner ranks with "
                                      "ascending=%s (%r): the candidate with the %s metric value gets rank 1"
                                      % ("twice" if sg != 1 else "wrongly", w, "minus" if sg < 0 else "plus", g, show(asc), dict(rows)[g],
                                         "lowest" if g else "highest"))
                            vkey = show(asc).replace(show(G), "g") + "*" + w
                        elif wrong and combined:
                            g, v = wrong[0]
                            verdict = False
                            detail = ("ascending=%s evaluates to %r (%s) for greater_is_better=%r, expected %r: the %s candidate gets rank 1"
                                      % (show(asc), v, "truthy" if v else "falsy", g, (not g), "worst" if g else "worst"))
                            vkey = show(asc).replace(show(G), "g")
                        elif wrong:
                            verdict, detail = True, ("ascending=%s (table: %s) together with the sign the metric wrappers apply selects the best "
                                                     "candidate: the direction is applied exactly once" % (show(asc), rows))
                        else:
                            verdict, detail = True, "ascending=%s is the Boolean negation of greater_is_better (table: %s)" % (show(asc), rows)
                    except Undef as u:
                        verdict, detail = None, "ascending expression not evaluable: %s" % show(u.args[0] if u.args else asc)
                elif not gs:
                    if is_const(asc):
                        combined = direction_wrong({True: bool(cval(asc)), False: bool(cval(asc))}, signs)
                        if combined:
                            g, w, sg = combined[0]
                            verdict, detail, vkey = False, ("rank(ascending=%r) ignores greater_is_better while %s.__call__ returns %s the metric for "
                                                            "greater_is_better=%r: the worst candidate gets rank 1"
                                                            % (cval(asc), w, "minus" if sg < 0 else "plus", g)), "const"
                        else:
                            verdict, detail = True, ("rank(ascending=%r) and every metric wrapper returns a value whose lowest is best: the "
                                                     "direction is applied once, inside the wrappers" % cval(asc))
                    else:
                        verdict, detail = None, "ascending=%s does not mention greater_is_better" % show(asc)
                else:
                    verdict, detail = None, "ascending mentions several greater_is_better objects"
                out.add(scen, "ok" if verdict else ("undecided" if verdict is None else "violation"), "R1", "%s.fit:rank-direction" % D,
                        detail, loc_bi, vkey)
                if G is not None:
                    out.check(scen, A.is_scoring(G.a[0]), "R1", "%s.fit:rank-direction:metric" % D,
                              "direction is read from the checked self.scoring",
                              "direction is read from %s, not from the metric used for evaluation" % show(G.a[0]), loc_bi, vkey="other-metric")
                out.check(scen, how in MIN_SEL, "R1", "%s.fit:best-index-selects-rank-1" % D, "best_index_ = %s of the rank column" % how,
                          "best_index_ = %s of the rank column selects the worst-ranked candidate" % how, loc_bi, vkey=how)
            else:
                out.add(scen, "undecided", "R1", "%s.fit:rank-direction" % D, "best_index_ is %s of something that is not a rank column: %s"
                        % (how, show(series)), loc_bi)
        elif isinstance(bi, T) and bi.op == "ifexp" and sel_parts(bi.a[1]) and sel_parts(bi.a[2]):
            test = bi.a[0]
            (h1, s1), (h2, s2) = sel_parts(bi.a[1]), sel_parts(bi.a[2])
            gs = {x for x in subterms(test) if isinstance(x, T) and x.op == "attr" and x.a[1] == "greater_is_better"}
            if len(gs) == 1 and s1 == s2 and column_of(s1) is not None:
                G = gs.pop()
                ranked_col = column_of(s1)
                out.check(scen, None if res_table is None else table_core(ranked_col[0]) == res_table, "R1", "%s.fit:ranked-table" % D,
                          "the selected column belongs to the table of per-candidate results",
                          "the selected column is taken from another table than the per-candidate results", loc_bi, vkey="table")
                try:
                    picks = {}
                    for g in (True, False):
                        picks[g] = (h1 if bool(ceval(test, {G: g})) else h2)
                    wrong = direction_wrong({g: picks[g] in MIN_SEL for g in picks}, signs)
                    out.check(scen, not wrong, "R1", "%s.fit:rank-direction" % D, "idxmax when greater is better, idxmin otherwise",
                              "greater_is_better=%r selects by %s while %s.__call__ returns %s the metric"
                              % (wrong[0][0], picks[wrong[0][0]], wrong[0][1], "minus" if wrong[0][2] < 0 else "plus") if wrong else "",
                              loc_bi, vkey="ifexp" + ("*" + wrong[0][1] if wrong and wrong[0][2] != 1 else ""))
                    out.check(scen, A.is_scoring(G.a[0]), "R1", "%s.fit:rank-direction:metric" % D, "direction is read from the checked self.scoring",
                              "direction is read from %s" % show(G.a[0]), loc_bi, vkey="other-metric")
                    out.add(scen, "ok", "R1", "%s.fit:best-index-selects-rank-1" % D, "direct arg-extremum of the score column", loc_bi)
                except Undef as u:
                    out.add(scen, "undecided", "R1", "%s.fit:rank-direction" % D, "selection condition not evaluable: %s" % show(test), loc_bi)
            else:
                out.add(scen, "undecided", "R1", "%s.fit:rank-direction" % D, "conditional selection not understood: %s" % show(bi), loc_bi)
        else:
            core_bi = bi
            while is_call(core_bi) and isinstance(core_bi.a[0], T) and core_bi.a[0].op == "fn" and core_bi.a[0].a[0] in ("builtins.int", "numpy.int64") \
                    and len(core_bi.a[1]) == 1:
                core_bi = core_bi.a[1][0]
            tol = [x for x in subterms(core_bi) if is_call(x) and isinstance(x.a[0], T) and x.a[0].op == "fn"
                   and x.a[0].a[0] in ("numpy.isclose", "math.isclose", "numpy.allclose")]
            if is_mcall(core_bi) and core_bi.a[0].a[1] in MIN_SEL + MAX_SEL and tol and contains(core_bi.a[0].a[0], tol[0]):
                out.add(scen, "violation", "R1", "%s.fit:best-index-selects-rank-1" % D,
                        "best_index_ is the first candidate whose score is within the tolerance of %s (absolute atol=1e-8 by default) of the best "
                        "score, not the best candidate: with scores of that magnitude the first grid entry wins whatever its rank"
                        % tol[0].a[0].a[0], loc_bi, "tolerance-tie")
            out.add(scen, "undecided", "R1", "%s.fit:rank-direction" % D, "best_index_ is not an arg-min/arg-max: %s" % show(bi), loc_bi)

    # ------------------------------------------------ candidates (needed by R1 column check and R3)
    evals = [e for e in A.events if e.kind == "call" and e.callee == fn(EVALUATE)]
    maps = [x for x in (subterms(res_table) if res_table is not None else []) if isinstance(x, T) and x.op == "map"]
    cand_map = maps[0] if len(maps) == 1 else None
    score_col = None
    prefix = None
    if len(evals) != 1 or cand_map is None or not is_call(res_table, fn("pandas.DataFrame")) \
            or acc_source(res_table.a[1][0] if res_table.a[1] else None)[0] != cand_map:
        out.add(scen, "undecided", "R3", "%s.fit:candidates" % D, "expected one evaluate() call inside one per-candidate map feeding "
                "pd.DataFrame(...) (found %d evaluate call(s), %d map(s))" % (len(evals), len(maps)), loc0)
    else:
        ev = evals[0]
        lid = cand_map.a[3]
        elem = cand_map.a[1]
        row = cand_map.a[0]
        info = A.interp.fnmap.get(EVALUATE)
        b = bind_terms(info[2], ev.args, ev.kwargs, skip_self=False) if info else None
        if b is None or "*" in b or "**" in b or "!unknown" in b:
            out.add(scen, "undecided", "R3", "%s.fit:evaluate-call" % D, "arguments of evaluate() cannot be bound", L(ev))
        else:
            out.check(scen, lid in ev.ctxs, "R3", "%s.fit:evaluate-per-candidate" % D, "evaluate() runs once per candidate",
                      "evaluate() is not called inside the per-candidate map", L(ev))
            # candidate object
            fo = b.get("forecaster")
            params = None
            if isinstance(fo, T) and fo.op == "withparams":
                obj, params = fo.a
            else:
                obj = fo
            vk = None
            if is_call(obj, CLONE) and obj.a[1] and obj.a[1][0] == attr(SELF, "forecaster"):
                if lid not in obj.ctx:
                    vk, msg = "shared-clone", "one clone of self.forecaster is shared by all candidates (created outside the per-candidate call)"
                elif params is None:
                    vk, msg = "params-not-set", "the candidate's parameters are never set on the evaluated clone"
                elif params != elem:
                    vk, msg = "other-params", "parameters set on the clone are %s, not the candidate %s" % (show(params), show(elem))
                else:
                    msg = "fresh clone(self.forecaster).set_params(**candidate)"
                out.add(scen, "violation" if vk else "ok", "R3", "%s.fit:candidate-object" % D, msg, L(ev), vk)
            elif obj == attr(SELF, "forecaster"):
                out.add(scen, "violation", "R3", "%s.fit:candidate-object" % D, "self.forecaster itself (not a clone) is parameterised and fitted "
                        "for every candidate: the constructor argument is mutated and candidates share state", L(ev), "not-cloned")
            else:
                out.add(scen, "undecided", "R3", "%s.fit:candidate-object" % D, "evaluated object not understood: %s" % show(fo), L(ev))
            # shared arguments
            want = {"cv": lambda t: A.strips_to(t, attr(SELF, "cv")), "y": lambda t: A.strips_to(t, P("y")),
                    "X": lambda t: A.strips_to(t, P("X")), "scoring": A.is_scoring, "strategy": lambda t: t == attr(SELF, "strategy")}
            for p, pred in want.items():
                t = b.get(p)
                if t is None:
                    out.add(scen, "violation", "R3", "%s.fit:evaluate(%s)" % (D, p), "evaluate() receives no %s (its default is used)" % p, L(ev), "missing")
                    continue
                dep = contains(t, elem) or any(isinstance(x, T) and x.op == "elem" and x.a[1] == lid for x in subterms(t))
                if dep:
                    out.add(scen, "violation", "R3", "%s.fit:evaluate(%s)" % (D, p), "%s depends on the candidate: %s" % (p, show(t)), L(ev), "per-candidate")
                elif pred(t):
                    out.add(scen, "ok", "R3", "%s.fit:evaluate(%s)" % (D, p), "%s is %s for every candidate" % (p, show(A.V.strip(t))), L(ev))
                else:
                    core = A.V.strip(t)
                    known = core in (P("y"), P("X"), attr(SELF, "cv"), attr(SELF, "scoring"), attr(SELF, "strategy"), NONE) or is_const(core) \
                        or (isinstance(core, T) and core.op == "sub" and isinstance(core.a[0], T) and core.a[0].op == "attr"
                            and core.a[0].a[1] in ("iloc", "loc") and A.V.strip(core.a[0].a[0]) in (P("y"), P("X")))
                    out.check(scen, False if known else None, "R3", "%s.fit:evaluate(%s)" % (D, p), "",
                              "evaluate() receives %s as %s" % (show(core), p), L(ev), vkey=show(core))
            if "fit_params" in b:
                out.check(scen, b["fit_params"] == T("kwargs", "fit_params") if A.fn.args.kwarg is not None else None, "R3",
                          "%s.fit:evaluate(fit_params)" % D, "fit's **fit_params are forwarded",
                          "evaluate() receives fit_params=%s" % show(b["fit_params"]), L(ev), vkey="other")
            # aggregate
            agg = row
            pentry = None
            while isinstance(agg, T) and agg.op == "setcol":
                if agg.a[1] == C("params"):
                    pentry = agg.a[2]
                agg = agg.a[0]
            out.check(scen, pentry == elem if pentry is not None else False, "R3", "%s.fit:row-params" % D, "row['params'] is the candidate",
                      "row['params'] is %s, not the evaluated candidate" % (show(pentry) if pentry is not None else "missing"), L(ev), vkey="params")
            # every way the row is derived from the evaluate() table: method chain, with joins (phi) and row selections made explicit
            def chains(t, depth=0):
                if t == ev.term:
                    return [[]]
                if depth > 12 or not isinstance(t, T):
                    return None
                if t.op in ("phi", "ifexp"):
                    res = []
                    for x in (t.a[0] if t.op == "phi" else (t.a[1], t.a[2])):
                        r_ = chains(x, depth + 1)
                        if r_ is None:
                            return None
                        res.extend(r_)
                    return res
                if is_mcall(t):
                    r_ = chains(t.a[0].a[0], depth + 1)
                    return None if r_ is None else [c + [("m", t)] for c in r_]
                if t.op == "sub" and isinstance(t.a[0], T) and t.a[0].op == "attr" and t.a[0].a[1] in ("iloc", "loc"):
                    idx = t.a[1]
                    cols_only = isinstance(idx, T) and idx.op == "tuple" and len(idx.a[0]) == 2 and isinstance(idx.a[0][0], T) \
                        and idx.a[0][0].op == "slice" and idx.a[0][0].a == (None, None, None)
                    r_ = chains(t.a[0].a[0], depth + 1)
                    return None if r_ is None else [c + [("cols" if cols_only else "rows", t)] for c in r_]
                return None

            allc = chains(agg)
            ROW_DROPPERS = ("head", "tail", "sample", "dropna", "query", "drop_duplicates", "nlargest", "nsmallest", "truncate")
            if allc:
                partial = []
                for c in allc:
                    seen_mean = False
                    for kind, term in c:
                        if kind == "m" and term.a[0].a[1] in ("mean", "median", "sum", "min", "max"):
                            seen_mean = True
                        if not seen_mean and (kind == "rows" or (kind == "m" and term.a[0].a[1] in ROW_DROPPERS)):
                            partial.append(show(term.a[1]) if kind == "rows" else term.a[0].a[1] + "()")
                out.check(scen, not partial, "R3", "%s.fit:aggregate:all-folds" % D, "every fold of the evaluate() table enters the aggregate",
                          "on some path folds are removed (%s) before the aggregate: the row is not the mean over all splits and differs from an "
                          "independent evaluate() run" % ", ".join(sorted(set(partial)))[:120], L(ev), vkey="not-all-folds")
                longest = max(allc, key=len)
                chain = [term for kind, term in reversed(longest) if kind == "m"]
                t = ev.term
            else:
                chain, t = [], None
            names = [c.a[0].a[1] for c in reversed(chain)]
            if t != ev.term:
                out.add(scen, "undecided", "R3", "%s.fit:aggregate" % D, "row is not derived from the evaluate() result by method calls", L(ev))
            else:
                aggs = [n for n in names if n in ("mean", "median", "min", "max", "sum", "std", "last", "first", "prod")]
                out.check(scen, None if len(aggs) != 1 else aggs == ["mean"], "R3", "%s.fit:aggregate" % D, "fold scores are aggregated by .mean()",
                          "fold scores are aggregated by .%s(), not by the mean" % (aggs[0] if aggs else "?"), L(ev), vkey=aggs[0] if aggs else None)
                for c in chain:
                    nm = c.a[0].a[1]
                    args, kw = call_args(c)
                    if nm == "mean":
                        ax = kw.get("axis", args[0] if args else C(0))
                        out.check(scen, ax in (C(0), C("index"), NONE), "R3", "%s.fit:aggregate:axis" % D, "mean over the folds (rows)",
                                  "mean is taken over axis=%s" % show(ax), L(ev), vkey="axis")
                    if nm == "filter":
                        ax = kw.get("axis", args[3] if len(args) > 3 else None)
                        out.check(scen, None if ax is None else ax in (C(1), C("columns")), "R3", "%s.fit:aggregate:filter-axis" % D,
                                  "score columns are selected (axis=1)", "filter(...) selects along axis=%s, not the columns" % show(ax), L(ev), vkey="axis")
                        items = kw.get("items", args[0] if args else None)
                        if isinstance(items, T) and items.op in ("list", "tuple"):
                            sc = [x for x in items.a[0] if isinstance(x, T) and x.op == "cat"]
                            if len(sc) == 1:
                                score_col = sc[0]
                    if nm == "add_prefix" and args and is_const(args[0]):
                        prefix = cval(args[0])
                if score_col is None or prefix is None:
                    out.add(scen, "undecided", "R3", "%s.fit:score-column" % D, "filter(items=[...]) / add_prefix(...) idiom not found (%s)" % names, L(ev))
                else:
                    # the column evaluate() writes: 'test_' + <its checked scoring>.name
                    good = None
                    if eval_score_key is not None and isinstance(score_col, T) and score_col.op == "cat" and len(score_col.a[0]) == 2:
                        pre, nm = score_col.a[0]
                        epre, enm = eval_score_key
                        good = pre == epre and isinstance(nm, T) and nm.op == "attr" and nm.a[1] == enm and b.get("scoring") is not None \
                            and A.V.strip(nm.a[0]) == A.V.strip(b.get("scoring"))
                    out.check(scen, good, "R3", "%s.fit:score-column" % D, "aggregated column is the one evaluate() writes for the scoring it receives",
                              "aggregated column %s is not the score column evaluate() writes (%s + scoring.%s of the scoring passed to evaluate)"
                              % (show(score_col), show(eval_score_key[0]) if eval_score_key else "?", eval_score_key[1] if eval_score_key else "?"),
                              L(ev), vkey="column")
            # generator
            cands = strip_list(elem.a[0])
            if isinstance(cands, T) and cands.op == "ifexp":
                # candidates created only when a cached attribute is still unset (first-call-only guard, H1)
                cached = [x for x in (cands.a[1], cands.a[2]) if isinstance(x, T) and x.op == "attr" and x.a[0] == SELF and contains(cands.a[0], x)]
                fresh = [x for x in (cands.a[1], cands.a[2]) if is_call(x) and isinstance(x.a[0], T) and x.a[0].op == "fn" and x.a[0].a[0] in GENERATORS]
                if cached and fresh:
                    out.add(scen, "violation", "R3", "%s._run_search:generator" % cls.name,
                            "the candidate generator is created only while self.%s is unset and reused afterwards: a second fit after "
                            "set_params(%s=...) (or with another random_state / n_iter) still searches the candidates of the first fit"
                            % (cached[0].a[1], GENERATORS[fresh[0].a[0].a[0]][0]), loc0, "cached-generator")
                    cands = None
            if isinstance(cands, T) and cands.op == "loopout":
                # candidates collected in a loop (e.g. over the sub-grids of a list-valued param_grid)
                nm_, init_, end_, lid_ = cands.a
                keeps = any(isinstance(x, T) and x.op == "carried" and x.a[0] == nm_ for x in subterms(end_))
                gens = [x for x in subterms(end_) if is_call(x) and isinstance(x.a[0], T) and x.a[0].op == "fn" and x.a[0].a[0] in GENERATORS]
                lp_ = A.interp.loops.get(lid_)
                src_ok = False
                if lp_ is not None and gens:
                    from ._c07_prov import arms as _arms
                    srcs = _arms(lp_.iter) or [lp_.iter]
                    src_ok = all(x == attr(SELF, GENERATORS[gens[0].a[0].a[0]][0]) or
                                 (isinstance(x, T) and x.op == "list" and x.a[0] == (attr(SELF, GENERATORS[gens[0].a[0].a[0]][0]),)) for x in srcs) \
                        and all(g_.a[1][:1] == (T("elem", strip_list(lp_.iter), lid_),) for g_ in gens)
                if gens and not keeps:
                    out.add(scen, "violation", "R3", "%s._run_search:generator" % cls.name,
                            "the candidate list is re-bound in every iteration of the loop over the sub-grids (%s): only the candidates of the last "
                            "sub-grid are evaluated" % show(end_)[:100], loc0, "last-sub-grid-only")
                elif gens and keeps and src_ok:
                    out.add(scen, "ok", "R3", "%s._run_search:generator" % cls.name, "the candidates of every sub-grid of self.%s are accumulated"
                            % GENERATORS[gens[0].a[0].a[0]][0], loc0)
                else:
                    out.add(scen, "undecided", "R3", "%s._run_search:generator" % cls.name, "candidate accumulation not understood: %s" % show(end_)[:120], loc0)
                cands = None
            if isinstance(cands, T) and cands.op == "attr" and cands.a[0] == SELF:
                # candidates read from an attribute: where is it established?  (H4: must not be a copy frozen in __init__)
                hit = repo.lookup_method(cls, "__init__")
                frozen = None
                if hit is not None:
                    it0 = Interp(repo, policy=lambda kind, name, target, fr: kind == "super" and name == "__init__")
                    r0 = it0.run(hit[0].module, hit[1], {}, cls=cls, defcls=hit[0])
                    vals = {st.heap.get(cands.a[1]) for st, _ in r0.returns}
                    if len(vals) == 1:
                        frozen = vals.pop()
                if is_call(frozen) and isinstance(frozen.a[0], T) and frozen.a[0].op == "fn" and frozen.a[0].a[0] in GENERATORS:
                    out.add(scen, "violation", "R3", "%s._run_search:generator" % cls.name,
                            "the candidates are %s built in __init__ and stored in self.%s; _run_search reuses that copy, so after "
                            "set_params(%s=...) (which only rebinds the public attribute) fit still searches the old candidates"
                            % (show(frozen), cands.a[1], GENERATORS[frozen.a[0].a[0]][0]), ctx.loc(hit[0].module, hit[1]), "frozen-in-__init__")
                    cands = None
            if cands is None:
                pass
            elif is_call(cands) and isinstance(cands.a[0], T) and cands.a[0].op == "fn" and cands.a[0].a[0] in GENERATORS:
                sig = GENERATORS[cands.a[0].a[0]]
                args, kw = call_args(cands)
                bound = dict(zip(sig, args))
                bound.update(kw)
                short = cands.a[0].a[0].rsplit(".", 1)[-1]
                for p in sig:
                    t = bound.get(p)
                    out.check(scen, t == attr(SELF, p), "R3", "%s._run_search:%s(%s)" % (cls.name, short, p), "%s receives self.%s" % (short, p),
                              "%s receives %s=%s, not self.%s" % (short, p, show(t) if t is not None else "<default>", p), loc0,
                              vkey=show(t) if t is not None else "default")
                out.check(scen, not cand_map.a[2], "R3", "%s.fit:all-candidates" % D, "every generated candidate is evaluated",
                          "candidates are filtered before evaluation", loc0, vkey="filtered")
                # constructor keeps the generator arguments
                hit = repo.lookup_method(cls, "__init__")
                if hit is not None:
                    it = Interp(repo, policy=lambda kind, name, target, fr: kind == "super" and name == "__init__")
                    r = it.run(hit[0].module, hit[1], {}, cls=cls, defcls=hit[0])
                    for p in sig + ["forecaster", "cv", "scoring", "strategy", "refit"]:
                        vals = {st.heap.get(p) for st, _ in r.returns}
                        out.check(scen, vals == {P(p)}, "R3", "%s.__init__:%s" % (cls.name, p), "constructor stores %s unchanged" % p,
                                  "constructor stores %s in self.%s" % (", ".join(show(v) for v in vals), p), ctx.loc(hit[0].module, hit[1]), vkey="ctor")
            else:
                out.add(scen, "undecided", "R3", "%s._run_search:generator" % cls.name, "candidate generator not recognised: %s" % show(cands), loc0)

    # the ranked column is prefix + score column of the aggregated rows
    if ranked_col is not None:
        want = None
        if score_col is not None and prefix is not None:
            from ._c07_prov import make_cat
            want = make_cat([C(prefix), score_col])
        got = ranked_col[1]
        out.check(scen, None if want is None else got == want, "R1", "%s.fit:ranked-column" % D, "candidates are ranked on %s" % show(got),
                  "candidates are ranked on column %s but the aggregated score column is %s" % (show(got), show(want)), loc_bi, vkey=show(got))

    # ------------------------------------------------ R2 one row
    for name, colpred, coldesc in (("best_score_", lambda c: ranked_col is not None and c == ranked_col[1], "the ranked mean-score column"),
                                   ("best_params_", lambda c: c == C("params"), "'params'")):
        v = heap.get(name)
        locv = L(stores[name]) if name in stores else loc0
        if v is None:
            out.add(scen, "undecided", "R2", "%s.fit:%s" % (D, name), "fit does not store %s" % name, loc0)
            continue
        ce = cell_of(v)
        if ce is None and isinstance(v, T) and v.op == "sub":
            # a cell of a (sign-normalised / conditional) column: series.loc[row] / series[row]
            ser = v.a[0].a[0] if isinstance(v.a[0], T) and v.a[0].op == "attr" and v.a[0].a[1] in ("loc", "iloc", "at", "iat") else v.a[0]
            gsx = gib_atoms(ser)
            try:
                sg = {}
                cols = set()
                for g in (True, False):
                    s1, core = signed(resolve_cond(ser, {x: g for x in gsx}))
                    s2, core = signed(resolve_cond(core, {x: g for x in gsx}))
                    sg[g] = s1 * s2
                    cols.add(column_of(core))
                if len(cols) == 1 and None not in cols:
                    tb_, cl_ = cols.pop()
                    ce = (tb_, v.a[1], cl_)
                    if name == "best_score_":
                        neg = [g for g in sg if sg[g] != 1]
                        out.check(scen, not neg, "R2", "%s.fit:best_score_:sign" % D, "best_score_ is the mean score itself",
                                  "best_score_ is read from a sign-normalised temporary: for greater_is_better=%r it is minus the mean score of "
                                  "the best candidate (cv_results_ holds the positive value)" % (neg[0] if neg else None), locv, vkey="negated")
            except Undef:
                ce = None
        if ce is None:
            out.add(scen, "undecided", "R2", "%s.fit:%s" % (D, name), "%s is not a single table cell: %s" % (name, show(v)), locv)
            continue
        tbl, r_, c_ = ce
        out.check(scen, None if res_table is None else table_core(tbl) == res_table, "R2", "%s.fit:%s:table" % (D, name), "read from the results table",
                  "%s is read from another table than the ranked one" % name, locv, vkey="table")
        out.check(scen, None if bi is None else r_ == bi, "R2", "%s.fit:%s:row" % (D, name), "read at best_index_",
                  "%s is read at row %s, not at best_index_" % (name, show(r_)), locv, vkey=show(r_) if len(show(r_)) < 40 else "other-row")
        out.check(scen, None if (name == "best_score_" and ranked_col is None) else colpred(c_), "R2", "%s.fit:%s:column" % (D, name), "read from %s" % coldesc,
                  "%s is read from column %s, expected %s" % (name, show(c_), coldesc), locv, vkey=show(c_))
    bfv = heap.get("best_forecaster_")

    def unfit(t):
        """``est.fit(...)`` returns ``est`` (sktime contract, C04-R5): the object stored is the receiver."""
        from ._c07_prov import arms as _arms, phi
        if _arms(t) is not None:
            return phi([unfit(x) for x in _arms(t)])
        while is_mcall(t, "fit"):
            t = t.a[0].a[0]
        return t

    bfv = unfit(bfv) if bfv is not None else None
    locb = L(stores["best_forecaster_"]) if "best_forecaster_" in stores else loc0
    if bfv is None:
        out.add(scen, "undecided", "R2", "%s.fit:best_forecaster_" % D, "fit does not store best_forecaster_", loc0)
    elif isinstance(bfv, T) and bfv.op == "withparams" and is_call(bfv.a[0], CLONE) and bfv.a[0].a[1][:1] == (attr(SELF, "forecaster"),):
        out.check(scen, bfv.a[1] == heap.get("best_params_"), "R2", "%s.fit:best_forecaster_" % D,
                  "clone(self.forecaster).set_params(**best_params_)", "best_forecaster_ is parameterised with %s, not with best_params_"
                  % show(bfv.a[1]), locb, vkey="other-params")
    elif is_call(bfv, CLONE) and bfv.a[1][:1] == (attr(SELF, "forecaster"),):
        out.add(scen, "violation", "R2", "%s.fit:best_forecaster_" % D, "best_forecaster_ is a clone without the best parameters", locb, "params-not-set")
    elif (isinstance(bfv, T) and bfv.op == "withparams" and bfv.a[0] == attr(SELF, "forecaster")) or bfv == attr(SELF, "forecaster"):
        out.add(scen, "violation", "R2", "%s.fit:best_forecaster_" % D, "best_forecaster_ is self.forecaster itself, not a clone", locb, "not-cloned")
    else:
        out.add(scen, "undecided", "R2", "%s.fit:best_forecaster_" % D, "best_forecaster_ not understood: %s" % show(bfv), locb)
    cvr = heap.get("cv_results_")
    if cvr is not None:
        out.check(scen, None if res_table is None else table_core(cvr) == res_table, "R2", "%s.fit:cv_results_" % D,
                  "cv_results_ is the ranked table", "cv_results_ is not the table best_* are read from", loc0, vkey="table")
    # the outcome of the search is (re-)established by every fit: each result attribute is stored on every normal path
    from ._c07_prov import UNBOUND
    for name in ("cv_results_", "best_index_", "best_score_", "best_params_", "best_forecaster_"):
        v = heap.get(name)
        from ._c07_prov import arms as _arms
        partial = isinstance(v, T) and (v == UNBOUND or (_arms(v) is not None and any(x == UNBOUND or x == attr(SELF, name) for x in _arms(v))))
        out.check(scen, v is not None and not partial, "R2", "%s.fit:stores(%s)" % (D, name), "fit stores %s on every path" % name,
                  "fit %s %s: after fit the attribute is missing (AttributeError on access), after a second fit it is the previous search's value"
                  % ("never stores" if v is None else "stores only on some paths", name), loc0, vkey="not-stored")

    # ------------------------------------------------ the "no fits" rejection only rejects an empty search
    lens = {}
    for e in A.events:
        if e.kind == "raise":
            for t, _ in e.pc:
                for x in subterms(t):
                    if is_call(x, fn("builtins.len")) and len(x.a[1]) == 1 and isinstance(strip_list(x.a[1][0]), T) \
                            and strip_list(x.a[1][0]).op == "map":
                        lens.setdefault(x, []).append(e)
    for lt, evs_ in lens.items():
        try:
            rejected = []
            for n_ in (0, 1, 2, 3):
                from ._c07_prov import valuations
                for val, _free in valuations([e.pc for e in evs_], {lt: n_}):
                    if any(pc_holds(e.pc, val) for e in evs_):
                        rejected.append(n_)
                        break
            bad = [n_ for n_ in rejected if n_ >= 1]
            out.check(scen, not bad, "R3", "%s.fit:rejects-only-empty-search" % D, "a search is rejected only when no candidate was evaluated",
                      "a search with %d evaluated candidate(s) is rejected (ValueError) after all its fits were run: a one-candidate grid / n_iter=1 "
                      "is a legal search whose sole candidate must be selected and refitted" % (bad[0] if bad else 0), L(evs_[0]), vkey="n=%s" % (bad[:1],))
        except Undef:
            pass

    # ------------------------------------------------ R4 refit / fitted flag
    anyfit = [e for e in A.events if e.kind == "call" and not e.stack and isinstance(e.callee, T) and e.callee.op == "attr"
              and e.callee.a[1] == "fit"]
    refits = [e for e in anyfit if bfv is not None and unfit(e.callee.a[0]) == bfv]
    base = repo.cls(BASE + ":BaseForecaster")
    if not refits:
        out.add(scen, "violation" if not anyfit else "undecided", "R4", "%s.fit:refit" % D,
                "best_forecaster_.fit(...) is never called in fit" if not anyfit else
                "a .fit(...) call exists but its receiver is not recognised as best_forecaster_", loc0, "missing")
    for ev in refits:
        b = bind_terms(base.methods["fit"], ev.args, ev.kwargs)
        if b is None or "*" in b:
            out.add(scen, "undecided", "R4", "%s.fit:refit" % D, "arguments of the refit cannot be bound", L(ev))
            continue
        for p, core in (("y", P("y")), ("X", P("X")), ("fh", P("fh"))):
            t = b.get(p)
            if t is None:
                out.add(scen, "violation", "R4", "%s.fit:refit(%s)" % (D, p), "refit does not receive %s" % p, L(ev), "missing")
                continue
            st_ = A.V.strip(t)
            if st_ == core:
                out.add(scen, "ok", "R4", "%s.fit:refit(%s)" % (D, p), "refit receives fit's own %s" % p, L(ev))
            else:
                part = any(A.V.strip(x) in (P("y"), P("X"), P("fh")) for x in subterms(st_)) or is_const(st_)
                out.check(scen, False if part else None, "R4", "%s.fit:refit(%s)" % (D, p), "",
                          "refit receives %s as %s, not fit's own %s (the whole series)" % (show(st_), p, p), L(ev), vkey=show(st_)[:60])
    try:
        bad = None
        for flag in (True, False):
            n = sum(1 for ev in refits if pc_holds(rel_pc(ev, ret_ev.pc), {attr(SELF, "refit"): flag}))
            if n != (1 if flag else 0) and bad is None:
                bad = (flag, n)
        if refits:
            out.check(scen, bad is None, "R4", "%s.fit:refit:guard" % D, "refit runs exactly when self.refit is true",
                      "with refit=%r the winner is fitted %d time(s)" % bad if bad else "", L(refits[0]), vkey="refit=%r->%d" % bad if bad else None)
    except Undef as u:
        out.add(scen, "undecided", "R4", "%s.fit:refit:guard" % D, "condition of the refit not evaluable: %s" % show(u.args[0] if u.args else "?"), loc0)
    flag_ev = [e for e in A.events if e.kind == "store" and e.attr == "_is_fitted"]
    top = [e for e in A.events if not e.stack and e.kind in ("call", "store")]
    if len(flag_ev) == 1 and is_const(flag_ev[0].term) and not cval(flag_ev[0].term):
        out.add(scen, "violation", "R4", "%s.fit:_is_fitted" % D, "fit stores _is_fitted = %r: the tuner never counts as fitted and every "
                "member raises NotFittedError after fit" % cval(flag_ev[0].term), L(flag_ev[0]), "false")
    elif len(flag_ev) != 1 or flag_ev[0].term != C(True):
        out.add(scen, "violation" if not flag_ev else "undecided", "R4", "%s.fit:_is_fitted" % D,
                "fit stores _is_fitted %d time(s)" % len(flag_ev), loc0, "count")
    else:
        fe = flag_ev[0]
        later = [e for e in top if e.seq > fe.seq]
        uncond = rel_pc(fe, ret_ev.pc) == ()
        out.check(scen, not later and uncond, "R4", "%s.fit:_is_fitted-last" % D, "_is_fitted = True is the last effect of fit",
                  "_is_fitted = True is followed by %s (a failure there leaves a tuner that claims to be fitted)"
                  % ", ".join(sorted({show(e.callee) if e.kind == "call" else "self." + e.attr for e in later})[:3]) if later
                  else "_is_fitted = True is set only on some paths", L(fe), vkey="early" if later else "conditional")
    out.check(scen, fret == SELF, "R4", "%s.fit:returns-self" % D, "fit returns self", "fit returns %s" % show(fret), loc0, vkey="ret")
    return A


# ----------------------------------------------------------------------------- delegating members and the guard
def check_property_exception_visible(ctx, repo, out, cls):
    """Python semantics: when a *property* getter raises an AttributeError (or a subclass) and a class in the MRO defines
    ``__getattr__``, the exception is discarded and ``__getattr__(name)`` is called instead.  The guard of a delegating property
    raises NotFittedError, which derives from AttributeError, so no class in the tuner's MRO may define ``__getattr__``."""
    scen = cls.name
    exc = repo.cls("sktime/exceptions.py:NotFittedError")
    is_attr_err = any((not hasattr(k, "methods")) and k.rsplit(".", 1)[-1].split(":")[-1] == "AttributeError" for k in repo.mro(exc))
    props = [(k, nm) for k in repo.mro(cls) if hasattr(k, "methods") and k.module.relpath == TUNE for nm in k.properties
             if "getter" in k.properties[nm]]
    hit = repo.lookup_method(cls, "__getattr__")
    for k, nm in props:
        f = k.properties[nm]["getter"]
        guarded = any(astq.is_self_attr(c.func, attr="check_is_fitted") for c in astq.calls(f))
        if not guarded:
            continue
        tag = "%s.%s:not-fitted-error-visible" % (k.name, nm)
        if not is_attr_err or hit is None:
            out.add(scen, "ok", "R4", tag, "no __getattr__ in the MRO: the NotFittedError raised by the property's guard reaches the caller",
                    ctx.loc(k.module, f))
        else:
            out.add(scen, "violation", "R4", tag, "%s.__getattr__ is defined and NotFittedError derives from AttributeError: Python discards the "
                    "NotFittedError raised inside the property `%s` and calls __getattr__(%r) instead, so a tuner with refit=False does not raise "
                    "NotFittedError from `%s`" % (hit[0].name, nm, nm, nm), ctx.loc(hit[0].module, hit[1]), "swallowed-by-__getattr__")


def check_nested_set_params(ctx, repo):
    """Model conformance for ``clone(forecaster).set_params(**candidate)`` on composites (pipelines, multiplexers, ensembles):
    in ``_HeterogenousMetaEstimator._set_params`` every component replacement precedes the nested ``component__param`` update,
    otherwise ``{"forecaster": New(), "forecaster__sp": 6}`` writes sp into the component that is then thrown away."""
    rel = "sktime/base/_meta.py"
    k = repo.cls(rel + ":_HeterogenousMetaEstimator")
    f = k.methods.get("_set_params")
    if f is None:
        raise AnalysisError("anchor missing: _HeterogenousMetaEstimator._set_params")
    loc = ctx.loc(k.module, f)

    pnames = astq.param_names(f, skip_self=True)
    kw = T("kwargs", f.args.kwarg.arg) if f.args.kwarg is not None else None
    whole_val = call(attr(kw, "pop"), [P(pnames[0])]) if kw is not None and pnames else None

    def classify(ev):
        # helpers of the class are inlined, so the roles are decided by what is written, not by helper names:
        # setattr(self, <attr>, params.pop(<attr>)) = the whole list; any other setattr(self, ...) = a component replacement
        if ev.kind != "call" or not isinstance(ev.callee, T):
            return ()
        if ev.callee == fn("builtins.setattr") and ev.args[:1] == [SELF] and len(ev.args) == 3:
            return ("whole",) if ev.args[2] == whole_val else ("replace",)
        if ev.callee.op == "attr" and ev.callee.a[1] == "set_params" and is_call(ev.callee.a[0], fn("builtins.super")):
            return ("nested",)
        return ()

    it = Interp(repo, classify=classify, policy=lambda kind, name, target, fr: kind == "method" and target[0].module is k.module)
    r = it.run(k.module, f, {}, cls=k, defcls=k)
    if not anchor_unsupported(ctx, "R3", "_HeterogenousMetaEstimator._set_params", r, k.module):
        return
    rep = [e for e in r.events if "replace" in e.kinds]
    nest = [e for e in r.events if "nested" in e.kinds]
    whole = [e for e in r.events if "whole" in e.kinds]
    if not rep or len(nest) != 1:
        ctx.undecided("R3", "_HeterogenousMetaEstimator._set_params:order", "expected component replacement(s) and one super().set_params(...) "
                      "(found %d / %d)" % (len(rep), len(nest)), loc)
        return
    late = [e for e in rep if e.seq > nest[0].seq]
    ctx.check(not late, "R3", "_HeterogenousMetaEstimator._set_params:replace-before-nested",
              "components are replaced before nested component__param values are set",
              "a component is replaced after super().set_params(**nested): for {'forecaster': New(), 'forecaster__sp': 6} the nested value is "
              "written into the old component and lost, so candidates differing only in the nested parameter are the same forecaster", loc)
    ctx.check(all(e.seq < min(x.seq for x in rep) and e.seq < nest[0].seq for e in whole) if whole else True, "R3",
              "_HeterogenousMetaEstimator._set_params:whole-list-first", "the whole component list is set before single components / nested values",
              "the whole component list is assigned after components or nested values were set (they are overwritten)", loc)
    # the composites the tuner's quantifier names delegate their set_params to it
    for crel, cname in (("sktime/forecasting/compose/_pipeline.py", "TransformedTargetForecaster"),
                        ("sktime/forecasting/base/_meta.py", "_HeterogenousEnsembleForecaster")):
        c = repo.cls(crel + ":" + cname)
        sp = repo.lookup_method(c, "set_params")
        good = None
        if sp is not None and sp[0].module.relpath.startswith("sktime/"):
            calls_ = [x for x in astq.calls(sp[1]) if astq.is_self_attr(x.func, attr="_set_params")]
            target = repo.lookup_method(c, "_set_params")
            good = bool(calls_) and target is not None and target[1] is f
        ctx.check(good, "R3", "%s.set_params:delegates" % cname, "set_params goes through _HeterogenousMetaEstimator._set_params",
                  "%s.set_params does not go through the ordered _set_params" % cname, ctx.loc(c.module, c.node))


def check_no_frozen_ctor_state(ctx, repo):
    """Model conformance for ``clone(forecaster).set_params(**candidate)`` == "constructed with the candidate's parameters":
    ``set_params`` only rebinds the public parameters, so an attribute *derived* from a parameter in ``__init__`` (H4: frozen copy)
    keeps the old value unless ``fit`` re-establishes it on every path.  Decided for every forecaster class."""
    base = repo.cls(BASE + ":BaseForecaster")
    for c in repo.subclasses(base):
        hit = repo.lookup_method(c, "__init__")
        if hit is None:
            continue
        it = Interp(repo, policy=lambda kind, name, target, fr: kind == "super" and name == "__init__", max_depth=8)
        r = it.run(hit[0].module, hit[1], {}, cls=c, defcls=hit[0])
        loc = ctx.loc(hit[0].module, hit[1])
        tag = "%s.__init__:no-frozen-derived-state" % c.name
        params = set()
        for k in repo.mro(c):
            if hasattr(k, "methods") and "__init__" in k.methods:
                params |= set(astq.all_param_names(k.methods["__init__"]))
        derived = {}
        for st, _ in r.returns:
            for a, v in st.heap.items():
                deps = sorted({x.a[0] for x in subterms(v) if isinstance(x, T) and x.op == "param" and x.a[0] != "self"})
                if a not in params and deps:
                    derived[a] = (v, deps)
        if not derived:
            ctx.ok("R3", tag, "constructor keeps no value derived from its parameters", loc)
            continue
        fit = repo.lookup_method(c, "fit")
        stale, unknown = [], []
        for a, (v, deps) in sorted(derived.items()):
            if fit is None:
                unknown.append(a)
                continue
            fi = Interp(repo, classify=lambda ev, _a=a: ("restored",) if ev.kind == "store" and ev.attr == _a else (),
                        policy=lambda kind, name, target, fr: kind in ("method", "super") and name.startswith("_"), max_depth=4)
            fr_ = fi.run(fit[0].module, fit[1], {}, cls=c, defcls=fit[0])
            rets = [e for e in fr_.events if e.kind == "return" and not e.stack]
            if fr_.unsupported or not rets:
                if any(e.kind == "store" and e.attr == a for e in fr_.events):
                    unknown.append(a)
                else:
                    stale.append((a, v, deps))
            elif not all("restored" in e.must for e in rets):
                stale.append((a, v, deps))
        if stale:
            a, v, deps = stale[0]
            ctx.violation("R3", tag, "__init__ stores self.%s = %s, derived from %s, and fit does not re-establish it on every path: after "
                          "clone(f).set_params(%s=v) -- how the tuner configures every candidate and the winner -- the forecaster still uses the value "
                          "derived from the old %s, so candidates differing in %s are the same model" % (a, show(v)[:80], ", ".join(deps), deps[0], deps[0], deps[0]),
                          loc)
        elif unknown:
            ctx.undecided("R3", tag, "derived constructor state %s and fit is not interpretable" % unknown, loc)
        else:
            ctx.ok("R3", tag, "derived constructor state %s is re-established by fit on every path" % sorted(derived), loc)


def check_guard_method(ctx, repo, out, cls):
    hit = repo.lookup_method(cls, "check_is_fitted")
    if hit is None:
        raise AnalysisError("anchor missing: check_is_fitted")
    k, f = hit
    scen = cls.name
    name = "%s.check_is_fitted" % k.name
    loc = ctx.loc(k.module, f)
    params = astq.param_names(f, skip_self=True)
    if params != ["method_name"] and len(params) != 1:
        out.add(scen, "undecided", "R4", name + ":table", "unexpected signature (%s)" % ", ".join(params), loc)
        return None

    def classify(ev):
        if ev.kind == "call" and isinstance(ev.callee, T) and ev.callee.op == "attr" and ev.callee.a[1] == "check_is_fitted" \
                and is_call(ev.callee.a[0], fn("builtins.super")):
            return ("super_chk",)
        return ()

    it = Interp(repo, classify=classify)
    r = it.run(k.module, f, {}, cls=cls, defcls=k)
    for node, why in r.unsupported:
        out.add(scen, "undecided", "R4", name + ":interpretable", why, ctx.loc(k.module, node))
    mp = P(params[0])
    bad = None
    try:
        for mn in (None, "predict"):
            for refit in (True, False):
                val = {mp: mn, attr(SELF, "refit"): refit}
                rais = [(st, t) for st, t in r.raises if pc_holds(st.pc, val)]
                rets = [(st, t) for st, t in r.returns if pc_holds(st.pc, val)]
                inner = [e for e in r.events if e.kind == "call" and e.callee == attr(BF, "check_is_fitted") and pc_holds(e.pc, val)]
                if mn is not None and not refit:
                    ok = len(rais) == 1 and not rets and is_call(rais[0][1], fn("sktime.exceptions.NotFittedError"))
                elif mn is not None:
                    # the inner check is not redundant: fit(refit=False) then set_params(refit=True) (or a second fit failing in the
                    # final refit) leaves an unfitted best_forecaster_ behind a tuner whose own flag and `refit` both say "fitted"
                    ok = not rais and len(rets) == 1 and len(inner) == 1
                else:
                    ok = not rais and len(rets) == 1
                if not ok and bad is None:
                    bad = (mn, refit, len(rais), len(rets), len(inner))
    except Undef as u:
        out.add(scen, "undecided", "R4", name + ":table", "condition not evaluable: %s" % show(u.args[0] if u.args else "?"), loc)
        return params[0]
    out.check(scen, bad is None, "R4", name + ":table",
              "with a method name: refit=False raises NotFittedError, refit=True checks best_forecaster_; without: base check only",
              "method_name=%r refit=%r: %d raise(s), %d return(s), %d inner check(s)" % bad if bad else "", loc, vkey="table")
    firsts = [e for e in r.events if e.kind in ("call", "raise", "return") and e.callee != fn("builtins.super")]
    out.check(scen, bool(firsts) and "super_chk" in firsts[0].kinds and all("super_chk" in e.must for e in firsts[1:]), "R4",
              name + ":base-check-first", "super().check_is_fitted() precedes everything else",
              "the base not-fitted check does not come first", loc, vkey="order")
    return params[0]


def stale_after(repo, cls, copy_attr, what):
    """Names of the state-moving members that delegate to best_forecaster_ but do not afterwards store
    ``best_forecaster_.<what>`` into ``self.<copy_attr>`` on every path (None if not interpretable)."""
    out_ = []
    for m in STATE_MOVERS:
        hit = repo.lookup_method(cls, m)
        if hit is None or hit[0].module.relpath != TUNE:
            continue
        k, f = hit

        def classify(ev):
            if ev.kind == "call" and isinstance(ev.callee, T) and ev.callee.op == "attr" and ev.callee.a[0] == BF:
                return ("moved",)
            if ev.kind == "store" and ev.attr == copy_attr and ev.term == attr(BF, what) and "moved" in ev.must:
                return ("refreshed",)
            return ()

        it = Interp(repo, classify=classify)
        r = it.run(k.module, f, {}, cls=cls, defcls=k)
        if r.unsupported:
            return None
        rets = [e for e in r.events if e.kind == "return" and not e.stack]
        if any("moved" in e.must and "refreshed" not in e.must for e in rets):
            out_.append(m)
    return out_


def check_delegators(ctx, repo, out, cls, callsig, guard_param):
    base = repo.cls(BASE + ":BaseForecaster")
    scen = cls.name
    guard_hit = repo.lookup_method(cls, "check_is_fitted")
    members = []
    for k in repo.mro(cls):
        if not hasattr(k, "methods") or k is base or k.module.relpath != TUNE:
            continue
        for nm, f in k.methods.items():
            if nm in ("fit", "check_is_fitted", "__init__") or any(m[0] == nm for m in members):
                continue
            reads = [n for n in astq.self_attr_reads(f) if n.attr == "best_forecaster_"]
            if reads or nm in DESIGNED_MEMBERS:
                members.append((nm, k, f))
    ctx.count("delegating members", len(members))
    for nm, k, f in members:
        tag = "%s.%s" % (k.name, nm)
        loc = ctx.loc(k.module, f)

        def classify(ev, _k=k):
            if ev.kind == "call" and ev.callee == attr(SELF, "check_is_fitted"):
                return ("guard",)
            return ()

        it = Interp(repo, classify=classify)
        r = it.run(k.module, f, {}, cls=cls, defcls=k)
        for node, why in r.unsupported:
            out.add(scen, "undecided", "R4", tag + ":interpretable", why, ctx.loc(k.module, node))
        evs = [e for e in r.events if e.kind in ("call", "raise", "return", "store")]
        guards = [e for e in evs if "guard" in e.kinds]
        # guard first, with a method name
        if not guards:
            out.add(scen, "violation", "R4", tag + ":guard", "%s touches best_forecaster_ without calling check_is_fitted" % nm, loc, "missing")
        else:
            def mentions_bf(e):
                parts = [e.callee, e.term] + list(e.args) + list(e.kwargs.values())
                return any(isinstance(x, T) and contains(x, BF) for x in parts)

            first_ok = all("guard" in e.must for e in evs if "guard" not in e.kinds and mentions_bf(e))
            out.check(scen, first_ok, "R4", tag + ":guard-first", "check_is_fitted(...) is the first effect",
                      "best_forecaster_ can be used before check_is_fitted(...) ran", loc, vkey="order")
            g = guards[0]
            b = bind_terms(guard_hit[1], g.args, g.kwargs) if guard_hit else None
            if b is None or guard_param is None:
                out.add(scen, "undecided", "R4", tag + ":guard", "guard call cannot be bound", loc)
            else:
                t = b.get(guard_param, NONE)
                if is_const(t) and cval(t) is None:
                    out.add(scen, "violation", "R4", tag + ":guard", "check_is_fitted() is called without a method name: the refit=False case is "
                            "not rejected and %s returns the unfitted clone's value" % nm, ctx.loc(k.module, g.node), "no-method-name")
                elif is_const(t) and isinstance(cval(t), str):
                    out.add(scen, "ok", "R4", tag + ":guard", "check_is_fitted(%r)" % cval(t), ctx.loc(k.module, g.node))
                else:
                    out.add(scen, "undecided", "R4", tag + ":guard", "method name passed to the guard is %s" % show(t), ctx.loc(k.module, g.node))
        # forwarding
        own = astq.param_names(f, skip_self=True)
        dels = [e for e in evs if e.kind == "call" and isinstance(e.callee, T) and e.callee.op == "attr" and e.callee.a[0] == BF]
        rets = [(st, t) for st, t in r.returns]
        # defaults: tuner.m() must behave like best_forecaster_.m(), so a parameter that both signatures have carries the same default
        import ast as _ast
        bsig = base.methods.get(nm)
        if bsig is not None:
            bd, od = astq.param_defaults(bsig), astq.param_defaults(f)
            for pn in own:
                if pn in bd and pn in od:
                    a_, b_ = od[pn], bd[pn]
                    av = repo.resolve_expr(k.module, a_) if not isinstance(a_, _ast.Constant) else None
                    bv = repo.resolve_expr(base.module, b_) if not isinstance(b_, _ast.Constant) else None
                    va = a_.value if isinstance(a_, _ast.Constant) else (av.target.value if av is not None and av.kind == "const" and isinstance(av.target, _ast.Constant) else Ellipsis)
                    vb = b_.value if isinstance(b_, _ast.Constant) else (bv.target.value if bv is not None and bv.kind == "const" and isinstance(bv.target, _ast.Constant) else Ellipsis)
                    if va is Ellipsis or vb is Ellipsis:
                        out.add(scen, "undecided", "R4", "%s:default(%s)" % (tag, pn), "default values are not constants", loc)
                    else:
                        out.check(scen, type(va) is type(vb) and va == vb, "R4", "%s:default(%s)" % (tag, pn), "default %r equals the delegate's" % (va,),
                                  "tuner.%s(...) defaults %s=%r but a forecaster's own %s defaults %s=%r: called without that argument the tuner does not "
                                  "behave like the forecaster built from best_params_" % (nm, pn, va, nm, pn, vb), loc, vkey="%r-vs-%r" % (va, vb))
        if not dels and nm not in k.properties:
            out.add(scen, "violation", "R4", tag + ":delegate", "%s never calls best_forecaster_.%s: the wrapped forecaster is not %s"
                    % (nm, nm, "updated" if "update" in nm else "used"), loc, "no-delegate-call")
            continue
        if not dels:
            # attribute delegation (property)
            good = bool(rets) and all(isinstance(t, T) and t.op == "attr" and t.a[0] == BF and t.a[1] == nm for _, t in rets)
            cached = [t for _, t in rets if isinstance(t, T) and t.op == "attr" and t.a[0] == SELF and t.a[1] != "best_forecaster_"]
            if good:
                out.add(scen, "ok", "R4", tag + ":delegate", "returns best_forecaster_.%s read at call time" % nm, loc)
            elif cached and len(cached) == len(rets):
                # a copy kept on the tuner is right only if every member that moves the delegate's state refreshes it
                stale = stale_after(repo, cls, cached[0].a[1], nm)
                if stale is None:
                    out.add(scen, "undecided", "R4", tag + ":delegate", "%s returns self.%s; the state-moving members are not interpretable"
                            % (nm, cached[0].a[1]), loc)
                else:
                    out.check(scen, not stale, "R4", tag + ":delegate",
                              "returns self.%s, which every state-moving member refreshes from best_forecaster_.%s" % (cached[0].a[1], nm),
                              "%s returns the copy self.%s instead of best_forecaster_.%s; %s move(s) the delegate's %s without refreshing the copy, "
                              "so the tuner reports a stale %s after it" % (nm, cached[0].a[1], nm, ", ".join(stale), nm, nm), loc, vkey="cached-copy")
            else:
                out.add(scen, "undecided", "R4", tag + ":delegate", "%s does not return best_forecaster_.%s: %s"
                        % (nm, nm, ", ".join(show(t) for _, t in rets)[:160]), loc)
            continue
        same = [e for e in dels if e.callee.a[1] == nm]
        out.check(scen, bool(same), "R4", tag + ":delegate", "delegates to best_forecaster_.%s" % nm,
                  "%s never calls best_forecaster_.%s (calls: %s)" % (nm, nm, ", ".join(sorted({e.callee.a[1] for e in dels}))), loc,
                  vkey=",".join(sorted({e.callee.a[1] for e in dels})))
        for e in dels:
            dn = e.callee.a[1]
            sig = base.methods.get(dn) or (f if dn == nm else None)
            if sig is None:
                out.add(scen, "undecided", "R4", tag + ":forward", "signature of best_forecaster_.%s unknown" % dn, ctx.loc(k.module, e.node))
                continue
            b = bind_terms(sig, e.args, e.kwargs)
            if b is None or "*" in b or "**" in b or "!unknown" in b:
                out.add(scen, "undecided" if b is None or "!unknown" not in b else "violation", "R4", tag + ":forward",
                        "arguments of best_forecaster_.%s cannot be bound%s" % (dn, (": unknown keyword(s) %s" % b["!unknown"]) if b and "!unknown" in b else ""),
                        ctx.loc(k.module, e.node), "unknown-keyword")
                continue
            # correspondence own parameter -> delegate parameter: same name, else same position
            dparams = astq.param_names(sig, skip_self=True)
            corr = {}
            for i, p in enumerate(own):
                corr[p] = p if p in dparams or p in [a.arg for a in sig.args.kwonlyargs] else (
                    dparams[i] if dn == nm and i < len(dparams) and dparams[i] not in own else None)
            for q, t in b.items():
                if isinstance(t, T) and t.op == "param" and t.a[0] in own and corr.get(t.a[0]) not in (None, q):
                    out.add(scen, "violation", "R4", "%s:forward(%s)" % (tag, t.a[0]), "%s's argument %s is passed as %s of best_forecaster_.%s"
                            % (nm, t.a[0], q, dn), ctx.loc(k.module, e.node), "as-" + q)
            if dn != nm:
                # another method of the delegate: own arguments the delegate also has (by name) must reach it
                for p in own:
                    if p in dparams and p not in b:
                        out.add(scen, "violation", "R4", "%s:forward(%s)" % (tag, p), "%s calls best_forecaster_.%s without its argument %s "
                                "(the delegate's default is used)" % (nm, dn, p), ctx.loc(k.module, e.node), "dropped")
            if dn == nm:
                for p in own:
                    q = corr.get(p)
                    if q is None:
                        out.add(scen, "undecided", "R4", "%s:forward(%s)" % (tag, p), "no corresponding parameter of the delegate", ctx.loc(k.module, e.node))
                        continue
                    t = b.get(q)
                    if t is None:
                        out.add(scen, "violation", "R4", "%s:forward(%s)" % (tag, p), "%s does not forward its argument %s (the delegate's default is used)"
                                % (nm, p), ctx.loc(k.module, e.node), "dropped")
                    elif t == P(p):
                        out.add(scen, "ok", "R4", "%s:forward(%s)" % (tag, p), "%s forwarded unchanged%s" % (p, "" if p == q else " (as %s)" % q),
                                ctx.loc(k.module, e.node))
                    elif not (isinstance(t, T) and t.op == "param"):
                        out.add(scen, "violation", "R4", "%s:forward(%s)" % (tag, p), "%s forwards %s instead of its argument %s" % (nm, show(t), p),
                                ctx.loc(k.module, e.node), "replaced")
        # return value
        metric_calls = [e for e in evs if e.kind == "call" and e.callee == attr(SELF, "scoring")]
        for e in metric_calls:
            if callsig is None:
                continue
            b = bind_terms(callsig, e.args, e.kwargs)
            preds = [d.term for d in dels if d.callee.a[1] == "predict"]
            good = b is not None and b.get("y_true") == P("y") and b.get("y_pred") in preds
            out.check(scen, good, "R4", tag + ":metric-roles", "self.scoring(y_true=y, y_pred=best_forecaster_.predict(...))",
                      "metric is called with y_true=%s, y_pred=%s" % (show(b.get("y_true")) if b else "?", show(b.get("y_pred")) if b else "?"),
                      ctx.loc(k.module, e.node), vkey="roles")
        if metric_calls:
            atom = T("cmp", "Is", attr(SELF, "scoring"), NONE)
            try:
                bad = None
                for isnone in (True, False):
                    val = {atom: isnone, attr(SELF, "scoring"): None if isnone else "<metric>"}
                    nmet = sum(1 for e in metric_calls if pc_holds(e.pc, val))
                    nown = sum(1 for e in same if pc_holds(e.pc, val))
                    if (nmet, nown) != ((0, 1) if isnone else (1, 0)) and bad is None:
                        bad = (isnone, nmet, nown)
                out.check(scen, bad is None, "R4", tag + ":metric-guard", "self.scoring is used iff it is not None",
                          "with self.scoring %s: %d metric call(s), %d best_forecaster_.%s call(s)"
                          % (("None" if bad[0] else "given"), bad[1], bad[2], nm) if bad else "", loc, vkey="guard")
            except Undef as u:
                out.add(scen, "undecided", "R4", tag + ":metric-guard", "condition not evaluable: %s" % show(u.args[0] if u.args else "?"), loc)
        okret = True
        for _, t in rets:
            if any(t == e.term for e in same) or any(t == e.term for e in metric_calls):
                continue
            if nm == "update" and t == SELF:
                continue
            okret = False
        out.check(scen, okret, "R4", tag + ":returns", "returns the delegate's result" if nm != "update" else "returns self after delegating",
                  "%s does not return the result of best_forecaster_.%s" % (nm, nm), loc, vkey="ret")


def run(ctx):
    repo = ctx.repo
    ctx.explain("C08: provenance dataflow through BaseGridSearch.fit for every concrete tuner (closures, _run_search and the "
                "Parallel/delayed map inlined): ranking direction evaluated with Python bool semantics over both values of "
                "greater_is_better (all stores typed as bool), table-cell normal forms for best_*, candidate object / shared "
                "arguments / aggregate column cross-checked against the column evaluate() writes, refit guard and fitted flag by "
                "path conditions, every delegating member's guard (non-None method name) and argument forwarding bound through "
                "BaseForecaster's signatures.")
    ctx.assume("pandas Series.rank(ascending=a) ranks ascending iff bool(a); argmin/idxmin of a rank picks rank 1; "
               "pd.DataFrame(list of Series) has a default RangeIndex so positions and labels coincide")
    ctx.assume("sklearn.base.clone returns a new unfitted estimator; set_params returns self; sklearn.model_selection.check_cv "
               "returns an object with .split unchanged; Parallel(...)(delayed(f)(x) for x in xs) == [f(x) for x in xs]")
    ctx.assume("ParameterGrid(param_grid) / ParameterSampler(param_distributions, n_iter, random_state=) signatures (pinned sklearn 0.24)")
    base = repo.cls(TUNE + ":BaseGridSearch")
    concrete = [c for c in repo.subclasses(base) if "_run_search" in c.methods]
    if not concrete:
        raise AnalysisError("no concrete tuner (subclass of BaseGridSearch defining _run_search) found")
    bool_typed = type_greater_is_better(ctx, repo)
    signs = wrapper_signs(ctx, repo)
    callsig = metric_call_signature(ctx, repo, report=False)
    # the score column evaluate() writes
    eval_key = None
    EA = EvalAnalysis(repo, True)
    for ev in EA.events:
        row_ = _c07_as_row(ev.args[0]) if "append" in ev.kinds and ev.args else None
        if isinstance(row_, T) and row_.op == "dict":
            scores = [e.term for e in EA.events if "score" in e.kinds]
            for kx, vx in row_.a[0]:
                if vx in scores and isinstance(kx, T) and kx.op == "cat" and len(kx.a[0]) == 2:
                    pre, nm = kx.a[0]
                    if isinstance(nm, T) and nm.op == "attr" and EA.is_scoring(nm.a[0]):
                        eval_key = (pre, nm.a[1])
    out = Merged(ctx)
    for cls in concrete:
        check_fit(ctx, repo, out, cls, bool_typed, eval_key, signs)
        gp = check_guard_method(ctx, repo, out, cls)
        check_delegators(ctx, repo, out, cls, callsig, gp)
        check_property_exception_visible(ctx, repo, out, cls)
    out.flush()
    check_nested_set_params(ctx, repo)
    # every row of cv_results_ is evaluate() run on the candidate: what C07 decides about evaluate() itself (roles at the metric call,
    # fold windows, strategy table, validators) is an obligation of the tuner as well
    from . import c07 as _c07
    _c07.reuse_rules(ctx, repo, "C07", _c07.run_core, [FUNCS, CLASSES], "R3", "evaluate-contract",
                     "each candidate's row and therefore the selection rest on evaluate()")
    check_no_frozen_ctor_state(ctx, repo)
    ctx.floor("R1", 36)
    ctx.floor("R2", 15)
    ctx.floor("R3", 71)
    ctx.floor("R4", 71)
