"""Exact symbolic array shapes over the canonical terms of ``_c06_sym`` (numpy broadcasting rules).

A shape is a tuple of dimensions; a dimension is the integer 1 or a symbol ("n" = horizon length,
"k" = number of outputs).  Two different symbols are different lengths in general, so an element-wise
combination that aligns "n" with "k" is a mis-aligned broadcast: numpy raises for most k, and silently
produces an (n, n) result when k == 1 (the univariate case, after ``_check_reg_targets`` made it (n, 1)).

``ShapeEval(world, env).shape(term)`` returns a shape, or None when it cannot be derived; mis-aligned
combinations are collected in ``.problems`` and underivable combinations that involve the horizon weights
in ``.uncertain``.  Repo-local callees are interpreted (their body is executed symbolically with the
actual shapes), library aggregators follow their documented alignment rules.
"""
from . import _c06_sym as S
from ._c06_sym import K, P, F, NONE

ELEMENTWISE_1 = {"numpy.abs", "numpy.square", "numpy.sqrt", "numpy.exp", "numpy.log", "numpy.asarray", "numpy.negative",
                 "numpy.log1p", "numpy.expm1", "numpy.sign", "numpy.isnan", "numpy.nan_to_num", "numpy.array"}
ELEMENTWISE_N = {"numpy.maximum", "numpy.minimum", "numpy.where", "numpy.power"}
REDUCE = {"numpy.sum": NONE, "numpy.mean": NONE, "numpy.median": NONE, "numpy.prod": NONE, "numpy.nansum": NONE,
          "scipy.stats.gmean": K(0)}
NEWAXIS = (NONE, F("numpy.newaxis"))


def fmt(s):
    return "(" + ", ".join(str(d) for d in s) + ("," if len(s) == 1 else "") + ")"


class ShapeEval:
    def __init__(self, world, env, weight_terms, fmod_name, depth=0):
        self.w = world
        self.env = dict(env)  # term -> shape
        self.weight_terms = list(weight_terms)
        self.fmod_name = fmod_name
        self.problems = []
        self.uncertain = []
        self.depth = depth

    # ------------------------------------------------------------------ helpers
    def _has_weight(self, t):
        return any(S.mentions(t, x) for x in self.weight_terms)

    def broadcast(self, terms, what):
        shapes = [self.shape(t) for t in terms]
        if any(s is None for s in shapes):
            if any(self._has_weight(t) for t in terms) and len(terms) > 1:
                self.uncertain.append("cannot derive the shapes combined in %s" % what)
            return None
        out = ()
        for s, t in zip(shapes, terms):
            res = []
            a, b = list(out), list(s)
            while len(a) < len(b):
                a.insert(0, 1)
            while len(b) < len(a):
                b.insert(0, 1)
            for d1, d2 in zip(a, b):
                if d1 == d2 or d2 == 1:
                    res.append(d1)
                elif d1 == 1:
                    res.append(d2)
                else:
                    self.problems.append(
                        "%s combines operands of shapes %s element-wise: numpy aligns the last axes, so axis of length %s "
                        "meets axis of length %s (error for general sizes; for a single output, k == 1, the (n,) operand "
                        "silently broadcasts against (n, 1) to an (n, n) result)"
                        % (what, " and ".join(fmt(x) for x in shapes), d1, d2))
                    return None
            out = tuple(res)
        return out

    def _reduce(self, s, axis, what):
        if s is None:
            return None
        if axis == NONE:
            return ()
        if axis[0] == "k" and isinstance(axis[1], int) and not isinstance(axis[1], bool):
            i = axis[1]
            if -len(s) <= i < len(s):
                s = list(s)
                del s[i]
                return tuple(s)
        return None

    # ------------------------------------------------------------------ main
    def shape(self, t):
        if t in self.env:
            return self.env[t]
        h = t[0]
        if h == "k":
            return () if not isinstance(t[1], (str, bytes)) else None
        if t == self.w.eps:
            return ()
        if h == "sum":
            return self.broadcast([x for _, x in t[2]], "`%s`" % S.show(t)[:120])
        if h == "prod":
            return self.broadcast(list(t[1]) + list(t[2]), "`%s`" % S.show(t)[:120])
        if h == "cmp":
            return self.shape(t[2])
        if h == "not":
            return self.shape(t[1])
        if h in ("and", "or"):
            return self.broadcast(list(t[1]), "`%s`" % S.show(t)[:120])
        if h == "idx":
            return self._index(t)
        if h == "attr":
            s = self.shape(t[1])
            if t[2] == "T" and s is not None:
                return tuple(reversed(s))
            if t[2] in ("ndim", "size"):
                return ()
            return None
        if h == "bin" and t[1] == "MatMult":
            return self._dot(t[2], t[3], t)
        if h == "call":
            return self._call(t)
        return None

    def _index(self, t):
        s = self.shape(t[1])
        if s is None:
            return None
        items = list(t[2][1]) if t[2][0] == "tuple" else [t[2]]
        out, i = [], 0
        for it in items:
            if it in NEWAXIS:
                out.append(1)
            elif it[0] == "slice":
                if i >= len(s):
                    return None
                # a slice keeps the axis (its length may change; the symbol stands for "along that axis")
                out.append(s[i])
                i += 1
            elif it[0] == "k" and isinstance(it[1], int):
                if i >= len(s):
                    return None
                i += 1
            else:
                return None
        return tuple(out) + tuple(s[i:])

    def _dot(self, a, b, t):
        sa, sb = self.shape(a), self.shape(b)
        if sa is None or sb is None:
            if self._has_weight(t):
                self.uncertain.append("cannot derive the shapes in `%s`" % S.show(t)[:120])
            return None
        if not sa or not sb:
            return self.broadcast([a, b], "`%s`" % S.show(t)[:120])
        inner_b = sb[0] if len(sb) == 1 else sb[-2]
        if sa[-1] != inner_b:
            self.problems.append("`%s` contracts an axis of length %s with an axis of length %s" % (S.show(t)[:120], sa[-1], inner_b))
            return None
        return tuple(sa[:-1]) + (tuple(sb[1:]) if len(sb) == 1 else tuple(sb[:-2]) + (sb[-1],))

    def _call(self, t):
        callee, pos, kw = t[1], t[2], dict(t[3])
        what = "`%s`" % S.show(t)[:140]
        if callee[0] == "attr" and callee[2] == "reshape":
            return self._reshape(callee[1], list(pos), what)
        if callee[0] != "f":
            return None
        d = callee[1]
        if d in ELEMENTWISE_1:
            a = kw.get("x", kw.get("a", pos[0] if pos else None))
            return self.shape(a) if a is not None else None
        if d in ELEMENTWISE_N and not pos:
            return self.broadcast([v for k_, v in sorted(kw.items()) if k_ in ("x1", "x2", "condition", "x", "y")], what)
        if d in REDUCE and not pos:
            return self._reduce(self.shape(kw.get("a")) if "a" in kw else None, kw.get("axis", REDUCE[d]), what)
        if d == "numpy.expand_dims" and not pos:
            s, ax = self.shape(kw.get("a")), kw.get("axis")
            if s is None or ax is None or ax[0] != "k" or not isinstance(ax[1], int):
                return None
            i = ax[1] if ax[1] >= 0 else len(s) + 1 + ax[1]
            return tuple(s[:i]) + (1,) + tuple(s[i:])
        if d == "numpy.reshape":
            if pos:
                return self._reshape(pos[0], list(pos[1:]), what)
            return None
        if d in ("numpy.dot", "numpy.matmul") and not pos and len(kw) == 2:
            a, b = [v for _, v in sorted(kw.items())]
            return self._dot(a, b, t)
        if d == "numpy.average" and not pos:
            s = self.shape(kw["a"]) if "a" in kw else None
            axis = kw.get("axis", NONE)
            wt = kw.get("weights", NONE)
            if wt != NONE:
                ws = self.shape(wt)
                if s is None or ws is None:
                    if self._has_weight(wt) and s is None:
                        self.uncertain.append("cannot derive the shape of the data averaged in %s" % what)
                elif ws != s:
                    i = axis[1] if axis[0] == "k" and isinstance(axis[1], int) else None
                    if len(ws) != 1 or i is None:
                        self.problems.append("%s: weights of shape %s for data of shape %s need a 1-D weight vector and an "
                                             "integer axis" % (what, fmt(ws), fmt(s)))
                    elif not (-len(s) <= i < len(s)) or s[i] != ws[0]:
                        self.problems.append("%s: 1-D weights of length %s are applied along axis %s whose length is %s"
                                             % (what, ws[0], i, s[i] if -len(s) <= i < len(s) else "?"))
            return self._reduce(s, axis, what)
        if d == "sklearn.utils.stats._weighted_percentile" and not pos:
            s, ws = self.shape(kw.get("array", NONE)), self.shape(kw.get("sample_weight", NONE))
            if s is None or ws is None:
                if "sample_weight" in kw and self._has_weight(kw["sample_weight"]):
                    self.uncertain.append("cannot derive the shapes passed to %s" % what)
                return None
            if not (ws == s or (len(ws) == 1 and s and ws[0] == s[0])):
                self.problems.append("%s: sample_weight of shape %s does not weight the rows of an array of shape %s"
                                     % (what, fmt(ws), fmt(s)))
            return tuple(s[1:])
        if d.startswith(self.fmod_name + "."):
            return self._local(d[len(self.fmod_name) + 1:], pos, kw, what)
        if d.startswith("builtins."):
            return () if d in ("builtins.isinstance", "builtins.len", "builtins.float", "builtins.int", "builtins.bool") else None
        return None

    def _reshape(self, base, dims, what):
        s = self.shape(base)
        if len(dims) == 1 and dims[0][0] == "tuple":
            dims = list(dims[0][1])
        if s is None or len(s) != 1:
            return None
        if dims == [K(-1), K(1)]:
            return (s[0], 1)
        if dims == [K(1), K(-1)]:
            return (1, s[0])
        if dims == [K(-1)]:
            return s
        return None

    def _local(self, name, pos, kw, what):
        """Element-wise kernels broadcast their data arguments; any other repo-local function is interpreted."""
        w = self.w
        if pos:
            return None
        if name in ("_percentage_error", "_relative_error", "_asymmetric_error"):
            return self.broadcast([v for k_, v in sorted(kw.items()) if k_ in ("y_true", "y_pred", "y_pred_benchmark")], what)
        if name in w.funcs or self.depth >= 3:
            return None
        fdef = w.fmod.defs.get(name)
        if fdef is None or not hasattr(fdef, "args"):
            return None
        names, dflt, _ = w.ex_shape.signature(w.fmod, fdef)
        bound = dict(dflt)
        bound.update(kw)
        if any(k_ not in names for k_ in bound) or any(k_ not in bound for k_ in names):
            return None
        # parameters that carry arrays keep their symbolic name (shape from the actual), scalars are passed as they are
        args, env, wts = {}, {}, []
        for k_, v in bound.items():
            sv = self.shape(v)
            if sv is not None and sv != ():
                args[k_] = P(k_)
                env[P(k_)] = sv
                if self._has_weight(v):
                    wts.append(P(k_))
            elif sv == () or v[0] == "k":
                args[k_] = v
            else:
                args[k_] = P(k_)
        try:
            paths = [p for p in w.ex_shape.run(w.fmod, fdef, args) if p.outcome == "return"]
        except S.Undecidable:
            return None
        result, first = None, True
        for p in paths:
            sub = ShapeEval(w, env, wts, self.fmod_name, self.depth + 1)
            feas = all(sub.cond_holds(a, v) is not False for a, v in p.conds)
            if not feas:
                continue
            sure = all(sub.cond_holds(a, v) is True for a, v in p.conds)
            s = sub.shape(p.value)
            for msg in sub.problems:
                (self.problems if sure else self.uncertain).append("inside %s(...): %s" % (name, msg))
            self.uncertain.extend("inside %s(...): %s" % (name, m) for m in sub.uncertain)
            if first:
                result, first = s, False
            elif result != s:
                result = None
        return result

    def cond_holds(self, atom, value):
        """Decide a path condition that only talks about ranks (``x.ndim``) and literals; None if it does not."""
        v = self._num(atom)
        if v is None:
            return None
        return bool(v) == value

    def _num(self, t):
        if t[0] == "k" and isinstance(t[1], (int, float, bool)):
            return t[1]
        if t[0] == "attr" and t[2] == "ndim":
            s = self.shape(t[1])
            return None if s is None else len(s)
        if S.is_call_to(t, "numpy.ndim") and (t[2] or t[3]):
            s = self.shape(t[2][0] if t[2] else t[3][0][1])
            return None if s is None else len(s)
        if t[0] == "sum":
            tot = t[1]
            for c, x in t[2]:
                v = self._num(x)
                if v is None:
                    return None
                tot = tot + c * v
            return tot
        if t[0] == "cmp":
            v = self._num(t[2])
            if v is None:
                return None
            return {"<": v < 0, "<=": v <= 0, ">": v > 0, ">=": v >= 0, "==": v == 0, "!=": v != 0}[t[1]]
        if t[0] == "not":
            v = self._num(t[1])
            return None if v is None else (not v)
        if t[0] in ("and", "or"):
            vs = [self._num(x) for x in t[1]]
            if any(v is None for v in vs):
                return None
            return all(vs) if t[0] == "and" else any(vs)
        if t[0] == "is" and NONE in t[1]:
            other = t[1][0] if t[1][1] == NONE else t[1][1]
            return False if self.shape(other) is not None else None
        return None
