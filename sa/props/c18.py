"""C18 -- .ts files: writer <-> parser contract, loader order, parser agreement.

The anchored functions are interpreted *as ASTs* over symbolic tokens (``_c18_mini``): the writer is run on every
combination of its options with a panel of opaque observation / label tokens, the text it emits is handed to the
interpreted parser, and the parser's own ``startswith`` / ``split`` / flag logic decides whether the header is
accepted (R1) and which tokens land where (R2).  The bundled-dataset loader (R3) and the three parsers (R4) are
interpreted the same way on abstract files.  Nothing is executed by Python itself and no table of tags or
separators lives in this file: both sides of the contract are re-read from the code on every run.
"""
import ast
import itertools

from ..cfg import block_always_raises
from ..index import AnalysisError
from .. import astq
from ._c18_mini import Interp, PyRaise, Undecided, ExcInstance
from . import _c18_models as M

IO = "sktime/utils/data_io.py"
DS = "sktime/datasets/base.py"
WRITER, READER = "write_dataframe_to_tsfile", "load_from_tsfile_to_dataframe"
ARFF, TSV = "load_from_arff_to_dataframe", "load_from_ucr_tsv_to_dataframe"


def T(name):
    return M.tok(name)


# --------------------------------------------------------------------------------------------- scenarios
OPTIONS = {
    # present-int: integer class values including 0; present-blank: one class is the empty string
    "class_label": ("absent", "empty", "present", "present-int", "present-blank"),
    "comment": ("no", "yes"),
    "length_header": ("none", "equal_length+series_length", "series_length"),
    "univariate": ("yes", "no"),
}
ROW_LABELS = [2, 0, 1, 3, 4, 5]  # the written panel has a non-default row index: labels must not be used as positions
# the comment is arbitrary text: long enough to be wrapped, and made of words the parser would read as tags if a
# wrapped line started with them (every line of the comment block must therefore carry the comment marker)
COMMENT = "note " + " ".join(["@data", "@problemName", "@classLabel true"] * 14)


def scenarios():
    keys = list(OPTIONS)
    for vals in itertools.product(*[OPTIONS[k] for k in keys]):
        yield dict(zip(keys, vals))


def scenario_inputs(sc):
    n = 3
    lens = [4, 4, 4] if sc["length_header"] != "none" else [3, 1, 2]
    cases = [[T("o%d_%d" % (i, k)) for k in range(lens[i])] for i in range(n)]
    labels = [T("c1"), T("c0"), T("c0")]
    kw = {"problem_name": T("pname")}
    if sc["univariate"] != "yes":
        kw["univariate"] = False  # "yes" relies on the writer's documented default (univariate=True)
    if sc["class_label"] == "present":
        kw["class_label"] = [T("c0"), T("c1")]
        kw["class_value_list"] = list(labels)
    elif sc["class_label"] == "present-blank":
        labels = [T("c1"), "", T("c0")]
        kw["class_label"] = [T("c0"), T("c1"), ""]
        kw["class_value_list"] = list(labels)
    elif sc["class_label"] == "present-int":
        labels = [1, 0, 0]
        kw["class_label"] = [0, 1]
        kw["class_value_list"] = list(labels)
    elif sc["class_label"] == "empty":
        kw["class_label"] = []
    if sc["comment"] == "yes":
        kw["comment"] = COMMENT
    if sc["length_header"] == "equal_length+series_length":
        kw["equal_length"] = True
        kw["series_length"] = 4
    elif sc["length_header"] == "series_length":
        kw["series_length"] = 4
    return cases, (labels if sc["class_label"].startswith("present") else None), kw


def sc_text(sc, keys=None):
    return ",".join("%s=%s" % (k, sc[k]) for k in (keys or sorted(sc)))


def aggregate(all_sc, failing):
    """Stable description of a set of failing scenarios: per option the set of values that occur among them, when
    exactly the scenarios with those values fail; otherwise one key per scenario."""
    uniq = []
    for s in failing:
        if s not in uniq:
            uniq.append(s)
    if not uniq:
        return []
    vals = {k: sorted({s[k] for s in uniq}) for k in uniq[0]}
    match = [s for s in all_sc if all(s[k] in vals[k] for k in vals)]
    if len(match) == len(uniq):
        parts = ["%s=%s" % (k, "|".join(vals[k])) for k in sorted(vals) if set(vals[k]) != {s[k] for s in all_sc}]
        return [("[%s]" % (",".join(parts) if parts else "all options"), uniq)]
    return [("[%s]" % sc_text(s), [s]) for s in uniq]


# --------------------------------------------------------------------------------- reader-side diagnostics
def header_vars(reader):
    """Names stored in the parser's tag branches (``if line.startswith('@...')``) -- only used to word messages."""
    names = set()
    for n in ast.walk(reader):
        if isinstance(n, ast.If):
            t = n.test
            if isinstance(t, ast.Call) and isinstance(t.func, ast.Attribute) and t.func.attr == "startswith" and t.args \
                    and isinstance(t.args[0], ast.Constant) and isinstance(t.args[0].value, str) and t.args[0].value.startswith("@"):
                for st in n.body:
                    for x in ast.walk(st):
                        if isinstance(x, ast.Name) and isinstance(x.ctx, ast.Store):
                            names.add(x.id)
    return names


def explain_raise(reader, err, env, hdr_names):
    node = err.node
    if node is None:
        return ""
    if isinstance(node, ast.Name):
        return "variable %s was never set" % node.id
    chain = astq.enclosing_stmts(reader, node)
    guards = [st for st in chain if isinstance(st, ast.If) and any(x is node for s in st.body + st.orelse for x in ast.walk(s))]
    if guards:
        used = {x.id for x in ast.walk(guards[-1].test) if isinstance(x, ast.Name)}
        unset = sorted(u for u in used & hdr_names if u in env and env[u] is False)
        if unset:
            return "parser state: %s still False" % ", ".join(unset)
    return ""


def exc_text(err):
    e = err.exc
    return "%s(%s)" % (e.cls_name, " ".join(str(a) for a in e.args)[:160]) if isinstance(e, ExcInstance) else str(e)


def reference_header(with_labels):
    return "@problemName %s\n@timeStamps false\n@univariate true\n@classLabel %s\n@data\n" % (
        T("pname"), ("true %s %s" % (T("c0"), T("c1"))) if with_labels else "false")


def reference_data(with_labels):
    cases = [[T("r%d_%d" % (i, k)) for k in range(n)] for i, n in enumerate((2, 3))]
    labels = [T("c0"), T("c1")] if with_labels else None
    text = "\n".join(",".join(c) + ((":" + labels[i]) if with_labels else "") for i, c in enumerate(cases))
    return text, cases, labels


def expected(cases, labels):
    X = M.FrameV({"dim_0": [M.SeriesV([M.Num(t[1:-1].lower()) for t in c]) for c in cases]})
    return X, ([str(l).lower() for l in labels] if labels is not None else None)


def matches(got, cases, labels, sep_form):
    """Does the parser's return value equal the panel (and labels) that were written?"""
    want_X, want_y = expected(cases, labels)
    if sep_form:
        if labels is not None:
            return isinstance(got, tuple) and len(got) == 2 and got[0] == want_X and got[1] == M.ArrV(want_y)
        return got == want_X
    if not isinstance(got, M.FrameV):
        return False
    if labels is None:
        return got == want_X
    lab_cols = [c for c in got.cols if c not in want_X.cols]
    return len(lab_cols) == 1 and got.cols[lab_cols[0]] == want_y and \
        M.FrameV({k: v for k, v in got.cols.items() if k in want_X.cols}) == want_X


def parse(repo, mod, reader, text, sep_form):
    """Interpret the parser on an abstract file; returns ('ok', value) | ('raise', PyRaise, interp, vfs) | ('undecided', why)."""
    vfs = M.VFS(by_basename={"abstract.ts": text})
    ri = Interp(repo, M.make_externals(vfs), M.to_float, M.str_hook)
    try:
        return ("ok", ri.call_entry(mod, reader, ["abstract.ts"], {} if sep_form else {"return_separate_X_and_y": False}))
    except Undecided as e:
        return ("undecided", str(e))
    except PyRaise as e:
        return ("raise", e, ri, vfs)


# -------------------------------------------------------------------------------------------------- R1 / R2
def rule_roundtrip(ctx, repo):
    """R1: written header + reference data lines must parse to the reference panel.
    R2: reference header + written data lines (and the complete written file) must parse to the written panel."""
    mod = repo.module(IO)
    writer, reader = repo.func(IO, WRITER), repo.func(IO, READER)
    wloc, rloc = ctx.loc(mod, writer), ctx.loc(mod, reader)
    hdr_names = header_vars(reader)
    all_sc = list(scenarios())
    wcov = set()
    fails = {}  # (rule, name, signature) -> ([scenarios], message)
    undec = []
    C0 = "%s->%s" % (WRITER, READER)

    def fail(rule, name, sig, sc, msg):
        fails.setdefault((rule, name, sig), ([], msg))[0].append(sc)

    def describe(res, text):
        e, ri, vfs = res[1], res[2], res[3]
        pos = vfs.last_reader.pos if vfs.last_reader is not None else 0
        lines = text.splitlines()
        line = ([""] + lines)[max(0, min(len(lines), pos))]
        why = explain_raise(reader, e, ri.top_env, hdr_names)
        return "the parser raises %s at input line %r%s" % (exc_text(e), line[:60], (" -- " + why) if why else "")

    for sc in all_sc:
        cases, labels, kw = scenario_inputs(sc)
        vfs = M.VFS()
        wi = Interp(repo, M.make_externals(vfs), M.to_float, M.str_hook)
        try:
            wi.call_entry(mod, writer, [M.PanelSym(cases, index=ROW_LABELS[:len(cases)]), "/out"], dict(kw))
        except Undecided as e:
            undec.append(("R1", "writer", sc, str(e)))
            continue
        except PyRaise as e:
            fail("R1", "header", ("writer-raises", getattr(e.node, "lineno", 0)), sc, "the writer itself raises %s" % exc_text(e))
            continue
        wcov |= wi.coverage
        written = [p for p, m in vfs.opened if "w" in m]
        if len(written) != 1:
            undec.append(("R1", "writer", sc, "expected one output file, found %d" % len(written)))
            continue
        text = vfs.files[written[0]].text()
        ctx.count("writer_scenarios")
        pos = [text.find(c[0][:-1]) for c in cases if c]  # stems of the observation tokens (they may have been altered / reordered)
        first = min([p for p in pos if p >= 0] or [-1])
        cut = text.rfind("\n", 0, first) + 1 if first >= 0 else len(text)
        w_header, w_data = text[:cut], text[cut:]
        has_labels = labels is not None
        tags = " ".join(l.split(" ")[0] for l in w_header.splitlines() if l.startswith("@"))
        # ---- R1: header as written, data lines of the reference format
        r_text, r_cases, r_labels = reference_data(has_labels)
        res = parse(repo, mod, reader, w_header + r_text, True)
        if res[0] == "undecided":
            undec.append(("R1", "reader", sc, res[1]))
        elif res[0] == "raise":
            fail("R1", "header", ("raise", getattr(res[1].node, "lineno", 0)), sc,
                 "a file with the written header and well-formed data lines is rejected: %s; tag lines written: %s" % (describe(res, w_header + r_text), tags))
        elif not matches(res[1], r_cases, r_labels, True):
            fail("R1", "header", ("mismatch",), sc, "with the written header, well-formed data lines are parsed as %s instead of %s; tag lines written: %s"
                 % (_short(res[1]), _short(expected(r_cases, r_labels)), tags))
        else:
            ctx.ok("R1", "%s:header[%s]" % (C0, sc_text(sc)), "header accepted: every required tag recognised with a valid value, "
                   "other pre-data lines skipped, data lines parsed as declared", wloc)
            header_ok = True
        header_ok = res[0] == "ok" and matches(res[1], r_cases, r_labels, True)
        if sc["univariate"] != "yes":
            continue  # multivariate data layout is outside the property's quantifier (univariate panels)
        # ---- R2: data lines as written under a reference header; then the complete written file
        for sep_form in (True, False):
            form = "X_y" if sep_form else "single-frame"
            res = parse(repo, mod, reader, reference_header(has_labels) + w_data, sep_form)
            c = "%s:data:%s[%s]" % (C0, form, sc_text(sc))
            if res[0] == "undecided":
                undec.append(("R2", "reader", sc, res[1]))
                continue
            if res[0] == "raise":
                fail("R2", "data:" + form, ("raise", getattr(res[1].node, "lineno", 0)), sc,
                     "the written data lines under a well-formed header are rejected: %s" % describe(res, reference_header(has_labels) + w_data))
                continue
            if not matches(res[1], cases, labels, sep_form):
                fail("R2", "data:" + form, ("mismatch",), sc, "the written data lines are parsed as %s but %s%s was written"
                     % (_short(res[1]), _short(expected(cases, labels)[0]), (" with labels %s" % labels) if labels else ""))
                continue
            if header_ok:
                whole = parse(repo, mod, reader, text, sep_form)
                if whole[0] == "undecided":
                    undec.append(("R2", "reader", sc, whole[1]))
                    continue
                if whole[0] == "raise" or not matches(whole[1], cases, labels, sep_form):
                    fail("R2", "data:" + form, ("whole",), sc, "header and data lines are each accepted but the complete written file is not: %s"
                         % (describe(whole, text) if whole[0] == "raise" else _short(whole[1])))
                    continue
            ctx.ok("R2", c, "parsed panel == written panel (instances, order, lengths, values) and labels", rloc)
    for (rule, name, sig), (scs, msg) in sorted(fails.items(), key=lambda kv: str(kv[0])):
        for key, group in aggregate(all_sc if not name.startswith("data") else [s for s in all_sc if s["univariate"] == "yes"], scs):
            ctx.violation(rule, "%s:%s%s" % (C0, name, key), "%s (%d of %d option combinations)" % (msg, len(group), len(all_sc)),
                          wloc if rule == "R1" else rloc, witness={"options": group[0]})
    for rule, who, sc, why in undec:
        ctx.undecided(rule, "%s:%s[%s]" % (C0, who, sc_text(sc)), why, wloc if who == "writer" else rloc)
    # the scenario set must exercise every branch of the writer (except branches that only raise)
    gaps = 0
    for n in ast.walk(writer):
        if isinstance(n, ast.If):
            for br, blk in ((True, n.body), (False, n.orelse)):
                if br and block_always_raises(blk):
                    continue
                if (id(n), br) not in wcov:
                    gaps += 1
                    ctx.undecided("R1", "%s:coverage:if@%s" % (WRITER, astq.canon(n.test)[:60]),
                                  "the %s branch of this writer condition is not reached by any option combination analysed; "
                                  "the header contract is not established for it" % br, ctx.loc(mod, n))
    if not gaps:
        ctx.ok("R1", WRITER + ":coverage", "every non-raising branch of the writer is exercised by the %d option combinations" % len(all_sc), wloc)


def _short(v):
    s = repr(v)
    return s if len(s) < 220 else s[:217] + "..."


# ------------------------------------------------------------------------------------------------------ R3
def abstract_ts(prefix, n, length=3, labels=("c1", "c0", "c1", "c0")):
    """A well-formed univariate .ts file over tokens (standard tags of the format, lower-cased by the parser)."""
    head = "@problemName %s\n@timeStamps false\n@univariate true\n@classLabel true %s %s\n@data\n" % (T("pname"), T("c0"), T("c1"))
    rows, labs, body = [], [], ""
    for i in range(n):
        obs = [T("%s%d_%d" % (prefix, i, k)) for k in range(length)]
        lab = T(labels[i % len(labels)] + prefix)
        rows.append(M.SeriesV([M.Num(o[1:-1]) for o in obs]))
        labs.append(lab)
        body += ",".join(obs) + ":" + lab + "\n"
    return head + body[:-1], rows, labs  # no terminating newline after the last case: legal, and present in bundled files


def rule_loader(ctx, repo):
    """Evaluated under both fixed iteration orders of sets (the order of a set is unspecified: code whose result
    depends on it must fail under one of them)."""
    mod = repo.module(DS)
    entries = ["_load_dataset"]
    reach = {"_load_dataset"}
    changed = True
    while changed:  # module-level call graph: everything that (transitively) loads through _load_dataset
        changed = False
        for nm, node in mod.defs.items():
            if isinstance(node, ast.FunctionDef) and nm not in reach and any(
                    isinstance(c.func, ast.Name) and c.func.id in reach for c in astq.calls(node)):
                reach.add(nm)
                changed = True
    for nm, node in mod.defs.items():
        if isinstance(node, ast.FunctionDef) and nm in reach and nm != "_load_dataset" \
                and {"split", "return_X_y"} <= set(astq.param_names(node)):
            entries.append(nm)  # loaders whose result the property observes (thin wrappers and their shared helpers)
    ctx.count("loader_entry_points", len(entries))
    for entry in entries:
        fn = mod.defs[entry]
        iterates_set = entry == "_load_dataset" or any(isinstance(n, (ast.Set, ast.SetComp)) or (
            isinstance(n, ast.Call) and isinstance(n.func, ast.Name) and n.func.id in ("set", "frozenset")) for n in ast.walk(fn))
        for rev in ((True, False) if iterates_set else (True,)):
            _rule_loader(ctx, repo, rev, entry)
        if "extract_path" in astq.param_names(fn):
            _rule_loader(ctx, repo, True, entry, extract=True)


class _SplitFiles(dict):
    """<anything>_TRAIN.ts / <anything>_TEST.ts -> the abstract training / test file (the data set's name is free)."""

    def __init__(self, train, test):
        dict.__init__(self)
        self.train, self.test = train, test

    def get(self, base, default=None):
        if base.endswith("_TRAIN.ts"):
            return self.train
        if base.endswith("_TEST.ts"):
            return self.test
        return default


def _rule_loader(ctx, repo, set_reverse, entry="_load_dataset", extract=False):
    """``extract``: the data set lives in a user-supplied extract_path; the bundled data directory holds *another* data
    set of the same name, so reading from the wrong directory shows as wrong instances."""
    mod = repo.module(DS)
    fn = repo.func(DS, entry)
    loc = ctx.loc(mod, fn)
    name = "abstractset"
    params = astq.param_names(fn)
    # every identifier-like string constant of the loader may be the data set's name: all of them are "downloaded"
    known = sorted({n.value for n in ast.walk(fn) if isinstance(n, ast.Constant) and isinstance(n.value, str)
                    and n.value.isidentifier() and n is not (fn.body[0].value if isinstance(fn.body[0], ast.Expr) else None)})
    XP = "/user/cache"
    if not {"split", "return_X_y"} <= set(params):
        ctx.undecided("R3", entry, "loader has no split / return_X_y parameters", loc)
        return
    if extract:
        entry_tag = entry + "[extract_path]"
        tr_text, tr_rows, tr_labs = abstract_ts("utr", 2)
        te_text, te_rows, te_labs = abstract_ts("ute", 3)
        files = _SplitFiles(abstract_ts("tr", 3)[0], abstract_ts("te", 2)[0])  # what the bundled directory holds
    else:
        entry_tag = entry
        tr_text, tr_rows, tr_labs = abstract_ts("tr", 2)
        te_text, te_rows, te_labs = abstract_ts("te", 3)
        files = _SplitFiles(tr_text, te_text)
    results = {}
    for split in (None, "train", "test"):
        for rxy in (True, False):
            tag = "%s[split=%s,return_X_y=%s]" % (entry_tag, split, rxy)
            vfs = M.VFS(by_basename=files)
            if extract:
                vfs.files["%s/%s/%s_TRAIN.ts" % (XP, name, name)] = tr_text
                vfs.files["%s/%s/%s_TEST.ts" % (XP, name, name)] = te_text
            it = Interp(repo, M.make_externals(vfs, listing=[name] + known), M.to_float, M.str_hook, set_reverse=set_reverse)
            try:
                kw = {"split": split, "return_X_y": rxy}
                if extract:
                    kw["extract_path"] = XP
                if "name" in params:
                    kw["name"] = name
                results[(split, rxy)] = it.call_entry(mod, fn, [], kw)
                results[(split, rxy, "opened")] = [p.rsplit("/", 1)[-1] for p, m in vfs.opened]
            except Undecided as e:
                ctx.undecided("R3", tag, str(e), loc)
            except PyRaise as e:
                ctx.violation("R3", tag, "the loader raises %s (line %s) on a dataset whose %s_TRAIN.ts / %s_TEST.ts files exist"
                              % (exc_text(e), getattr(e.node, "lineno", "?"), name, name), loc)
    want = {None: (tr_rows + te_rows, tr_labs + te_labs), "train": (tr_rows, tr_labs), "test": (te_rows, te_labs)}

    def describe(rows):
        if rows == tr_rows + te_rows:
            return "train then test"
        if rows == te_rows + tr_rows:
            return "TEST instances before TRAIN instances"
        if rows == tr_rows:
            return "only the training instances"
        if rows == te_rows:
            return "only the test instances"
        return "%d instances in another order / selection" % len(rows)

    for split in (None, "train", "test"):
        r = results.get((split, True))
        if (split, True) not in results:
            continue
        tag = "%s[split=%s]" % (entry_tag, split)
        wX, wy = want[split]
        if not (isinstance(r, tuple) and len(r) == 2 and isinstance(r[0], M.FrameV) and hasattr(r[1], "data")):
            ctx.check(False if isinstance(r, M.FrameV) else None, "R3", tag + ":X_y", "",
                      "with return_X_y=True the loader returns %s instead of (X, y)" % _short(r), loc)
            continue
        X, y = r
        rows = X.cols.get("dim_0")
        ctx.check(rows == wX, "R3", tag + ":order:X", "instances: %s" % describe(wX),
                  "returns %s, expected %s" % (describe(rows or []), describe(wX)), loc)
        ctx.check(list(y.data) == wy, "R3", tag + ":order:y", "labels in the order of the instances",
                  "labels are %s, instances are %s" % (describe_labels(list(y.data), tr_labs, te_labs), describe(rows or [])), loc)
        r2 = results.get((split, False))
        if (split, False) in results:
            ok = None
            if isinstance(r2, M.FrameV):
                lab_cols = [c for c in r2.cols if c not in X.cols]
                ok = (len(lab_cols) == 1 and list(r2.cols[lab_cols[0]]) == list(y.data)
                      and all(r2.cols.get(c) == X.cols[c] for c in X.cols))
            ctx.check(ok, "R3", tag + ":forms-agree", "single-frame form = X plus one label column holding y",
                      "the single-frame form is not the X of return_X_y=True plus its y as one column: %s" % _short(r2), loc)
    op = results.get((None, True, "opened"))
    if op is not None:
        ctx.check([o.rsplit("_", 1)[-1] for o in op] == ["TRAIN.ts", "TEST.ts"], "R3", "%s[split=None]:files" % entry_tag,
                  "reads <name>_TRAIN.ts then <name>_TEST.ts", "files read: %s" % op, loc)


def describe_labels(labs, tr, te):
    if labs == tr + te:
        return "train then test"
    if labs == te + tr:
        return "TEST labels before TRAIN labels"
    return "%d labels in another order / selection" % len(labs)


# ------------------------------------------------------------------------------------------------------ R4
def rule_parsers(ctx, repo):
    mod = repo.module(IO)
    n, length = 3, 3
    ts_text, rows, labs = abstract_ts("", n, length)
    obs = [[T("%d_%d" % (i, k)) for k in range(length)] for i in range(n)]
    arff = "%% abstract\n@relation %s\n" % T("pname") + "".join("@attribute att%d numeric\n" % k for k in range(length)) \
        + "@attribute target {%s,%s}\n\n@data\n" % (T("c0"), T("c1")) + "\n".join(",".join(o) + "," + l for o, l in zip(obs, labs))
    tsv = "\n".join(l + "\t" + "\t".join(o) for o, l in zip(obs, labs))
    files = {"d.ts": ts_text, "d.arff": arff, "d.tsv": tsv}
    parsed = {}
    for fname, path in ((READER, "d.ts"), (ARFF, "d.arff"), (TSV, "d.tsv")):
        fn = repo.func(IO, fname)
        for sep in (True, False):
            vfs = M.VFS(by_basename=files)
            it = Interp(repo, M.make_externals(vfs), M.to_float, M.str_hook)
            c = "%s[%s]" % (fname, "X_y" if sep else "single-frame")
            try:
                parsed[(fname, sep)] = it.call_entry(mod, fn, [path], {} if sep else {"return_separate_X_and_y": False})
            except Undecided as e:
                ctx.undecided("R4", c, str(e), ctx.loc(mod, fn))
            except PyRaise as e:
                ctx.violation("R4", c, "raises %s on a well-formed univariate file" % exc_text(e), ctx.loc(mod, fn))

    def norm_labels(v):
        data = v.data if hasattr(v, "data") else list(v)
        return [T(x.name) if isinstance(x, M.Num) else x for x in data]

    for fname in (READER, ARFF, TSV):
        r = parsed.get((fname, True))
        if (fname, True) not in parsed:
            continue
        fn = repo.func(IO, fname)
        loc = ctx.loc(mod, fn)
        if not (isinstance(r, tuple) and len(r) == 2 and isinstance(r[0], M.FrameV)):
            ctx.check(False if isinstance(r, M.FrameV) else None, "R4", fname + ":returns-X-y", "",
                      "with return_separate_X_and_y=True the parser returns %s, not (X, labels)" % _short(r), loc)
            continue
        X, y = r
        cols = list(X.cols)
        ctx.check(cols == ["dim_%d" % k for k in range(len(cols))] and len(cols) == 1, "R4", fname + ":columns",
                  "univariate panel in column dim_0", "columns are named %s, expected ['dim_0']" % cols, loc)
        ctx.check(isinstance(y, M.ArrV), "R4", fname + ":labels-array", "labels returned as an array alongside X",
                  "labels are returned as %s, not as an array" % type(y).__name__, loc)
        got_rows = list(next(iter(X.cols.values()), []))
        ctx.check(got_rows == rows, "R4", fname + ":panel", "instances, order and values as in the file",
                  "parsed instances %s differ from the file's %s" % (_short(got_rows), _short(rows)), loc)
        ctx.check(norm_labels(y) == labs if hasattr(y, "data") else None, "R4", fname + ":labels", "labels in instance order",
                  "parsed labels %s differ from the file's %s" % (norm_labels(y) if hasattr(y, "data") else y, labs), loc)
    # .arff without a class attribute (has_class_labels=False): the whole line is the series
    fn = repo.func(IO, ARFF)
    arff_nl = "@relation %s\n" % T("pname") + "".join("@attribute att%d numeric\n" % k for k in range(length)) + "@data\n" \
        + "\n".join(",".join(o) for o in obs)
    vfs = M.VFS(by_basename={"u.arff": arff_nl})
    c = ARFF + ":unlabelled"
    try:
        r = Interp(repo, M.make_externals(vfs), M.to_float, M.str_hook).call_entry(mod, fn, ["u.arff"], {"has_class_labels": False})
        ctx.check(isinstance(r, M.FrameV) and list(r.cols) == ["dim_0"] and list(r.cols["dim_0"]) == rows, "R4", c,
                  "unlabelled file: every line is one instance, all values kept",
                  "an .arff file without class attribute is parsed as %s, expected %s" % (_short(r), _short(rows)), ctx.loc(mod, fn))
    except Undecided as e:
        ctx.undecided("R4", c, str(e), ctx.loc(mod, fn))
    except PyRaise as e:
        ctx.violation("R4", c, "raises %s on a well-formed unlabelled file" % exc_text(e), ctx.loc(mod, fn))
    # single-frame forms: the same frame plus one label column, named consistently across the parsers
    names = {}
    for fname in (READER, ARFF, TSV):
        r, r2 = parsed.get((fname, True)), parsed.get((fname, False))
        if (fname, False) not in parsed or not (isinstance(r, tuple) and isinstance(r[0], M.FrameV)):
            continue
        loc = ctx.loc(mod, repo.func(IO, fname))
        if not isinstance(r2, M.FrameV):
            ctx.violation("R4", fname + ":single-frame", "with return_separate_X_and_y=False the parser returns %s" % _short(r2), loc)
            continue
        extra = [c for c in r2.cols if c not in r[0].cols]
        ok = len(extra) == 1 and norm_labels(r2.cols[extra[0]]) == norm_labels(r[1]) and all(r2.cols.get(c) == v for c, v in r[0].cols.items())
        ctx.check(ok, "R4", fname + ":single-frame", "X plus one label column",
                  "single-frame form is not X plus the labels as one column: %s" % _short(r2), loc)
        if len(extra) == 1:
            names[fname] = extra[0]
    if len(names) >= 2:
        # The name of the label column in the single-frame form differs between the parsers today (`class_vals` vs `class_val`).
        # The property speaks about the panel and the labels, not about that column's name, so this is reported as
        # information only (a first version of this rule raised it as a violation: checker demanded more than the property).
        ref = names.get(READER, next(iter(names.values())))
        for fname, nm in names.items():
            if fname != READER and nm != ref:
                ctx.info("R4 info: %s names the single-frame label column %r, the .ts parser %r" % (fname, nm, ref))


def rule_parsers_multivariate(ctx, repo):
    """R4 (bundled multivariate problems): the relational .arff and the multivariate .ts layout of one abstract
    2-dimensional data set parse to the same panel (dimension k of instance i in column dim_k, row i)."""
    mod = repo.module(IO)
    n, dims, length = 3, 2, 3
    obs = [[[T("m%d_%d_%d" % (i, d, k)) for k in range(length)] for d in range(dims)] for i in range(n)]
    labs = [T("c1"), T("c0"), T("c1")]
    ts = "@problemName %s\n@timeStamps false\n@univariate false\n@classLabel true %s %s\n@data\n" % (T("pname"), T("c0"), T("c1")) \
        + "\n".join(":".join(",".join(o) for o in inst) + ":" + l for inst, l in zip(obs, labs))
    arff = "@relation %s\n@attribute ts relational\n" % T("pname") + "".join("@attribute att%d numeric\n" % k for k in range(length)) \
        + "@end ts\n@attribute target {%s,%s}\n@data\n" % (T("c0"), T("c1")) \
        + "\n".join("'" + "\\n".join(",".join(o) for o in inst) + "'," + l for inst, l in zip(obs, labs))
    want = M.FrameV({"dim_%d" % d: [M.SeriesV([M.Num(t[1:-1]) for t in obs[i][d]]) for i in range(n)] for d in range(dims)})
    files = {"m.ts": ts, "m.arff": arff}
    for fname, path in ((READER, "m.ts"), (ARFF, "m.arff")):
        fn = repo.func(IO, fname)
        loc = ctx.loc(mod, fn)
        c = fname + ":multivariate"
        vfs = M.VFS(by_basename=files)
        try:
            r = Interp(repo, M.make_externals(vfs), M.to_float, M.str_hook).call_entry(mod, fn, [path])
        except Undecided as e:
            ctx.undecided("R4", c, str(e), loc)
            continue
        except PyRaise as e:
            ctx.violation("R4", c, "raises %s on a well-formed 2-dimensional file" % exc_text(e), loc)
            continue
        ok = isinstance(r, tuple) and len(r) == 2 and r[0] == want and [x for x in getattr(r[1], "data", [])] == labs
        ctx.check(ok, "R4", c, "2-dimensional panel: dimension k of instance i in column dim_k, row i; labels alongside",
                  "a 2-dimensional data set of %d instances is parsed as %s, expected %s with labels %s" % (n, _short(r), _short(want), labs), loc)


# ------------------------------------------------------------------------------ no state across calls
MEMO_DECORATORS = {"functools.lru_cache", "functools.cache", "functools.cached_property", "cachetools.cached",
                   "cachetools.func.lru_cache", "joblib.Memory.cache", "joblib.memory.Memory.cache"}
MUTATORS = {"append", "add", "setdefault", "update", "extend", "insert", "__setitem__", "pop", "clear"}


def rule_stateless(ctx, repo):
    """The writer, the parsers and the loader are functions of their arguments and the file *content*: a result
    memoised by path (or kept in a module-level container) is stale once the file is rewritten, and the cached
    mutable frame is shared between callers -- the round trip and the loader forms then depend on call history."""
    for rel, fname, rule in ((IO, READER, "R4"), (IO, ARFF, "R4"), (IO, TSV, "R4"), (DS, "_load_dataset", "R3"), (IO, WRITER, "R2")):
        mod = repo.module(rel)
        fn = repo.func(rel, fname)
        c = fname + ":pure-function-of-file"
        loc = ctx.loc(mod, fn)
        bad, unknown = [], []
        for d in fn.decorator_list:
            target = d.func if isinstance(d, ast.Call) else d
            sym = repo.resolve_expr(mod, target)
            name = sym.dotted if sym is not None else (astq.canon(target))
            last = name.split(".")[-1]
            if name in MEMO_DECORATORS or last in ("lru_cache", "cache", "memoize", "memoized", "cached"):
                bad.append(name)
            elif sym is not None and sym.kind == "func":
                pass  # repo-local decorator: interpreted together with the function by R1-R4 (its effect on the result is judged there)
            else:
                unknown.append(name)
        # module-level containers that the function fills
        for n in astq.walk_no_nested(fn):
            tgt = None
            if isinstance(n, ast.Subscript) and isinstance(n.ctx, ast.Store) and isinstance(n.value, ast.Name):
                tgt = n.value.id
            elif isinstance(n, ast.Call) and isinstance(n.func, ast.Attribute) and n.func.attr in MUTATORS and isinstance(n.func.value, ast.Name):
                tgt = n.func.value.id
            if tgt is None or astq.assigned_in(fn, tgt) or tgt in astq.all_param_names(fn):
                continue
            sym = repo.resolve_name(mod, tgt)
            if sym is not None and sym.kind == "const" and (isinstance(sym.target, (ast.Dict, ast.List, ast.Set)) or (
                    isinstance(sym.target, ast.Call) and astq.call_name(sym.target) in ("dict", "list", "set", "OrderedDict", "defaultdict"))):
                bad.append("module-level container %s" % tgt)
        # callees reached through a module-level re-binding that wraps them (``f = lru_cache(...)(f)``)
        for call in astq.calls(fn):
            if not isinstance(call.func, ast.Name):
                continue
            bound = mod.defs.get(call.func.id)
            if not isinstance(bound, ast.Call):
                continue
            wrapped = [a for a in bound.args if isinstance(a, ast.Name)]
            w = bound.func.func if isinstance(bound.func, ast.Call) else bound.func
            sym = repo.resolve_expr(mod, w)
            name = sym.dotted if sym is not None else astq.canon(w)
            if not wrapped:
                continue
            if name in MEMO_DECORATORS or name.split(".")[-1] in ("lru_cache", "cache", "memoize", "memoized", "cached"):
                bad.append("%s is called through the module-level binding %s = %s(...)(%s)" % (call.func.id, call.func.id, name, wrapped[0].id))
            else:
                unknown.append("%s is re-bound at module level through %s" % (call.func.id, name))
        if any(isinstance(n, ast.Global) for n in astq.walk_no_nested(fn)):
            unknown.append("global statement")
        if bad:
            ctx.violation(rule, c, "%s keeps results across calls (%s): after the file is rewritten under the same path the old panel is "
                          "returned, and every caller shares (and may modify) the same frame" % (fname, ", ".join(bad)), loc)
        elif unknown:
            ctx.undecided(rule, c, "%s is wrapped / uses state the analysis does not know: %s" % (fname, ", ".join(unknown)), loc)
        else:
            ctx.ok(rule, c, "no decorator, no module-level state: every call re-reads the file", loc)


# ---------------------------------------------------------------------------------------------- entry point
def run(ctx):
    repo = ctx.repo
    ctx.explain("C18: the .ts writer, the three parsers and the bundled-dataset loader are interpreted as ASTs over symbolic "
                "observation / label tokens. R1: for every combination of the writer's options the emitted header is accepted by the "
                "interpreted parser (every required tag recognised by the parser's own startswith chain with a value its own grammar "
                "accepts; other pre-data lines skipped); every non-raising writer branch is exercised. R2: the parsed panel equals the "
                "written one token for token (instances, order, lengths, labels up to case folding), both return forms. R3: "
                "_load_dataset(split=None) returns TRAIN then TEST instances and labels, both return forms agree. R4: the .ts, .arff "
                "and UCR .tsv parsers return the same dim_0 panel and label array for the same abstract univariate data set.")
    ctx.assume("Series.to_string(index=False, header=False) prints one observation per line; printed numbers and labels contain no "
               "',' ':' or white space; textwrap.wrap as in the standard library; float() inverts the printing (precision not decided)")
    ctx.assume("pandas model: concat appends rows and row labels (ignore_index renumbers), frame[col] = Series aligns by row label "
               "(positional when labels are identical), frame[col] = list/array is positional; dtypes and the bundled data files "
               "themselves are not modelled")
    ctx.assume("an observation token stands for any printed number, a label token for any identifier-like text: stripping / replacing "
               "characters such values may contain changes the value, stripping white space does not; files may lack the final newline")
    ctx.assume("writer flags are bools, class_label / class_value_list are either both given (same length as the panel) or both omitted")
    rule_roundtrip(ctx, repo)
    rule_loader(ctx, repo)
    rule_parsers(ctx, repo)
    rule_parsers_multivariate(ctx, repo)
    rule_stateless(ctx, repo)
    ctx.floor("R1", 13)
    ctx.floor("R2", 60)
    ctx.floor("R3", 90)
    ctx.floor("R4", 14)
