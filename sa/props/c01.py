"""C01 -- temporal CV splitters: window/cutoff/test index arithmetic as affine identities.

Decides (DESIGN 3/C01): R1 window arithmetic, R2 first/last feasible split point,
R3 feasibility guards entail in-bounds (and are tight), R4 reported cutoffs = yielded
cutoffs, R5 unshuffled partition in temporal_train_test_split/_split_by_fh.
"""
import ast

from ..absint import (Interp, Frame, State, SelfV, FHV, Vec, Rng, Arr, Tup, K, Opq, Filt, Lin, Gen,
                      as_lin_val)
from ..index import AnalysisError, dotted
from ..lin import Facts
from .. import astq

SPLIT = "sktime/forecasting/model_selection/_split.py"
RULES = ("R1", "R2", "R3", "R4", "R5", "R6")

N = Lin.sym("n")
W = Lin.sym("w")
STEP = Lin.sym("step")
IW = Lin.sym("iw")
FH = FHV(Vec("fh"), True)
FH0, FHL = Lin.sym("fh[0]"), Lin.sym("fh[-1]")
FREE = ("n", "w", "step", "iw", "fh[", "cutoffs[", "split_point#", "cutoff#")


def base_facts():
    f = Facts()
    f.add_cmp(FH0, ">=", 1, "horizon is out-of-sample (quantifier)")
    f.add_cmp(FH0, "<=", FHL, "horizon is sorted")
    f.add_cmp(N, ">=", 1, "series is non-empty")
    return f


def hooks(interp, frame, call, fname, args, kwargs, st):
    simple = (fname or "").split(".")[-1]
    if simple == "_check_y" or simple == "check_time_index":
        a = args[0] if args else Opq("?")
        if isinstance(a, Arr):
            return Arr(a.name, a.length, "index")
        return a
    if simple == "check_fh":
        a = args[0] if args else kwargs.get("fh")
        if isinstance(a, FHV):
            return a
        return Opq("check_fh", [a])
    ext = interp.ext_name(fname, frame)
    if ext == "numpy.sort" and args and isinstance(args[0], Vec):
        return Vec(args[0].base, args[0].off, True)
    if ext == "numpy.unique" and len(args) == 1 and not kwargs and isinstance(args[0], Vec):
        # sorted AND de-duplicated: a different multiset than its argument (length may shrink)
        return Vec("unique(%s)" % args[0].base, args[0].off, True)
    if ext in ("builtins.isinstance", "numpy.issubdtype"):
        return K(True) if ext == "numpy.issubdtype" else NotImplemented
    return NotImplemented


INTERPS = []


def make_interp(repo):
    it = Interp(repo, scenario={"fh.is_all_out_of_sample": True, "fh.is_all_in_sample": False},
                hooks=hooks, no_inline=("_check_y", "check_fh", "check_time_index", "_repr"))
    it.index_loops = True  # `for k in range(len(v)): ... v[k]` is read as the loop over the elements of v
    INTERPS.append(it)
    return it


def construct(repo, it, cls, ctor_args):
    """Run the constructor chain of ``cls`` abstractly; returns the SelfV."""
    selfv = SelfV(cls)
    hit = repo.lookup_method(cls, "__init__")
    if hit is None:
        raise AnalysisError("no constructor for %s" % cls.qual)
    k, fn = hit
    names = [a.arg for a in fn.args.args[1:]]
    for nm in ctor_args:
        if nm not in names:
            raise AnalysisError("constructor of %s has no parameter %r" % (cls.name, nm))
    args = dict(ctor_args)
    args["self"] = selfv
    it.run_function(Frame(k.module, fn, cls, k), args, State())
    return selfv


def run_method(repo, it, selfv, name, args, facts):
    hit = repo.lookup_method(selfv.cls, name)
    if hit is None:
        raise AnalysisError("method %s.%s missing" % (selfv.cls.name, name))
    k, fn = hit
    a = dict(args)
    a["self"] = selfv
    st = State(facts=facts)
    traces, fst = it.run_function(Frame(k.module, fn, selfv.cls, k), a, st)
    return traces, fst, k


def is_free(lin):
    return all(any(s.startswith(p) or s == p for p in FREE) for s in lin.symbols())


def prove_le(ctx, rule, construct, facts, lhs, rhs, what, loc):
    """Obligation lhs <= rhs under ``facts``."""
    if lhs is None or rhs is None:
        undecided(ctx, rule, construct, "%s: operand has no affine form (negated / uninterpretable vector)" % what, loc)
        return False
    L = lhs - rhs
    pr = facts.entails(L)
    if pr is not None:
        ctx.ok(rule, construct, "%s: %r <= %r entailed" % (what, lhs, rhs), loc)
        return True
    sl = facts.slack(L)
    if sl is not None and sl > 0:
        ctx.violation(rule, construct,
                      "%s: %r <= %r is not entailed; the guards only give <= %r + %s, boundary instance reaches it"
                      % (what, lhs, rhs, rhs, sl), loc, witness={"obligation": "%r <= 0" % L, "slack": str(sl)})
    elif is_free(L):
        ctx.violation(rule, construct, "%s: no dominating guard bounds %r <= %r (inputs are unconstrained)"
                      % (what, lhs, rhs), loc, witness={"obligation": "%r <= 0" % L})
    else:
        undecided(ctx, rule, construct, "%s: cannot decide %r <= %r" % (what, lhs, rhs), loc)
    return False


def eq(ctx, rule, construct, got, want, what, loc):
    if got is None or isinstance(got, Opq):
        undecided(ctx, rule, construct, "%s: value not interpretable (%r)" % (what, got), loc)
        return False
    if SOFT["on"] and isinstance(got, Lin) and got != want and not is_free(got - want):
        undecided(ctx, rule, construct, "%s: %r vs %r involves derived symbols" % (what, got, want), loc)
        return False
    ok = got == want
    ctx.check(ok, rule, construct, "%s == %r" % (what, want), "%s is %r, expected %r" % (what, got, want), loc)
    return ok


def split_parts(v):
    """(train, test, filtered?) from a yielded value."""
    if isinstance(v, Tup) and len(v.items) == 2:
        return v.items[0], v.items[1]
    return None, None


SOFT = {"on": False}
SOFT_PRE = {}


def undecided(ctx, rule, construct, why, loc):
    """UNDECIDED, unless the bounded-grid oracle already decided this scenario (then information only)."""
    if SOFT["on"]:
        ctx.info("%s %s: symbolic step inconclusive (%s); decided by the bounded grid" % (rule, construct, why))
    else:
        ctx.undecided(rule, construct, why, loc)


GRID_FH = ([1], [2], [1, 3], [2, 5])


def spec_cutoffs(n, w, step, fh, iw):
    """Specification: cutoffs of the window splitters with start_with_window=True."""
    out = []
    fmax = max(fh)
    if iw is not None:
        c = iw - 1
        if c + fmax > n - 1:
            return None
        out.append(("initial", c))
        c = c + step
    else:
        c = w - 1
    while c + fmax <= n - 1:
        out.append(("loop", c))
        c += step
    return out


def bounded_grid(ctx, repo, it, tag, sliding, iw, recs, loc):
    """Concretise the abstract yield records on a grid of small instances and compare the yielded splits with the
    specification.  Returns True (all instances agree), False (violation recorded) or None (not concretisable)."""
    from ..absint import concrete
    checked = 0
    for n in range(2, 15):
        for w in range(1, 6):
            for step in range(1, 5):
                for fh in GRID_FH:
                    for iwv in ((None,) if not iw else range(w + 1, w + 4)):
                        env = {"n": n, "w": w, "step": step, "fh[0]": fh[0], "fh[-1]": fh[-1], "len(fh)": len(fh)}
                        if iwv is not None:
                            env["iw"] = iwv
                        spec = spec_cutoffs(n, w, step, fh, iwv)
                        feasible = spec is not None and (w + max(fh) <= n) and (iwv is None or iwv + max(fh) <= n)
                        got = []
                        rejected = False
                        try:
                            for rec in recs:
                                train, test = split_parts(rec.value)
                                if not isinstance(train, Rng) or not isinstance(test, Vec) or test.base != "fh" or test.neg:
                                    return None
                                kind = "loop" if rec.loops else "initial"
                                # guards of the trace (facts without loop variables)
                                loopvars = set()
                                for lp in rec.loops:
                                    if lp.var is None:
                                        return None
                                    loopvars |= lp.var.symbols()
                                taken = True
                                for f, origin in rec.facts.items:
                                    if f.symbols() & loopvars or origin.startswith("loop range"):
                                        continue
                                    try:
                                        if concrete(it, f, env) > 0:
                                            taken = False
                                    except KeyError:
                                        pass
                                if not taken:
                                    continue  # this trace (guards / branch conditions) is not the one taken by the instance
                                if not rec.loops:
                                    vals = [dict(env)]
                                else:
                                    if len(rec.loops) != 1 or not isinstance(rec.loops[0].it, Rng):
                                        return None
                                    r = rec.loops[0].it
                                    lo, hi, stp = (concrete(it, r.lo, env), concrete(it, r.hi, env), concrete(it, r.step, env))
                                    if stp <= 0 or any(x.denominator != 1 for x in (lo, hi, stp)):
                                        return None
                                    var = list(rec.loops[0].var.symbols())[0]
                                    vals = [dict(env, **{var: v}) for v in range(int(lo), int(hi), int(stp))]
                                for e2 in vals:
                                    tlo, thi = concrete(it, train.lo, e2), concrete(it, train.hi, e2)
                                    off = concrete(it, test.off, e2)
                                    got.append((kind, int(thi) - 1, (int(tlo), int(thi)), [int(off) + h for h in fh]))
                        except KeyError:
                            return None
                        checked += 1
                        if not got and feasible and spec:
                            ctx.violation("R2", tag + ":bounded-grid", "a feasible configuration yields no split (rejected or empty): n=%d window=%d step=%d fh=%s "
                                          "initial_window=%s (specification yields cutoffs %s)" % (n, w, step, fh, iwv, [c for _, c in spec]), loc,
                                          witness={"n": n, "w": w, "step": step, "fh": fh, "iw": iwv})
                            return False
                        if not feasible:
                            if got:
                                ctx.violation("R3", tag + ":bounded-grid", "an infeasible configuration is accepted and yields splits: n=%d window=%d step=%d fh=%s "
                                              "initial_window=%s" % (n, w, step, fh, iwv), loc, witness={"n": n, "w": w, "step": step, "fh": fh, "iw": iwv})
                                return False
                            continue
                        want = []
                        for kind, c in spec:
                            length = (iwv if kind == "initial" else w)
                            lo = (c + 1 - length) if (sliding or kind == "initial") else 0
                            want.append((kind, c, (lo, c + 1), [c + h for h in fh]))
                        if [g[1:] for g in got] != [x[1:] for x in want]:
                            ctx.violation("R2", tag + ":bounded-grid",
                                          "yielded splits differ from the specification for n=%d window=%d step=%d fh=%s initial_window=%s: "
                                          "yielded cutoffs %s, specified %s; first differing split: yielded %s, specified %s" % (
                                              n, w, step, fh, iwv, [g[1] for g in got], [x[1] for x in want],
                                              next((g for g, x in zip(got, want) if g[1:] != x[1:]), got[len(want):][:1] or "none"),
                                              next((x for g, x in zip(got, want) if g[1:] != x[1:]), want[len(got):][:1] or "none")),
                                          loc, witness={"n": n, "w": w, "step": step, "fh": fh, "iw": iwv})
                            return False
    ctx.ok("R2", tag + ":bounded-grid", "yielded splits equal the specification on %d concrete configurations (n<=14, window<=5, step<=4, 4 horizons)" % checked, loc)
    return True


def _count_on_grid(it, rets, sliding, iw, sww):
    """True when the returned count equals the specified number of splits on every feasible grid instance, a witness dict when
    it differs, None when a trace cannot be concretised."""
    from ..absint import concrete
    for n in range(2, 15):
        for w in range(1, 6):
            for step in range(1, 5):
                for fh in GRID_FH:
                    for iwv in ((None,) if not iw else range(w + 1, w + 4)):
                        env = {"n": n, "w": w, "step": step, "fh[0]": fh[0], "fh[-1]": fh[-1], "len(fh)": len(fh)}
                        if iwv is not None:
                            env["iw"] = iwv
                        if not sww:
                            continue  # the grid specification is written for start_with_window=True
                        spec = spec_cutoffs(n, w, step, fh, iwv)
                        if spec is None or not (w + max(fh) <= n) or not (iwv is None or iwv + max(fh) <= n):
                            continue
                        vals = []
                        try:
                            for st_, v in rets:
                                taken = True
                                for f, origin in st_.facts.items:
                                    try:
                                        if concrete(it, f, env) > 0:
                                            taken = False
                                    except KeyError:
                                        pass
                                if taken:
                                    vals.append(concrete(it, v, env))
                        except KeyError:
                            return None
                        if len(set(vals)) != 1:
                            return None
                        if int(vals[0]) != len(spec):
                            return {"n": n, "w": w, "step": step, "fh": fh, "iw": iwv, "got": int(vals[0]), "want": len(spec)}
    return True


def check_window_class(ctx, repo, cname):
    cls = repo.cls(SPLIT + ":" + cname)
    mod = cls.module
    sliding = cname == "SlidingWindowSplitter"
    scen = []
    for sww in (True, False):
        for iw in ((None, "iw") if sliding else (None,)):
            scen.append((sww, iw))
    for sww, iw in scen:
        tag = "%s[start_with_window=%s,initial_window=%s]" % (cname, sww, "given" if iw else "None")
        it = make_interp(repo)
        ctor = {"fh": FH, "step_length": STEP, "start_with_window": K(sww)}
        if sliding:
            ctor["window_length"] = W
            ctor["initial_window"] = IW if iw else K(None)
        else:
            ctor["initial_window"] = W
        selfv = construct(repo, it, cls, ctor)
        if not sliding and selfv.attrs.get("initial_window") != K(None):
            ctx.undecided("R1", tag, "expanding splitter passes an initial window to the base class: %r"
                          % selfv.attrs.get("initial_window"), ctx.loc(mod, cls.node))
            continue
        y = Arr("y", N, "index")
        traces, fst, k = run_method(repo, it, selfv, "_split", {"y": y}, base_facts())
        recs = fst.yields
        loc0 = ctx.loc(k.module, k.methods["_split"])
        ctx.count("scenarios")
        if iw and not sww:
            ctx.check(len(recs) == 0 and all(o[0] == "raise" for _, o in traces), "R3", tag + ":reject",
                      "initial_window with start_with_window=False is rejected on every trace",
                      "configuration initial_window + start_with_window=False is not rejected", loc0)
            continue
        want = 2 if iw else 1
        sites = []
        for r_ in recs:
            if not any(r_.node is x for x in sites):
                sites.append(r_.node)
        if len(sites) != want:
            ctx.violation("R1", tag + ":yields", "expected %d yield site(s) on this scenario, found %d" % (want, len(sites)), loc0)
            continue
        if len(recs) != want and not SOFT_PRE.get(tag):
            # several traces reach the same yield site (an undecided branch earlier in the method): the symbolic
            # obligations below are evaluated on the last trace only; the bounded grid judges all of them
            pass
        SOFT["on"] = False
        if sww:
            SOFT["on"] = bounded_grid(ctx, repo, it, tag, sliding, bool(iw), recs, loc0) is not None
        wlen_attr = selfv.attrs.get("window_length")
        loop_rec = recs[-1]
        init_rec = recs[0] if iw else None
        cutoffs = []
        for rec, kind in ([(init_rec, "initial")] if init_rec else []) + [(loop_rec, "loop")]:
            c = "%s:%s" % (tag, kind)
            loc = "%s:%s" % (mod.relpath, rec.node.lineno)
            train, test = split_parts(rec.value)
            if not isinstance(train, Rng) or train.step != Lin.c(1):
                ctx.check(None if isinstance(train, Opq) or train is None else False, "R1", c + ":contiguous", "",
                          "training window is not a unit-step progression: %r" % (train,), loc)
                continue
            ctx.ok("R1", c + ":contiguous", "train = %r" % train, loc)
            cutoff = train.hi - 1
            cutoffs.append((kind, cutoff, rec))
            if not isinstance(test, Vec):
                ctx.check(None if isinstance(test, Opq) else False, "R1", c + ":test", "",
                          "test window is not horizon + offset: %r" % (test,), loc)
                continue
            ctx.check(test.base == "fh" and not test.neg and test.off == cutoff, "R1", c + ":test",
                      "test = fh + (%r) = cutoff + fh" % cutoff,
                      "test = %r but cutoff (last training position) = %r" % (test, cutoff), loc,
                      witness={"test_offset": repr(test.off), "cutoff": repr(cutoff)})
            if test.neg:
                continue  # reported above; a negated horizon has no ordered ends to bound
            length = train.hi - train.lo
            if kind == "initial":
                eq(ctx, "R1", c + ":length", length, IW, "initial window length", loc)
                eq(ctx, "R1", c + ":start", train.lo, Lin.c(0), "initial window start", loc)
            elif sliding:
                eq(ctx, "R1", c + ":length", length, W, "sliding window length", loc)
            # in-bounds and leakage
            f = rec.facts
            prove_le(ctx, "R3", c + ":test<=n-1", f, test.elem("last"), N - 1, "last test position inside series", loc)
            prove_le(ctx, "R3", c + ":test>=0", f, Lin.c(0), test.elem("first"), "first test position inside series", loc)
            prove_le(ctx, "R3", c + ":no-leak", f, train.hi - 1 + 1, test.elem("first"),
                     "last training position < first test position", loc)
            if kind == "loop":
                if len(rec.loops) != 1 or not isinstance(rec.loops[0].it, Rng):
                    undecided(ctx, "R1", c + ":loop", "split loop is not a single arithmetic progression", loc)
                    continue
                lp = rec.loops[0]
                var = list(lp.var.symbols())[0]
                eq(ctx, "R1", c + ":advance", lp.it.step, STEP, "loop step", loc)
                coef = cutoff.terms.get(var)
                ctx.check(coef == 1, "R1", c + ":cutoff-affine", "cutoff advances 1:1 with the split point",
                          "cutoff %r does not advance 1:1 with the split point" % cutoff, loc)
                first_train_lo = train.lo.subst({var: lp.it.lo})
                first_cut = cutoff.subst({var: lp.it.lo})
                if not sliding:
                    # expanding: starts at first observation (<= 0 before the >=0 filter of split())
                    ok = f.entails(train.lo - 0)
                    ctx.check(ok is not None and var not in train.lo.symbols(), "R1", c + ":expanding-start",
                              "expanding window lower bound %r <= 0 and fixed" % train.lo,
                              "expanding window does not start at the first observation: lower bound %r" % train.lo, loc)
                if iw:
                    eq(ctx, "R2", c + ":first-after-initial", first_cut, (IW - 1) + STEP,
                       "first loop cutoff (initial cutoff + step)", loc)
                elif sww:
                    eq(ctx, "R2", c + ":first-feasible", first_train_lo if sliding else first_cut,
                       Lin.c(0) if sliding else W - 1, "first window starts at position 0 / first full window", loc)
                else:
                    eq(ctx, "R2", c + ":first-feasible", lp.it.lo, Lin.c(0), "first split point (start_with_window=False)", loc)
                # last feasible: hi is the first infeasible split point
                beyond = test.elem("last").subst({var: lp.it.hi})
                lf = f.entails((N - 1) - beyond + 1) is not None
                if not lf and SOFT["on"] and not is_free(beyond):
                    lf = None
                if lf is None:
                    undecided(ctx, "R2", c + ":last-feasible", "range end involves derived symbols", loc)
                else:
                    ctx.check(lf, "R2", c + ":last-feasible",
                              "split point == range end would put the last test position at %r > n-1 (range end is tight)" % beyond,
                              "range end %r is not the first infeasible split point (last test position there: %r)" % (lp.it.hi, beyond),
                              loc, witness={"end": repr(lp.it.hi)})
                # guard tightness
                gl = (W if not iw else IW) + FHL - N
                sl = Facts([(x, o) for x, o in f.items if not o.startswith("loop range")]).slack(gl)
                if sl is None:
                    ctx.violation("R3", c + ":guard", "no guard relates window, horizon and series length", loc)
                else:
                    ctx.check(sl == 0, "R3", c + ":guard-tight", "feasibility guard rejects exactly window + max(fh) > n",
                              "feasibility guard is off by %s (rejects feasible or accepts infeasible configurations)" % sl, loc)
        # lower bound of train: either >= 0 entailed or filtered in split()
        traces2, fst2, k2 = run_method(repo, make_interp(repo), construct(repo, make_interp(repo), cls, ctor),
                                       "split", {"y": Arr("y", N, "series")}, base_facts())
        locs = ctx.loc(k2.module, k2.methods["split"])
        filt_ok = bool(fst2.yields)
        for rec in fst2.yields:
            tr, te = split_parts(rec.value)
            if isinstance(tr, Rng):
                # no >= 0 filter on the training positions: the window start must be entailed non-negative
                pr = rec.facts.entails(Lin.c(0) - tr.lo)
                if pr is None:
                    if is_free(tr.lo):
                        ctx.violation("R3", "%s:train>=0" % tag, "training positions are not filtered to >= 0 and the window start %r can be negative "
                                      "(negative positions index from the end of the series)" % tr.lo, locs)
                    else:
                        undecided(ctx, "R3", "%s:train>=0" % tag, "window start %r not decidable" % tr.lo, locs)
                else:
                    ctx.ok("R3", "%s:train>=0" % tag, "window start %r >= 0 entailed" % tr.lo, locs)
            for part, nm in ((tr, "train"), (te, "test")):
                if isinstance(part, Filt):
                    good = part.op == ">=" and as_lin_val(part.bound) == Lin.c(0)
                    ctx.check(good, "R3", "%s:split-filter:%s" % (tag, nm), "split() keeps positions >= 0",
                              "split() filters %s with `%s %r` (position 0 must be kept, negatives dropped)" % (nm, part.op, part.bound), locs)
                    filt_ok = filt_ok and good
                elif isinstance(part, (Rng, Vec)):
                    pass
                else:
                    ctx.undecided("R3", "%s:split-filter:%s" % (tag, nm), "split() yields %r" % (part,), locs)
        # R4: get_cutoffs
        it3 = make_interp(repo)
        self3 = construct(repo, it3, cls, ctor)
        tr3, fst3, k3 = run_method(repo, it3, self3, "get_cutoffs", {"y": Arr("y", N, "series")}, base_facts())
        rets = [o[1] for s, o in tr3 if o[0] == "return"]
        loc3 = ctx.loc(k3.module, k3.methods["get_cutoffs"])
        c = tag + ":get_cutoffs"
        if len(rets) == 1 and isinstance(rets[0], Filt) and isinstance(rets[0].base, Rng) and as_lin_val(rets[0].bound) is not None:
            flt = rets[0]
            fx = [s_ for s_, o in tr3 if o[0] == "return"][0].facts
            bound = as_lin_val(flt.bound)
            first = flt.base.lo
            keeps_all = (flt.op == ">=" and fx.entails(bound - first) is not None) or (flt.op == ">" and fx.entails(bound - first + 1) is not None)
            drops_first = (flt.op == ">=" and fx.entails(first - bound + 1) is not None) or (flt.op == ">" and fx.entails(first - bound) is not None)
            if keeps_all:
                rets = [flt.base]
            elif drops_first:
                ctx.violation("R4", c, "reported cutoffs are filtered with `%s %r` and lose the first yielded cutoff %r (the splitter still yields that split)"
                              % (flt.op, flt.bound, first), loc3, witness={"first_cutoff": repr(first)})
                rets = None
        if rets is None:
            rets = []
        elif len(rets) != 1 or not isinstance(rets[0], Rng):
            ctx.undecided("R4", c, "get_cutoffs does not return a single progression: %r" % (rets,), loc3)
        else:
            got = rets[0]
            loopc = [x for x in cutoffs if x[0] == "loop"]
            if loopc and len(loopc[0][2].loops) == 1 and isinstance(loopc[0][2].loops[0].it, Rng):
                lp = loopc[0][2].loops[0]
                var = list(lp.var.symbols())[0]
                cut = loopc[0][1]
                want = Rng(cut.subst({var: lp.it.lo}), cut.subst({var: lp.it.hi}), lp.it.step)
                if iw:
                    # unrolling lemma: [first] ++ arange(first+step, end, step)
                    want = Rng(IW - 1, want.hi, want.step)
                    ctx.check(want.lo + STEP == cut.subst({var: lp.it.lo}), "R4", c + ":unroll",
                              "initial cutoff + step == first loop cutoff",
                              "initial cutoff %r + step != first loop cutoff %r" % (want.lo, cut.subst({var: lp.it.lo})), loc3)
                ctx.check(got == want, "R4", c, "reported cutoffs %r == yielded cutoffs" % got,
                          "reported cutoffs %r differ from yielded cutoffs %r" % (got, want), loc3,
                          witness={"reported": repr(got), "yielded": repr(want)})
        # get_n_splits
        it4 = make_interp(repo)
        self4 = construct(repo, it4, cls, ctor)
        tr4, fst4, k4 = run_method(repo, it4, self4, "get_n_splits", {"y": Arr("y", N, "series")}, base_facts())
        rets4 = [o[1] for s, o in tr4 if o[0] == "return"]
        loc4 = ctx.loc(k4.module, k4.methods["get_n_splits"])
        good = None
        if len(rets4) == 1:
            r = rets4[0]
            if isinstance(r, Opq) and r.tag == "len" and len(r.args) == 1 and len(rets) == 1:
                good = r.args[0] == rets[0]
            elif isinstance(r, Lin) and len(rets) == 1 and isinstance(rets[0], Rng) and rets[0].length() is not None:
                good = r == rets[0].length()
        if good is None and rets4 and all(isinstance(r, Lin) for r in rets4):
            # a count computed arithmetically (floor / ceil forms): concretise every returning trace on the grid and compare
            # with the specified number of splits
            good = _count_on_grid(it4, [(s_, o_[1]) for s_, o_ in tr4 if o_[0] == "return"], sliding, iw, sww)
            if isinstance(good, dict):
                ctx.violation("R4", tag + ":get_n_splits", "get_n_splits returns %(got)s for n=%(n)d window=%(w)d step=%(step)d fh=%(fh)s "
                              "initial_window=%(iw)s; %(want)d splits are yielded" % good, loc4, witness=good)
                good = "reported"
        if good != "reported":
            ctx.check(good, "R4", tag + ":get_n_splits", "get_n_splits == len(get_cutoffs(y))",
                      "get_n_splits returns %r, not the number of reported cutoffs" % (rets4,), loc4)


def check_cutoff_splitter(ctx, repo):
    cls = repo.cls(SPLIT + ":CutoffSplitter")
    mod = cls.module
    tag = "CutoffSplitter"
    it = make_interp(repo)
    ctor = {"cutoffs": Vec("cutoffs", 0, False), "fh": FH, "window_length": W}
    selfv = construct(repo, it, cls, ctor)
    traces, fst, k = run_method(repo, it, selfv, "_split", {"y": Arr("y", N, "index")}, base_facts())
    recs = fst.yields
    loc0 = ctx.loc(mod, k.methods["_split"])
    if len(recs) != 1:
        ctx.violation("R1", tag + ":yields", "expected one yield site, found %d" % len(recs), loc0)
        return
    rec = recs[0]
    loc = "%s:%s" % (mod.relpath, rec.node.lineno)
    train, test = split_parts(rec.value)
    if len(rec.loops) == 1 and isinstance(rec.loops[0].it, Vec) and rec.loops[0].it.base == "unique(cutoffs)":
        # the loop runs over the de-duplicated cutoffs: the count must be taken from the same collection
        tr, fs, k3 = run_method(repo, make_interp(repo), selfv, "get_n_splits", {"y": Arr("y", N, "series")}, base_facts())
        rets = [o[1] for s, o in tr if o[0] == "return"]
        if len(rets) == 1 and rets[0] == Lin.sym("len(cutoffs)"):
            ctx.violation("R4", tag + ":get_n_splits",
                          "split yields one window per *distinct* cutoff (%r) but get_n_splits counts the raw cutoffs %r"
                          % (rec.loops[0].it, rets[0]), loc, witness={"cutoffs": [3, 3], "yielded": 1, "get_n_splits": 2})
            return
    if len(rec.loops) != 1 or not isinstance(rec.loops[0].it, Vec) or rec.loops[0].it.base != "cutoffs":
        ctx.undecided("R1", tag + ":loop", "does not iterate the validated cutoffs: %r" % (rec.loops,), loc)
        return
    ctx.check(rec.loops[0].it.sorted and rec.loops[0].it.off == Lin.c(0), "R4", tag + ":iterates-validated",
              "iterates the sorted, validated cutoffs", "iterates %r" % rec.loops[0].it, loc)
    cvar = rec.loops[0].var
    if not isinstance(train, Rng) or train.step != Lin.c(1) or not isinstance(test, Vec):
        ctx.check(None if isinstance(train, Opq) or isinstance(test, Opq) else False, "R1", tag + ":shape", "",
                  "windows are not progression / horizon+offset: %r %r" % (train, test), loc)
        return
    ctx.ok("R1", tag + ":contiguous", "train = %r" % train, loc)
    eq(ctx, "R1", tag + ":cutoff", train.hi - 1, cvar, "last training position (the requested cutoff)", loc)
    ctx.check(test.base == "fh" and not test.neg and test.off == cvar, "R1", tag + ":test", "test = cutoff + fh",
              "test = %r, expected cutoff + fh with cutoff %r" % (test, cvar), loc)
    eq(ctx, "R1", tag + ":length", train.hi - train.lo, W, "window length", loc)
    f = rec.facts
    prove_le(ctx, "R3", tag + ":test<=n-1", f, test.elem("last"), N - 1, "last test position inside series", loc)
    prove_le(ctx, "R3", tag + ":train<=n-1", f, train.hi - 1, N - 1, "cutoff inside series", loc)
    prove_le(ctx, "R3", tag + ":no-leak", f, train.hi, test.elem("first"), "last training position < first test position", loc)
    # tightness of the guards: cutoffs[-1] + fh[-1] <= n - 1 exactly
    g = Lin.sym("cutoffs[-1]") + FHL - N + 1
    sl = f.slack(g)
    if sl is not None and sl < 0:
        ctx.violation("R3", tag + ":guard-tight", "guard rejects feasible cutoffs (off by %s)" % sl, loc)
    # get_cutoffs / get_n_splits
    it2 = make_interp(repo)
    s2 = construct(repo, it2, cls, ctor)
    tr, fs, k2 = run_method(repo, it2, s2, "get_cutoffs", {"y": Arr("y", N, "series")}, base_facts())
    rets = [o[1] for s, o in tr if o[0] == "return"]
    ctx.check(len(rets) == 1 and rets[0] == rec.loops[0].it, "R4", tag + ":get_cutoffs",
              "get_cutoffs returns the same validated cutoffs the split iterates",
              "get_cutoffs returns %r, split iterates %r" % (rets, rec.loops[0].it), ctx.loc(mod, k2.methods["get_cutoffs"]))
    tr, fs, k3 = run_method(repo, make_interp(repo), s2, "get_n_splits", {"y": Arr("y", N, "series")}, base_facts())
    rets = [o[1] for s, o in tr if o[0] == "return"]
    ctx.check(len(rets) == 1 and rets[0] == Lin.sym("len(cutoffs)"), "R4", tag + ":get_n_splits",
              "get_n_splits == number of cutoffs", "get_n_splits returns %r" % (rets,), ctx.loc(mod, k3.methods["get_n_splits"]))


def check_single(ctx, repo):
    cls = repo.cls(SPLIT + ":SingleWindowSplitter")
    mod = cls.module
    for wl in (W, K(None)):
        tag = "SingleWindowSplitter[window_length=%s]" % ("None" if isinstance(wl, K) else "given")
        it = make_interp(repo)
        ctor = {"fh": FH, "window_length": wl}
        selfv = construct(repo, it, cls, ctor)
        traces, fst, k = run_method(repo, it, selfv, "_split", {"y": Arr("y", N, "index")}, base_facts())
        recs = fst.yields
        loc0 = ctx.loc(mod, k.methods["_split"])
        ctx.count("scenarios")
        if len(recs) != 1:
            ctx.violation("R1", tag + ":yields", "expected exactly one split, found %d yield sites" % len(recs), loc0)
            continue
        rec = recs[0]
        loc = "%s:%s" % (mod.relpath, rec.node.lineno)
        if rec.loops:
            ctx.violation("R1", tag + ":single", "split is yielded inside a loop", loc)
        train, test = split_parts(rec.value)
        if not isinstance(train, Rng) or train.step != Lin.c(1) or not isinstance(test, Vec):
            ctx.check(None if isinstance(train, Opq) or isinstance(test, Opq) else False, "R1", tag + ":shape", "",
                      "windows are not progression / horizon+offset: %r %r" % (train, test), loc)
            continue
        cutoff = train.hi - 1
        ctx.ok("R1", tag + ":contiguous", "train = %r" % train, loc)
        ctx.check(test.base == "fh" and not test.neg and test.off == cutoff, "R1", tag + ":test", "test = cutoff + fh",
                  "test = %r but cutoff = %r" % (test, cutoff), loc)
        if test.neg:
            continue
        if isinstance(wl, K):
            eq(ctx, "R1", tag + ":start", train.lo, Lin.c(0), "window start (no window length: all history)", loc)
        else:
            eq(ctx, "R1", tag + ":length", train.hi - train.lo, W, "window length", loc)
        f = rec.facts
        prove_le(ctx, "R3", tag + ":test<=n-1", f, test.elem("last"), N - 1, "last test position inside series", loc)
        ctx.check(test.elem("last") is not None and test.elem("last") == N - 1, "R2", tag + ":last-window", "the single window is the last feasible one",
                  "last test position is %r, not n-1" % test.elem("last"), loc)
        prove_le(ctx, "R3", tag + ":no-leak", f, train.hi, test.elem("first"), "last training position < first test position", loc)
        it2 = make_interp(repo)
        s2 = construct(repo, it2, cls, ctor)
        tr, fs, k2 = run_method(repo, it2, s2, "get_cutoffs", {"y": Arr("y", N, "series")}, base_facts())
        rets = [o[1] for s, o in tr if o[0] == "return"]
        got = None
        if len(rets) == 1:
            r = rets[0]
            if isinstance(r, Opq) and r.tag == "array" and r.args and isinstance(r.args[0], Tup) and len(r.args[0].items) == 1:
                got = r.args[0].items[0]
            elif isinstance(r, Tup) and len(r.items) == 1:
                got = r.items[0]
        if got is None:
            ctx.undecided("R4", tag + ":get_cutoffs", "get_cutoffs returns %r" % (rets,), ctx.loc(mod, k2.methods["get_cutoffs"]))
        else:
            ctx.check(got == cutoff, "R4", tag + ":get_cutoffs", "reported cutoff %r == yielded cutoff" % got,
                      "reported cutoff %r != yielded cutoff %r" % (got, cutoff), ctx.loc(mod, k2.methods["get_cutoffs"]))
        tr, fs, k3 = run_method(repo, make_interp(repo), s2, "get_n_splits", {"y": Arr("y", N, "series")}, base_facts())
        rets = [o[1] for s, o in tr if o[0] == "return"]
        ctx.check(rets == [Lin.c(1)], "R4", tag + ":get_n_splits", "get_n_splits == 1", "get_n_splits returns %r" % (rets,),
                  ctx.loc(mod, k3.methods["get_n_splits"]))


def check_tts(ctx, repo):
    """R5: temporal_train_test_split / _split_by_fh."""
    mod = repo.module(SPLIT)
    fn = repo.func(SPLIT, "temporal_train_test_split")
    loc = ctx.loc(mod, fn)
    # a size argument is never silently ignored: fh together with test_size or train_size is rejected (exact path condition)
    from ..boolx import Atomizer, PathConditions, atom as _A, neg as _N, conj as _C, disj as _D, equivalent as _eqv, show as _sh, bind_repo as _br
    _br(repo)
    pc = PathConditions(fn, Atomizer())
    spec = _C(_N(_A("isnone(fh)")), _D(_N(_A("isnone(test_size)")), _N(_A("isnone(train_size)"))))
    okx, wit = _eqv(pc.raises, spec)
    ctx.check(bool(okx), "R5", "temporal_train_test_split:size-or-horizon", "fh given together with a size is rejected (neither is silently dropped)",
              "the split rejects iff %s; with the horizon taking precedence a given test_size / train_size must be rejected, otherwise it is "
              "silently ignored (differing case %s)" % (_sh(pc.raises), wit), loc, witness=wit)
    calls = [c for c in ast.walk(fn) if isinstance(c, ast.Call)]
    tts = [c for c in calls if (repo.resolve_expr(mod, c.func) or None) is not None
           and repo.resolve_expr(mod, c.func).dotted == "sklearn.model_selection.train_test_split"]
    if len(tts) != 1:
        ctx.undecided("R5", "temporal_train_test_split:delegate", "expected one call of sklearn train_test_split, found %d" % len(tts), loc)
    else:
        c = tts[0]
        kw = {k.arg: k.value for k in c.keywords if k.arg}
        sh = kw.get("shuffle")
        ctx.check(isinstance(sh, ast.Constant) and sh.value is False, "R5", "temporal_train_test_split:shuffle",
                  "shuffle=False literal", "train_test_split is not called with the literal shuffle=False", ctx.loc(mod, c))
        stf = kw.get("stratify")
        ctx.check(stf is None or (isinstance(stf, ast.Constant) and stf.value is None), "R5",
                  "temporal_train_test_split:stratify", "stratify=None", "stratify is not None", ctx.loc(mod, c))
        for p in ("test_size", "train_size"):
            v = kw.get(p)
            ctx.check(isinstance(v, ast.Name) and v.id == p and not astq.assigned_in(fn, p), "R5",
                      "temporal_train_test_split:forward:" + p, "%s forwarded unchanged" % p,
                      "%s is not forwarded unchanged to train_test_split" % p, ctx.loc(mod, c))
        # the series passed positionally are (y,) or (y, X) in that order
        star = [a for a in c.args if isinstance(a, ast.Starred)]
        ok = None
        if len(star) == 1 and isinstance(star[0].value, ast.Name):
            vals = astq.assigned_values(fn, star[0].value.id)
            tuples = []
            sname = star[0].value.id
            for v in vals:
                for t in ([v.body, v.orelse] if isinstance(v, ast.IfExp) else [v]):
                    if isinstance(t, (ast.Tuple, ast.List)):
                        tuples.append([dotted(e) for e in t.elts])
            # a list that is grown afterwards: every growth appends X after y
            grown = [x for x in astq.calls(fn) if isinstance(x.func, ast.Attribute) and dotted(x.func.value) == sname
                     and x.func.attr in ("append", "extend", "insert")]
            for gcall in grown:
                if gcall.func.attr == "append" and len(gcall.args) == 1 and dotted(gcall.args[0]) == "X":
                    tuples.append(["y", "X"])
                else:
                    tuples.append(["?"])
            ok = bool(tuples) and all(t in (["y"], ["y", "X"]) for t in tuples)
            if not ok and any("?" in t or None in t for t in tuples):
                ok = None
        elif not star:
            ok = [dotted(a) for a in c.args] in (["y"], ["y", "X"])
        ctx.check(ok, "R5", "temporal_train_test_split:series-order", "series passed as (y[, X])",
                  "series are not passed as (y[, X])", ctx.loc(mod, c))
    # fh branch: exclusive with sizes, delegates to _split_by_fh(y, fh, X=X)
    sb = [c for c in calls if dotted(c.func) == "_split_by_fh"]
    good = None
    if len(sb) == 1:
        b = astq.bind_call(repo.func(SPLIT, "_split_by_fh"), sb[0])
        good = b is not None and all(dotted(b.get(p)) == p for p in ("y", "fh", "X"))
    ctx.check(good, "R5", "temporal_train_test_split:by-fh", "_split_by_fh(y, fh, X) receives the caller's arguments",
              "_split_by_fh is not called with (y, fh, X=X)", loc)

    # _split_by_fh
    f2 = repo.func(SPLIT, "_split_by_fh")
    it = Interp(repo, scenario={"fh.is_all_out_of_sample": True, "fh.is_all_in_sample": False}, hooks=tts_hooks,
                no_inline=("check_fh", "check_equal_time_index"))
    for rel in (True, False):
        tag = "_split_by_fh[%s]" % ("relative" if rel else "absolute")
        fhv = FHV(Vec("fh"), rel)
        st = State(facts=base_facts())
        traces, fst = it.run_function(Frame(mod, f2), {"y": Arr("y", N, "series"), "fh": fhv, "X": Arr("X", N, "frame")}, st)
        rets = [(s, o[1]) for s, o in traces if o[0] == "return"]
        ctx.count("scenarios")
        if len(rets) != 1 or not isinstance(rets[0][1], Tup) or len(rets[0][1].items) != 4:
            ctx.undecided("R5", tag, "unexpected return structure: %r" % ([r for _, r in rets],), ctx.loc(mod, f2))
            continue
        y_tr, y_te, X_tr, X_te = rets[0][1].items
        loc2 = ctx.loc(mod, f2)

        def lab(v):
            return v.args[1] if isinstance(v, Opq) and v.tag == "loc" and len(v.args) == 2 else None

        def src(v):
            return v.args[0] if isinstance(v, Opq) and v.tag == "loc" and len(v.args) == 2 else None

        ctx.check(isinstance(src(y_tr), Arr) and src(y_tr).name == "y" and isinstance(src(y_te), Arr) and src(y_te).name == "y"
                  and isinstance(src(X_tr), Arr) and src(X_tr).name == "X" and isinstance(src(X_te), Arr) and src(X_te).name == "X",
                  "R5", tag + ":sources", "y parts come from y, X parts from X (label selection)",
                  "returned parts are not label selections of y/X: %r" % (rets[0][1],), loc2)
        ctx.check(lab(y_tr) is not None and lab(y_tr) == lab(X_tr), "R5", tag + ":same-train-labels",
                  "X_train uses the same labels as y_train", "X_train labels %r differ from y_train labels %r" % (lab(X_tr), lab(y_tr)), loc2)
        tr = lab(y_tr)
        if rel:
            from ..absint import SliceV, Gather
            m = FHL  # idx.max()
            good = isinstance(tr, SliceV) and isinstance(tr.base, Arr) and tr.base.name == "y.index" and tr.lo is None and tr.hi == -m
            ctx.check(good, "R5", tag + ":train", "train = index[:-max(fh)]", "train labels are %r, expected index[:-max(fh)]" % (tr,), loc2)
            te = lab(y_te)
            good = (isinstance(te, Gather) and isinstance(te.base, SliceV) and te.base.base == (tr.base if isinstance(tr, SliceV) else None)
                    and te.base.lo == -m and te.base.hi is None and te.idx == Vec("fh", -1))
            ctx.check(good, "R5", tag + ":test", "test = index[-max(fh):][fh - 1] (last train position + fh)",
                      "y_test labels are %r, expected index[-max(fh):][fh-1]" % (te,), loc2)
            xt = lab(X_te)
            ctx.check(isinstance(xt, SliceV) and xt.lo == -m and xt.hi is None, "R5", tag + ":X_test",
                      "X_test = rows after the training part", "X_test labels %r" % (xt,), loc2)
        else:
            good = (isinstance(tr, Filt) and isinstance(tr.base, Arr) and tr.base.name == "y.index" and tr.op == "<"
                    and as_lin_val(tr.bound) == FH0)
            ctx.check(good, "R5", tag + ":train", "train = index[index < min(fh)] (strictly before the first test label)",
                      "train labels are %r, expected index[index < min(fh)]" % (tr,), loc2)
            te = lab(y_te)
            ctx.check(te == Vec("fh"), "R5", tag + ":test", "y_test selected by the horizon's own labels",
                      "y_test labels %r, expected the horizon values" % (te,), loc2)
            # X_test: every row whose label lies in the closed span [min(fh), max(fh)] of the horizon
            xt = lab(X_te)
            span = _label_span(xt)
            if span is None:
                ctx.undecided("R5", tag + ":X_test", "X_test labels not a two-sided mask over the index: %r" % (xt,), loc2)
            else:
                (lo, lo_incl), (hi, hi_incl) = span
                ok_ = lo == FH0 and hi == FHL and lo_incl and hi_incl
                ctx.check(ok_, "R5", tag + ":X_test", "X_test = rows with min(fh) <= label <= max(fh)",
                          "X_test keeps the labels %s %r and %s %r; the exogenous rows of the first / last test label must be included "
                          "(closed span [min(fh), max(fh)])" % (">=" if lo_incl else ">", lo, "<=" if hi_incl else "<", hi), loc2,
                          witness={"fh": "absolute [9, 10, 11]", "X_test": "[9, 10] or [10, 11]"} if not ok_ else None)
    # the relative branch rejects in-sample horizons; check_equal_time_index precedes when X given
    from ..cfg import CFG
    g = CFG(f2)
    ce = [n for n in g.nodes if any(dotted(c.func) == "check_equal_time_index" for c in n.calls())]
    from ..boolx import Atomizer as _At, PathConditions as _PC, atoms_of as _ao, evaluate as _evl2, bind_repo as _br2
    _br2(repo)
    pcr = _PC(f2, _At())
    ats_ = sorted(_ao(pcr.raises))
    rel_a = [a for a in ats_ if a.endswith(".is_relative")]
    oos_a = [a for a in ats_ if "is_all_out_of_sample" in a]
    if not oos_a:
        from ._c20_specs import helper_rejects_in_sample as _hr
        hr = _hr(repo, mod, f2)
        if hr is not None:
            ctx.check(hr, "R5", "_split_by_fh:in-sample-rejected", "a relative horizon with in-sample steps is rejected (in the helper "
                      "the relative branch delegates to)", "the helper of the relative branch does not reject in-sample steps", ctx.loc(mod, f2),
                      witness={"fh": [0, 1]})
            oos_a = None
    if oos_a is None:
        pass
    elif len(rel_a) == 1 and len(oos_a) == 1 and len(ats_) <= 8:
        from itertools import product as _pr
        others = [a for a in ats_ if a not in rel_a + oos_a]
        okr = all(_evl2(pcr.raises, dict(zip(others, v), **{rel_a[0]: True, oos_a[0]: False})) for v in _pr((False, True), repeat=len(others)))
        ctx.check(okr, "R5", "_split_by_fh:in-sample-rejected", "a relative horizon with in-sample steps is rejected (the split is defined for "
                  "out-of-sample horizons only)", "a relative horizon with steps <= 0 is accepted: index[:-max(fh)] / index[-max(fh):] then "
                  "yield overlapping or empty parts", ctx.loc(mod, f2), witness={"fh": [0, 1]})
    else:
        ctx.check(False if not oos_a else None, "R5", "_split_by_fh:in-sample-rejected", "",
                  "_split_by_fh never rejects a relative horizon with in-sample steps" if not oos_a else "rejection condition not interpretable: %s" % ats_,
                  ctx.loc(mod, f2))
    ctx.check(bool(ce), "R5", "_split_by_fh:check_equal_time_index", "y and X indices are compared",
              "check_equal_time_index(y, X) is not called", ctx.loc(mod, f2))


def _label_span(v):
    """((lower, inclusive), (upper, inclusive)) of `index[(index <= hi) & (lo <= index)]`-style label masks, else None."""
    if not (isinstance(v, Opq) and v.tag == "index" and len(v.args) == 2 and isinstance(v.args[0], Arr) and v.args[0].name == "y.index"):
        return None
    m = v.args[1]
    if not (isinstance(m, Opq) and m.tag == "binop:BitAnd" and len(m.args) == 2):
        return None
    lo = hi = None
    for c in m.args:
        if not (isinstance(c, Opq) and c.tag.startswith("cmp:") and len(c.args) == 2):
            return None
        op = c.tag[4:]
        a, b = c.args
        if isinstance(b, Arr) and b.name == "y.index" and not isinstance(a, Arr):
            a, b = b, a
            op = {"<=": ">=", "<": ">", ">=": "<=", ">": "<"}.get(op)
        if not (isinstance(a, Arr) and a.name == "y.index") or op is None:
            return None
        bound = as_lin_val(b)
        if bound is None:
            return None
        if op in ("<=", "<"):
            if hi is not None:
                return None
            hi = (bound, op == "<=")
        else:
            if lo is not None:
                return None
            lo = (bound, op == ">=")
    return (lo, hi) if lo is not None and hi is not None else None


def tts_hooks(interp, frame, call, fname, args, kwargs, st):
    simple = (fname or "").split(".")[-1]
    if simple == "check_fh":
        return args[0] if args and isinstance(args[0], FHV) else Opq("check_fh", args)
    if simple == "check_equal_time_index":
        return K(None)
    if isinstance(call.func, ast.Attribute):
        recv = interp.ev(call.func.value, st, frame)
        if isinstance(recv, Vec) and call.func.attr in ("max", "min"):
            return recv.elem("last" if call.func.attr == "max" else "first")
    return NotImplemented


class _LocInterpMixin:
    pass


def _patch_loc():
    """``x.loc[labels]`` -> Opq('loc', [x, labels]) (label selection)."""
    orig = Interp.index

    def index(self, base, idx, e, st, frame):
        if isinstance(base, Opq) and base.tag == "attr:loc" and base.args:
            return Opq("loc", [base.args[0], idx])
        return orig(self, base, idx, e, st, frame)

    Interp.index = index


_patch_loc()


def check_stateless(ctx, repo):
    """R4 for every call history: split/get_cutoffs/get_n_splits are functions of (constructor parameters, y) only.
    A store to ``self`` outside ``__init__`` makes what a splitter reports depend on earlier calls."""
    from .. import astq as _a
    for cname in ("BaseSplitter", "BaseWindowSplitter", "SlidingWindowSplitter", "ExpandingWindowSplitter",
                  "CutoffSplitter", "SingleWindowSplitter"):
        cls = repo.cls(SPLIT + ":" + cname)
        for mname, fn in sorted(cls.methods.items()):
            if mname == "__init__":
                continue
            stores = _a.self_attr_stores(fn)
            dyn = [c for c in _a.calls(fn) if _a.call_name(c) == "setattr" and c.args and dotted(c.args[0]) == "self"]
            key = "%s.%s:stateless" % (cname, mname)
            ctx.check(not stores and not dyn, "R4", key, "no store to self (result depends on parameters and y only)",
                      "%s.%s stores self.%s: what the splitter yields/reports now depends on earlier calls" % (
                          cname, mname, ", self.".join(sorted({a for a, _, _ in stores}) or ["<setattr>"])),
                      ctx.loc(cls.module, (stores[0][2] if stores else (dyn[0] if dyn else fn))))


def check_models(ctx, repo):
    """R6 -- conformance of the helpers the interpreter *models* instead of inlining (hooks / no_inline):
    ``_check_y`` / ``check_time_index`` hand back the index of ``y`` one-to-one (so ``len`` is the series length
    and positions are positions of ``y``), ``_check_fh`` hands back a relative horizon unchanged and
    ``fh.to_indexer()`` of a relative horizon is ``steps - 1`` whether or not a cutoff is known."""
    from .. import passthru
    from . import c02 as _c02
    mod = repo.module(SPLIT)
    passthru.decide(ctx, "R6", "_check_y:returns-index-of-y", repo, mod, repo.func(SPLIT, "_check_y"), "y",
                    "_check_y (input of every split/get_cutoffs/get_n_splits)")
    smod = repo.module("sktime/utils/validation/series.py")
    passthru.decide(ctx, "R6", "check_time_index:returns-index", repo, smod, repo.func(smod.relpath, "check_time_index"),
                    repo.func(smod.relpath, "check_time_index").args.args[0].arg, "check_time_index")
    # the integer-setting validators the interpreter inlines: evaluated on a witness table (C20's oracle) so that a
    # rewritten / merged validator that rejects a valid setting (e.g. numpy integers) or admits an invalid one is decided
    from . import _c20_oracle as _orc
    _orc.run_all(ctx, repo, rule="R6", only={"is_int", "check_window_length", "check_step_length"})
    it = _c02.new_interp(repo)
    fhmod = repo.module(_c02.FH_PATH)
    me = _c02.fh_obj(it, 0, True)
    for tag, extra in (("no-cutoff", {}), ("cutoff=None", {"cutoff": K(None)})):
        rets, _, k, fn = _c02.call(repo, it, me, "to_indexer", **extra)
        _c02.judge(ctx, "R6", "ForecastingHorizon.to_indexer[relative,%s]" % tag, rets, _c02.STEPS.shift(-1), _c02.wf_vec,
                   ctx.loc(fhmod, fn), "fh.to_indexer() as used by the splitters (zero-based offsets from the cutoff: steps - 1)")
    # _check_fh: a relative horizon comes back unchanged
    it = _c02.new_interp(repo)
    me = it.make_fh(_c02.STEPS, True)
    fn = repo.func(SPLIT, "_check_fh")
    rets, raises, _ = _c02.irun(it, mod, fn, {fn.args.args[0].arg: me})
    vals = _c02.distinct([v for _, v in rets])
    loc = ctx.loc(mod, fn)
    if not vals:
        ctx.violation("R6", "_check_fh:relative-horizon-unchanged", "a valid relative horizon is rejected on every path", loc)
    elif not all(it.is_fh(v) for v in vals):
        ctx.undecided("R6", "_check_fh:relative-horizon-unchanged", "result not interpretable: %r" % (vals,), loc)
    else:
        ctx.check(all(v == me for v in vals), "R6", "_check_fh:relative-horizon-unchanged", "horizon returned unchanged",
                  "horizon is changed: %r -> %r" % (me, vals), loc)


def run(ctx):
    repo = ctx.repo
    del INTERPS[:]
    ctx.explain("C01: abstract interpretation (affine domain, scenario folding) of the four splitters' "
                "_split/get_cutoffs/get_n_splits and _split_by_fh; obligations are identities of affine normal "
                "forms and inequalities entailed by the rejecting guards on the trace.")
    ctx.assume("numpy.arange/range produce lo, lo+step, ... < hi; ForecastingHorizon values are sorted (C02-R4)")
    ctx.assume("sklearn.model_selection.train_test_split(shuffle=False) keeps order (external)")
    for cname in ("SlidingWindowSplitter", "ExpandingWindowSplitter"):
        check_window_class(ctx, repo, cname)
    check_cutoff_splitter(ctx, repo)
    check_single(ctx, repo)
    check_tts(ctx, repo)
    check_stateless(ctx, repo)
    check_models(ctx, repo)
    # no in-place augmented assignment on array-like values (parameters, horizons, cutoffs): a second call would see the change
    seen_ip = set()
    for it_ in INTERPS:
        for fname_, tgt, val, node in it_.inplace:
            key = "%s:%s:in-place" % (fname_, tgt)
            if key in seen_ip:
                continue
            seen_ip.add(key)
            ctx.violation("R4", key, "`%s` is modified in place (augmented assignment on the array %r) inside %s: the caller's horizon / cutoffs object "
                          "changes, so a second split of the same splitter yields different windows" % (tgt, val, fname_),
                          "%s:%s" % (SPLIT, node.lineno))
    if not seen_ip:
        ctx.ok("R4", "splitters:no-in-place-array-update", "no augmented assignment on array-like values in the interpreted splitter code",
               SPLIT + ":1")
    ctx.floor("R1", 20)
    ctx.floor("R2", 6)
    ctx.floor("R3", 20)
    ctx.floor("R4", 30)
    ctx.floor("R5", 10)
    ctx.floor("R6", 5)
