"""C20 -- rejection of malformed input: call discipline of validators.

R1 validator reachability (must-call per concrete class / entry point, before first use),
R2 validators' own predicates (truth tables), R3 rejecting defaults of string dispatch,
R4 window feasibility guards (affine facts), R5 no fitted state on a rejecting path,
R6 horizon-mixin decision tables.
"""
import ast

from .. import astq
from ..boolx import Atomizer, PathConditions, atom, neg, conj, disj, equivalent, show, TRUE, FALSE
from ..cfg import CFG, block_always_raises
from ..flow import Flow, name_pred
from ..index import AnalysisError, ClassInfo, dotted

SPLIT = "sktime/forecasting/model_selection/_split.py"
VALID = "sktime/utils/validation/__init__.py"
VFC = "sktime/utils/validation/forecasting.py"
VSER = "sktime/utils/validation/series.py"
SKT = "sktime/forecasting/base/_sktime.py"
FH = "sktime/forecasting/base/_fh.py"
REDUCE = "sktime/forecasting/compose/_reduce.py"
NAIVE = "sktime/forecasting/naive.py"
EVAL = "sktime/forecasting/model_evaluation/_functions.py"
TUNE = "sktime/forecasting/model_selection/_tune.py"


def is_abstract(fn):
    body = [s for s in fn.body if not (isinstance(s, ast.Expr) and isinstance(s.value, ast.Constant))]
    return len(body) <= 1 and (not body or isinstance(body[0], (ast.Raise, ast.Pass)))


def delegating_pred(names, method, param=None):
    """Validator call, or delegation of the same entry point to a fitted inner estimator
    (`self.x_.method(..., param, ...)` forwarding the parameter that needs validation)."""
    names = set(names)

    def pred(t, call):
        if t.name in names:
            return True
        f = call.func
        if t.kind == "attr" and t.name == method and isinstance(f, ast.Attribute):
            d = dotted(f.value)
            if bool(d) and d.startswith("self.") and d.endswith("_"):
                actuals = [dotted(a) for a in call.args] + [dotted(k.value) for k in call.keywords]
                return param is None or param in actuals
        return False

    return pred


# ================================================================================ R1
def rule_R1(ctx, repo, flow):
    BF = repo.cls("sktime/forecasting/base/_base.py:BaseForecaster")
    forecasters = repo.subclasses(BF)
    seen = set()
    table = (
        ("fit", "y-validated", ("_set_y_X", "check_y_X", "check_y"), "y"),
        ("fit", "fh-validated", ("_set_fh", "check_fh"), "fh"),
        ("predict", "fh-validated", ("_set_fh", "check_fh"), "fh"),
        ("update_predict_single", "fh-validated", ("_set_fh", "check_fh"), "fh"),
        ("update", "data-merged-through-validator", ("_update_y_X",), "y"),
    )
    preds = {}
    for c in forecasters:
        for method, role, names, param in table:
            hit = repo.lookup_method(c, method)
            if hit is None or is_abstract(hit[1]):
                continue
            k, fn = hit
            pk = (method, role)
            if pk not in preds:
                preds[pk] = delegating_pred(names, method, param)
            ok = flow.must_call(fn, preds[pk], k.module, c, k)
            key = "%s.%s:%s" % (k.qual, method, role)
            if not ok and role == "fh-validated" and method == "fit":
                # accepted idiom: fh is only forwarded to an inner forecaster's fit (tuner)
                ok = _only_forwarded(fn, "fh", "fit")
            if ok:
                if key not in seen:
                    ctx.ok("R1", key, "reaches %s on every path to a normal return" % "/".join(names), ctx.loc(k.module, fn))
                    seen.add(key)
            else:
                vkey = key if flow.must_call(fn, preds[pk], k.module, k, k) is False else "%s@%s" % (key, c.name)
                if vkey not in seen:
                    seen.add(vkey)
                    ctx.violation("R1", vkey, "%s.%s (defined in %s) can return without passing %s" % (
                        c.name, method, k.name, " / ".join(names)), ctx.loc(k.module, fn))
    ctx.count("forecaster_classes", len(forecasters))

    # update_predict: y validated, cv validated whenever used
    for c in [BF] + forecasters:
        hit = repo.lookup_method(c, "update_predict")
        if hit is None or is_abstract(hit[1]):
            continue
        k, fn = hit
        key = "%s.update_predict" % k.qual
        if key in seen:
            continue
        seen.add(key)
        ok = flow.must_call(fn, delegating_pred(("check_y", "check_y_X", "_update_y_X"), "update_predict", "y"), k.module, c, k)
        ctx.check(ok, "R1", key + ":y-validated", "y passes check_y (or the call is delegated to the fitted inner forecaster)",
                  "%s.update_predict uses y (y.index[0] in _predict_moving_cutoff) without check_y: array-typed or empty y fails with an "
                  "unrelated AttributeError/IndexError" % k.name, ctx.loc(k.module, fn))
        cv_validators = ("check_cv",) + tuple(sorted(
            m_ for kk in repo.mro(c) if isinstance(kk, ClassInfo) for m_, f_ in kk.methods.items()
            if m_ != "update_predict" and any(astq.call_name(c_) == "check_cv" and c_.args and dotted(c_.args[0]) in astq.param_names(f_)
                                              for c_ in astq.calls(f_))))  # own helpers that validate the splitter they are handed
        raw = _raw_uses(fn, "cv", cv_validators, forward_to="update_predict")
        ctx.check(not raw, "R1", key + ":cv-validated", "cv is only used through check_cv(cv) or None tests",
                  "cv is used unvalidated at line(s) %s" % ", ".join(str(n.lineno) for n in raw), ctx.loc(k.module, fn))

    # composites
    comp = (
        ("sktime/forecasting/compose/_ensemble.py:EnsembleForecaster", "fit", ("_check_forecasters",)),
        ("sktime/forecasting/online_learning/_online_ensemble.py:OnlineEnsembleForecaster", "fit", ("_check_forecasters",)),
        ("sktime/forecasting/compose/_stack.py:StackingForecaster", "fit", ("_check_forecasters",)),
        ("sktime/forecasting/compose/_stack.py:StackingForecaster", "fit", ("_check_final_regressor", "is_regressor")),
        ("sktime/forecasting/compose/_multiplexer.py:MultiplexForecaster", "fit", ("_check_forecasters",)),
        ("sktime/forecasting/compose/_multiplexer.py:MultiplexForecaster", "fit", ("_check_selected_forecaster",)),
        ("sktime/forecasting/compose/_pipeline.py:TransformedTargetForecaster", "fit", ("_check_steps",)),
    )
    for qual, method, names in comp:
        c = repo.cls(qual)
        hit = repo.lookup_method(c, method)
        if hit is None:
            raise AnalysisError("anchor missing: %s.%s" % (qual, method))
        k, fn = hit
        ok = flow.must_call(fn, name_pred(*names), k.module, c, k)
        ctx.check(ok, "R1", "%s.%s:%s" % (c.qual, method, names[0]), "composite structure check on every path",
                  "%s.%s can complete without %s" % (c.name, method, names[0]), ctx.loc(k.module, fn))
    # the structure checks themselves reject
    cf = repo.func("sktime/forecasting/base/_meta.py", "_HeterogenousEnsembleForecaster._check_forecasters")
    m = repo.module("sktime/forecasting/base/_meta.py")
    hc = repo.cls("sktime/forecasting/base/_meta.py:_HeterogenousEnsembleForecaster")
    n_rej = _raise_sites(repo, flow, hc, hc, cf)
    calls_names = any(astq.call_name(c) == "_check_names" for c in astq.calls(cf))
    ctx.check(n_rej >= 3 and calls_names, "R1", "_check_forecasters:rejects", "three rejecting sites (shape, all dropped, member type) and name validation",
              "_check_forecasters has %d rejecting sites, calls _check_names: %s" % (n_rej, calls_names), ctx.loc(m, cf))
    for fn_, label in ((cf, "_check_forecasters"),):
        dedup = None
        for c_ in astq.calls(fn_):
            if astq.call_name(c_) == "_check_names" and c_.args:
                e_ = astq.inline_locals(fn_, c_.args[0])
                src_ = ast.dump(e_)
                # names is usually produced by tuple-unpacking zip(*X): find that assignment
                for node_ in astq.walk_no_nested(fn_):
                    if isinstance(node_, ast.Assign) and isinstance(node_.targets[0], (ast.Tuple, ast.List)) and isinstance(node_.value, ast.Call) \
                            and astq.call_name(node_.value) == "zip" and isinstance(c_.args[0], ast.Name) \
                            and any(isinstance(t_, ast.Name) and t_.id == c_.args[0].id for t_ in node_.targets[0].elts):
                        src_ = ast.dump(astq.inline_locals(fn_, node_.value))
                dedup = any(k_ in src_ for k_ in ("id='dict'", "id='set'", "id='frozenset'", "id='OrderedDict'", "attr='fromkeys'"))
        ctx.check(None if dedup is None else (not dedup), "R1", label + ":names-not-deduplicated",
                  "the names handed to _check_names are all component names (duplicates preserved)",
                  "%s builds the names through a dict/set, so duplicate component names collapse before _check_names can reject them" % label,
                  ctx.loc(m, fn_))
    cs = repo.func("sktime/forecasting/compose/_pipeline.py", "TransformedTargetForecaster._check_steps")
    m = repo.module("sktime/forecasting/compose/_pipeline.py")
    tc = repo.cls("sktime/forecasting/compose/_pipeline.py:TransformedTargetForecaster")
    n_rej = _raise_sites(repo, flow, tc, tc, cs)
    calls_names = any(astq.call_name(c) == "_check_names" for c in astq.calls(cs))
    ctx.check(n_rej >= 2 and calls_names, "R1", "_check_steps:rejects", "transformer and forecaster type checks, name validation",
              "_check_steps has %d rejecting sites, calls _check_names: %s" % (n_rej, calls_names), ctx.loc(m, cs))

    # splitters
    bs = repo.cls(SPLIT + ":BaseSplitter")
    split = bs.methods.get("split")
    if split is None:
        raise AnalysisError("anchor missing: BaseSplitter.split")
    ok = flow.must_call(split, name_pred("_check_y", "check_time_index"), bs.module, bs, bs)
    g = flow.cfg(split)
    # the validated value is what _split receives
    ctx.check(ok, "R1", "BaseSplitter.split:_check_y", "y is validated before splitting", "split() does not validate y", ctx.loc(bs.module, split))
    cy = repo.func(SPLIT, "_check_y")
    ok = any(astq.call_name(c) == "check_time_index" for c in astq.calls(cy)) and \
        all(isinstance(r.value, ast.Call) and astq.call_name(r.value) == "check_time_index" for r in astq.returns(cy))
    ctx.check(ok, "R1", "_check_y:check_time_index", "_check_y returns check_time_index(...)", "_check_y does not return the checked index", ctx.loc(bs.module, cy))
    _unwrap_only_series(ctx, repo, bs.module, cy)
    ATTR_VALIDATORS = {
        "window_length": ("check_window_length",),
        "initial_window": ("check_window_length",),
        "step_length": ("check_step_length",),
        "fh": ("_check_fh", "check_fh"),
        "cutoffs": ("check_cutoffs",),
    }
    for cname in ("SlidingWindowSplitter", "ExpandingWindowSplitter", "CutoffSplitter", "SingleWindowSplitter"):
        c = repo.cls(SPLIT + ":" + cname)
        for method in ("_split", "get_cutoffs"):
            hit = repo.lookup_method(c, method)
            if hit is None or is_abstract(hit[1]):
                continue
            k, fn = hit
            for attr, validators in sorted(ATTR_VALIDATORS.items()):
                raw = unvalidated_attr_uses(repo, flow, c, k, fn, attr, validators)
                if raw is None:
                    continue  # attribute not used
                key = "%s.%s:%s" % (k.qual if cname in ("CutoffSplitter", "SingleWindowSplitter") else k.qual + "@" + cname, method, attr)
                if key in seen:
                    continue
                seen.add(key)
                ctx.check(not raw, "R1", key, "self.%s is validated by %s before any other use" % (attr, validators[0]),
                          "self.%s is used (line %s) on a path where %s was not called on it" % (
                              attr, ", ".join(str(x) for x in raw[:4]), "/".join(validators)), ctx.loc(k.module, fn))

    # function entry points
    def must(relpath, fname, names, what, order_before=None):
        fn = repo.func(relpath, fname)
        m = repo.module(relpath)
        ok = flow.must_call(fn, name_pred(*names), m)
        ctx.check(ok, "R1", "%s:%s" % (fname, names[0]), what, "%s can complete without %s" % (fname, "/".join(names)), ctx.loc(m, fn))
        return fn, m

    fn, m = must(EVAL, "evaluate", ("_check_strategy",), "strategy name validated")
    must(EVAL, "evaluate", ("check_cv",), "cv validated")
    must(EVAL, "evaluate", ("check_scoring",), "scoring validated")
    must(EVAL, "evaluate", ("check_y_X", "check_y"), "y/X validated")
    # all four precede the fold loop
    g = flow.cfg(fn)
    loops = [n for n in g.nodes if n.kind == "loop"]
    for nm in ("_check_strategy", "check_cv", "check_scoring", "check_y_X"):
        IN, OUT = g.forward_must(lambda n, nm=nm: any(astq.call_name(c) == nm for c in n.calls()))
        ctx.check(bool(loops) and all(IN[l.id] for l in loops), "R1", "evaluate:%s-before-loop" % nm, "%s precedes the fold loop" % nm,
                  "%s is not called before the fold loop on every path" % nm, ctx.loc(m, fn))
    cvc = [c for c in astq.calls(fn) if astq.call_name(c) == "check_cv"]
    ok = bool(cvc) and all(any(k.arg == "enforce_start_with_window" and astq.const_value(k.value) is True for k in c.keywords)
                           or (len(c.args) >= 2 and astq.const_value(c.args[1]) is True) for c in cvc)
    ctx.check(ok, "R1", "evaluate:check_cv-enforce", "check_cv(..., enforce_start_with_window=True)",
              "evaluate does not enforce start_with_window on the splitter", ctx.loc(m, fn))
    # tuner fit
    tuner = repo.cls(TUNE + ":BaseGridSearch")
    tf = tuner.methods.get("fit")
    if tf is None:
        raise AnalysisError("anchor missing: BaseGridSearch.fit")
    for names in (("check_y_X", "check_y"), ("check_cv",), ("check_scoring",)):
        ok = flow.must_call(tf, name_pred(*names), tuner.module, tuner, tuner)
        ctx.check(ok, "R1", "BaseGridSearch.fit:%s" % names[0], "%s on every path" % names[0],
                  "tuner fit can complete without %s" % names[0], ctx.loc(tuner.module, tf))
    # temporal_train_test_split / _split_by_fh
    tts = repo.func(SPLIT, "temporal_train_test_split")
    m = repo.module(SPLIT)
    pc = PathConditions(tts, Atomizer())
    spec = conj(neg(atom("isnone(fh)")), disj(neg(atom("isnone(test_size)")), neg(atom("isnone(train_size)"))))
    eqv, wit = equivalent(pc.raises, spec)
    ctx.check(eqv, "R1", "temporal_train_test_split:exclusive", "rejects fh together with test_size/train_size",
              "rejection condition is %s, expected fh given together with a size (witness %s)" % (show(pc.raises), wit), ctx.loc(m, tts))
    sb = repo.func(SPLIT, "_split_by_fh")
    ok = flow.must_call(sb, name_pred("check_fh"), m)
    ctx.check(ok, "R1", "_split_by_fh:check_fh", "fh validated", "_split_by_fh does not validate fh", ctx.loc(m, sb))
    g = flow.cfg(sb)
    cet = [n for n in g.nodes if any(astq.call_name(c) == "check_equal_time_index" for c in n.calls())]
    ok = False
    for n in cet:
        conds = g.guards_of(n)
        ok = ok or any(_is_not_none(t, "X") == br for t, br in conds if _is_not_none(t, "X") is not None)
        ok = ok or not conds
    ctx.check(ok, "R1", "_split_by_fh:check_equal_time_index", "indices of y and X compared whenever X is given",
              "check_equal_time_index is not called when X is given", ctx.loc(m, sb))
    _raw_data_args(ctx, repo, m, sb, "check_equal_time_index", ("y", "X"), "_split_by_fh")
    # ... on every path that hands back a result while X is given (an early return must not bypass the comparison)
    from ..boolx import implies as _imp5, atoms_of as _ao5
    pcm = PathConditions(sb, Atomizer(), mark=lambda st: not isinstance(st, (ast.If, ast.For, ast.While, ast.With, ast.Try)) and any(
        astq.call_name(c_) == "check_equal_time_index" for c_ in astq.calls(st)))
    called = FALSE
    for _st, _c in pcm.marked:
        called = disj(called, _c)
    xn = [a_ for a_ in _ao5(disj(called, pcm.returns)) if a_.startswith("isnone(X")]
    if len(xn) == 1 and pcm.marked:
        r5, w5 = _imp5(conj(pcm.returns, neg(atom(xn[0]))), called)
        ctx.check(bool(r5), "R1", "_split_by_fh:check_equal_time_index:every-path", "no result is returned for a given X before the indices were compared",
                  "_split_by_fh can return a result with X given on a path that never compared the indices of y and X (case %s): a misaligned "
                  "X is accepted" % (w5,), ctx.loc(m, sb), witness=w5)
    # a relative horizon with in-sample steps is rejected (path condition: relative & not all-out-of-sample -> raise)
    from ..boolx import atoms_of as _ao3, evaluate as _ev3
    pcs = PathConditions(sb, Atomizer())
    ats3 = sorted(_ao3(pcs.raises))
    rel3 = [a_ for a_ in ats3 if a_.endswith(".is_relative")]
    oos3 = [a_ for a_ in ats3 if "is_all_out_of_sample" in a_]
    if len(rel3) == 1 and len(oos3) == 1 and len(ats3) <= 8:
        from itertools import product as _pr3
        oth3 = [a_ for a_ in ats3 if a_ not in rel3 + oos3]
        oos = all(_ev3(pcs.raises, dict(zip(oth3, v_), **{rel3[0]: True, oos3[0]: False})) for v_ in _pr3((False, True), repeat=len(oth3)))
    else:
        oos = False if not oos3 else None
        if not oos3:
            from ._c20_specs import helper_rejects_in_sample as _hr
            hr = _hr(repo, m, sb)  # the relative branch may live in a module-level helper
            oos = hr if hr is not None else False
    ctx.check(oos, "R1", "_split_by_fh:out-of-sample", "relative in-sample horizons are rejected",
              "_split_by_fh does not reject in-sample horizons" if oos is False else "rejection condition of _split_by_fh not interpretable: %s" % ats3,
              ctx.loc(m, sb))
    # make_reduction
    must(REDUCE, "make_reduction", ("_check_strategy",), "strategy validated")
    must(REDUCE, "make_reduction", ("_check_scitype",), "scitype validated")
    mr = repo.func(REDUCE, "make_reduction")
    mred = repo.module(REDUCE)
    g = flow.cfg(mr)
    IN1, _ = g.forward_must(lambda n: any(astq.call_name(c) == "_check_strategy" for c in n.calls()))
    IN2, _ = g.forward_must(lambda n: any(astq.call_name(c) == "_check_scitype" for c in n.calls()))
    lookups = [n for n in g.nodes if any(astq.call_name(c) == "_get_forecaster" for c in n.calls())]
    ctx.check(bool(lookups) and all(IN1[n.id] and IN2[n.id] for n in lookups), "R1", "make_reduction:validate-before-lookup",
              "both validators precede the registry lookup", "registry lookup can happen before validation", ctx.loc(mred, mr))
    for vname, pname in (("_check_strategy", "strategy"), ("_check_scitype", "scitype")):
        vf = repo.func(REDUCE, vname)
        ok = _membership_reject(vf, pname)
        ctx.check(ok, "R1", vname + ":rejects", "rejects values outside its tuple and returns the argument",
                  "%s does not reject unknown values / return its argument" % vname, ctx.loc(mred, vf))
    # _sliding_window_transform
    must(REDUCE, "_sliding_window_transform", ("check_window_length",), "window length validated")
    must(REDUCE, "_sliding_window_transform", ("_check_fh",), "horizon validated")
    # NaiveForecaster.fit
    nf = repo.cls(NAIVE + ":NaiveForecaster")
    fit = nf.methods.get("fit")
    if fit is None:
        raise AnalysisError("anchor missing: NaiveForecaster.fit")
    fit_family = [fit]
    seen_f = {id(fit)}
    work = [fit]
    while work:
        f_ = work.pop()
        for x in astq.walk_no_nested(f_):
            if astq.is_self_attr(x) and isinstance(x.ctx, ast.Load):
                hit_ = repo.lookup_method(nf, x.attr)
                if hit_ and hit_[0] is nf and id(hit_[1]) not in seen_f and x.attr not in ("fit", "predict", "update"):
                    seen_f.add(id(hit_[1]))
                    fit_family.append(hit_[1])
                    work.append(hit_[1])
    fit_names = {f_.name for f_ in fit_family}
    for attr, validators in (("window_length", ("check_window_length",)), ("sp", ("check_sp",))):
        stores_ = []
        for f_ in fit_family:
            if f_.name.startswith("_predict") or f_.name in ("_get_last_window",):
                continue
            for x in astq.walk_no_nested(f_):
                if isinstance(x, ast.Assign) and any(astq.is_self_attr(t, attr=attr + "_") for t in x.targets):
                    stores_.append(x)
        bad = []
        for st in stores_:
            v = st.value
            ok = isinstance(v, ast.Call) and astq.call_name(v) in validators and v.args and astq.is_self_attr(v.args[0], attr=attr)
            derived = isinstance(v, ast.Call) and astq.call_name(v) == "len"
            const = isinstance(v, ast.Constant)
            from_validated = astq.is_self_attr(v) and v.attr.endswith("_") if v is not None else False
            if not (ok or derived or const or from_validated):
                bad.append(st.lineno)
        ctx.check(bool(stores_) and not bad, "R1", "NaiveForecaster.fit:%s_" % attr,
                  "fitted %s_ comes from %s(self.%s), a constant or len(y)" % (attr, validators[0], attr),
                  "%s_ is assigned from an unvalidated value at line %s" % (attr, bad) if stores_ else
                  "no store of %s_ found in fit or the own methods it reaches (%s)" % (attr, sorted(fit_names)), ctx.loc(nf.module, fit))
    # ForecastingHorizon.__init__
    fhc = repo.cls(FH + ":ForecastingHorizon")
    init = fhc.methods.get("__init__")
    if init is None:
        raise AnalysisError("anchor missing: ForecastingHorizon.__init__")
    ok = flow.must_call(init, name_pred("_check_values"), fhc.module, fhc, fhc)
    ctx.check(ok, "R1", "ForecastingHorizon.__init__:_check_values", "values validated on every path", "values can be stored unvalidated", ctx.loc(fhc.module, init))
    from itertools import product as _product
    from ..boolx import evaluate as _evaluate
    pci = PathConditions(init, Atomizer())
    ats = sorted(atoms_of_formula(pci.raises))
    bool_atoms = [a for a in ats if a.startswith("isinstance(is_relative") and "bool" in a]
    type_atoms = [a for a in ats if a.startswith("in(type(values")]
    ok_bool = False
    ok_type = None
    if len(bool_atoms) == 1 and len(ats) <= 10:
        others = [a for a in ats if a not in bool_atoms]
        ok_bool = all(_evaluate(pci.raises, dict(zip(others, vals), **{bool_atoms[0]: False}))
                      for vals in _product((False, True), repeat=len(others)))
        if type_atoms:
            rest = [a for a in others if a not in type_atoms]
            ok_type = all(_evaluate(pci.raises, dict(dict(zip(rest, vals), **{a: False for a in type_atoms}), **{bool_atoms[0]: True}))
                          for vals in _product((False, True), repeat=len(rest)))
    ctx.check(ok_bool, "R1", "ForecastingHorizon.__init__:is_relative-bool", "non-bool is_relative rejected on every path",
              "is_relative is not type-checked (rejection condition %s)" % show(pci.raises), ctx.loc(fhc.module, init))
    if ok_type is None:
        ctx.info("R1 ForecastingHorizon.__init__:type-compat: the container-type test is not expressed as `type(values) in <table>` path "
                 "conditions (e.g. behind a predicate helper); kind compatibility is then decided by C02-R4 and R2 kind-compat where locatable")
    else:
      ctx.check(ok_type, "R1", "ForecastingHorizon.__init__:type-compat",
                "a value type admitted for neither relative nor absolute horizons is rejected whatever is_relative is",
                "index type vs relative/absolute compatibility is not enforced on every path (rejection condition %s)" % show(pci.raises),
                ctx.loc(fhc.module, init))


def _raw_data_args(ctx, repo, module, fn, checker, params, label):
    """The comparison/validation helper ``checker`` is applied to the *data the caller passed*: every call hands it the
    parameters ``params`` themselves (or the same objects through pass-through helpers), not a slice / re-indexed / filtered
    derivative -- a derivative can satisfy the check while the data does not."""
    from ..passthru import alias_locals
    pa = {p: p for p in params}
    alias, origin_of = alias_locals(repo, module, fn, lambda e: None, params_alias=pa)
    calls = [c for c in astq.calls(fn) if astq.call_name(c) == checker]
    for c in calls:
        got = [origin_of(a) for a in c.args]
        key = "%s:%s:raw-arguments" % (label, checker)
        if None in got:
            bad = c.args[got.index(None)]
            derived = any(isinstance(x, ast.Name) and x.id in params for x in ast.walk(bad))
            if derived:
                ctx.violation("R1", key, "%s is applied to `%s`, a value derived from the caller's data, instead of the data itself: "
                              "input whose index differs outside what the derived value keeps is accepted" % (checker, ast.unparse(bad)),
                              ctx.loc(module, c), witness={"X": "index of y plus extra rows"})
            else:
                ctx.undecided("R1", key, "argument `%s` of %s not traceable to a parameter" % (ast.unparse(bad), checker), ctx.loc(module, c))
        else:
            ctx.check(set(got) == set(params), "R1", key, "%s receives the caller's %s" % (checker, ", ".join(params)),
                      "%s receives %s, expected all of %s" % (checker, got, list(params)), ctx.loc(module, c))


def _unwrap_only_series(ctx, repo, module, fn):
    """`_check_y` may replace its argument by ``.index`` only for a pandas Series: any other container (DataFrame =
    multivariate target, ndarray) must reach check_time_index as it is, whose exact-type test rejects it."""
    g = CFG(fn)
    pname = fn.args.args[0].arg
    n_sites = 0
    for node in g.nodes:
        for e in node.exprs:
            for sub in astq.walk_no_nested(e):
                if isinstance(sub, ast.Attribute) and sub.attr == "index" and isinstance(sub.value, ast.Name) and sub.value.id == pname:
                    n_sites += 1
                    classes = None
                    for t, br in g.guards_of(node):
                        if br is True and isinstance(t, ast.Call) and astq.call_name(t) == "isinstance" and len(t.args) == 2 \
                                and dotted(t.args[0]) == pname:
                            spec = t.args[1]
                            elts = spec.elts if isinstance(spec, (ast.Tuple, ast.List)) else [spec]
                            classes = []
                            for el in elts:
                                sym = repo.resolve_dotted(module, dotted(el)) if dotted(el) else None
                                classes.append(sym.dotted if sym is not None and sym.kind == "ext" else None)
                    key = "_check_y:index-only-of-series"
                    loc = ctx.loc(module, sub)
                    if classes is None:
                        ctx.violation("R1", key, "`%s.index` is taken without an isinstance(%s, pd.Series) guard: a DataFrame (multivariate "
                                      "target) is unwrapped to its index and accepted" % (pname, pname), loc, witness={"y": "pd.DataFrame"})
                    elif None in classes:
                        ctx.undecided("R1", key, "isinstance class list not resolvable", loc)
                    else:
                        extra = sorted(set(classes) - {"pandas.Series"})
                        ctx.check(not extra, "R1", key, "`.index` is taken only of a pandas Series",
                                  "`%s.index` is also taken of %s: a multivariate / non-series target is unwrapped to its index and "
                                  "accepted by every splitter instead of being rejected by check_time_index" % (pname, ", ".join(extra)),
                                  loc, witness={"y": extra[0] if extra else None})
    if n_sites == 0:
        ctx.ok("R1", "_check_y:index-only-of-series", "_check_y never unwraps its argument", ctx.loc(module, fn))


def _atomic_data_store(ctx, repo, flow):
    """R5: the methods that store the training data validate *everything* first: once `self._y` / `self._X` has been
    written nothing may reject any more (a rejected fit/update must leave no fitted state behind)."""
    sk = repo.cls(SKT + ":_SktimeForecaster")
    for mname in ("_set_y_X", "_update_y_X", "_update_X"):
        fn = sk.methods.get(mname)
        if fn is None:
            if mname == "_update_X":
                continue
            raise AnalysisError("anchor missing: _SktimeForecaster.%s" % mname)
        g = flow.cfg(fn)

        def _stores_data(f_, depth=2, seen=()):
            """``f_`` (or an own method it calls) writes self._y / self._X."""
            for x in astq.walk_no_nested(f_):
                if astq.is_self_attr(x) and isinstance(x.ctx, ast.Store) and x.attr in ("_y", "_X"):
                    return True
            if depth > 0:
                for c_ in astq.calls(f_):
                    if isinstance(c_.func, ast.Attribute) and dotted(c_.func.value) == "self" and c_.func.attr not in seen:
                        h_ = repo.lookup_method(sk, c_.func.attr)
                        if h_ and h_[1] is not f_ and _stores_data(h_[1], depth - 1, seen + (c_.func.attr,)):
                            return True
            return False
        stores = [n for n in g.nodes if (isinstance(n.stmt, (ast.Assign, ast.AugAssign)) and any(
            astq.is_self_attr(x) and isinstance(x.ctx, ast.Store) and x.attr in ("_y", "_X")
            for t in (n.stmt.targets if isinstance(n.stmt, ast.Assign) else [n.stmt.target]) for x in ast.walk(t)))
            or any(isinstance(c_.func, ast.Attribute) and dotted(c_.func.value) == "self" and c_.func.attr != mname
                   and (repo.lookup_method(sk, c_.func.attr) or (None, None))[1] is not None
                   and _stores_data(repo.lookup_method(sk, c_.func.attr)[1]) for c_ in n.calls())]

        def rejecting(m):
            if isinstance(m.stmt, ast.Raise):
                return True
            return any((astq.call_name(cl) or "").startswith("check_") for cl in m.calls())
        later = []
        for s_ in stores:
            # a validator evaluated in the storing statement itself runs before the store
            later += [m for m in g.may_reach_after(s_, rejecting) if m is not s_]
        key = "_SktimeForecaster.%s:validate-all-then-store" % mname
        ctx.check(bool(stores) and not later, "R5", key, "every validator runs before the first store of the training data",
                  "%s stores the training data and can still reject afterwards (line %s): a rejected call leaves a changed `_y`/`_X` "
                  "behind, so the next predict uses data of a call that raised" % (
                      mname, ", ".join(str(getattr(m.stmt, "lineno", "?")) for m in later[:3])) if stores else
                  "%s never stores _y/_X" % mname, ctx.loc(sk.module, (later[0].stmt if later else fn)),
                  witness={"history": "fit(y1); fit(y2, X_with_other_index) raises; predict() now uses y2"} if later else None)


def _raise_sites(repo, flow, cls, defcls, fn, depth=2, seen=None):
    """Number of reachable `raise` statements in ``fn`` and in the repo-local helpers it calls (own methods, module functions)."""
    seen = seen if seen is not None else set()
    if id(fn) in seen:
        return 0
    seen.add(id(fn))
    g = flow.cfg(fn)
    reach = g.reachable()
    n = sum(1 for node in g.nodes if node.id in reach and isinstance(node.stmt, ast.Raise))
    if depth > 0:
        for c in astq.calls(fn):
            if astq.call_name(c) in ("_check_names",):
                continue
            t = flow.resolve_call(c, defcls.module, cls, defcls)
            if t.kind in ("method", "func") and t.func is not None:
                n += _raise_sites(repo, flow, cls, t.defcls or defcls, t.func, depth - 1, seen)
    return n


def _is_not_none(test, name):
    """True if test is `name is not None`, False if `name is None`, else None."""
    if isinstance(test, ast.Compare) and len(test.ops) == 1 and dotted(test.left) == name \
            and isinstance(test.comparators[0], ast.Constant) and test.comparators[0].value is None:
        if isinstance(test.ops[0], ast.IsNot):
            return True
        if isinstance(test.ops[0], ast.Is):
            return False
    return None


def _membership_reject(fn, pname):
    """``fn`` returns its argument unchanged and raises exactly when the argument is outside a collection of admitted values
    (decided on the path conditions: works for `if x not in T: raise`, accept-first forms and always-raising helpers)."""
    from ..boolx import evaluate as _evl
    rets = astq.returns(fn)
    if not rets or not all(dotted(r.value) == pname for r in rets) or astq.assigned_in(fn, pname):
        return False
    return _rejects_non_members(fn, pname)


def _rejects_non_members(fn, pname=None):
    from ..boolx import evaluate as _evl
    pc = PathConditions(fn, Atomizer())
    if pc.raises == FALSE:
        return False
    ats = sorted(atoms_of_formula(pc.raises))
    subj = [a for a in ats if a.startswith(("in(", "eq(")) and (pname is None or a.startswith(("in(%s, " % pname, "eq(%s, " % pname)))]
    if not subj or len(ats) > 10:
        return False
    others = [a for a in ats if a not in subj]
    from itertools import product as _prod
    for vals in _prod((False, True), repeat=len(others)):
        env = dict(zip(others, vals))
        if not _evl(pc.raises, dict(env, **{a: False for a in subj})):
            return False  # a value outside every admitted set is accepted
    return True


def _only_forwarded(fn, pname, method):
    """Every load of parameter ``pname`` is an argument of an inner ``.<method>(...)`` call."""
    ok_nodes = set()
    for c in astq.calls(fn):
        if astq.call_name(c) == method and isinstance(c.func, ast.Attribute):
            for a in list(c.args) + [k.value for k in c.keywords]:
                if isinstance(a, ast.Name) and a.id == pname:
                    ok_nodes.add(id(a))
    loads = [n for n in astq.walk_no_nested(fn) if isinstance(n, ast.Name) and n.id == pname and isinstance(n.ctx, ast.Load)]
    return bool(loads) and all(id(n) in ok_nodes for n in loads)


def _raw_uses(fn, pname, validators, forward_to=None):
    """Loads of ``pname`` that are neither arguments of a validator call nor operands of a None test
    (nor forwarded to the same entry point of a fitted inner estimator)."""
    ok = set()
    for n in astq.walk_no_nested(fn):
        if forward_to and isinstance(n, ast.Call) and astq.call_name(n) == forward_to and isinstance(n.func, ast.Attribute):
            d = dotted(n.func.value)
            if d and d.startswith("self.") and d.endswith("_"):
                for a in list(n.args) + [k.value for k in n.keywords]:
                    if isinstance(a, ast.Name) and a.id == pname:
                        ok.add(id(a))
        if isinstance(n, ast.Call) and astq.call_name(n) in validators:
            for a in n.args:
                if isinstance(a, ast.Name) and a.id == pname:
                    ok.add(id(a))
        if isinstance(n, ast.Compare) and len(n.ops) == 1 and isinstance(n.ops[0], (ast.Is, ast.IsNot)):
            if isinstance(n.left, ast.Name) and n.left.id == pname:
                ok.add(id(n.left))
    if astq.assigned_in(fn, pname):
        # re-bound to the validated value: later uses are fine if every assignment is a validator call
        vals = astq.assigned_values(fn, pname)
        if vals and all(_validated_expr(v, pname, validators) for v in vals):
            return []
    return [n for n in astq.walk_no_nested(fn) if isinstance(n, ast.Name) and n.id == pname and isinstance(n.ctx, ast.Load) and id(n) not in ok]


def _validated_expr(v, pname, validators):
    if isinstance(v, ast.Call) and astq.call_name(v) in validators:
        return True
    if isinstance(v, ast.Call) and (astq.call_name(v) or "").endswith("Splitter"):
        return True  # a freshly constructed splitter
    if isinstance(v, ast.IfExp):
        return _validated_expr(v.body, pname, validators) and _validated_expr(v.orelse, pname, validators)
    return False


def _raw_attr_reads(fn, attr, validators):
    """ast nodes reading self.<attr> outside validator-call arguments and None tests."""
    ok = set()
    for n in astq.walk_no_nested(fn):
        if isinstance(n, ast.Call) and astq.call_name(n) in validators:
            for a in list(n.args) + [k.value for k in n.keywords]:
                if astq.is_self_attr(a, attr=attr):
                    ok.add(id(a))
        if isinstance(n, ast.Compare) and len(n.ops) == 1 and isinstance(n.ops[0], (ast.Is, ast.IsNot)) \
                and astq.is_self_attr(n.left, attr=attr):
            ok.add(id(n.left))
        if isinstance(n, ast.Call) and astq.call_name(n) == "hasattr":
            pass
    return [n for n in astq.walk_no_nested(fn) if astq.is_self_attr(n, attr=attr) and isinstance(n.ctx, ast.Load) and id(n) not in ok]


def unvalidated_attr_uses(repo, flow, cls, defcls, fn, attr, validators, depth=3):
    """Line numbers where self.<attr> is used raw (directly or inside a self-callee) on a path on which
    no validator has been applied to it.  None if the attribute is not used at all."""
    g = flow.cfg(fn)

    def validates(node):
        for c in node.calls():
            if astq.call_name(c) in validators and any(astq.is_self_attr(a, attr=attr) for a in list(c.args) + [k.value for k in c.keywords]):
                return True
        return False

    IN, OUT = g.forward_must(validates)
    used = False
    bad = []
    raw_nodes = {id(n): n for n in _raw_attr_reads(fn, attr, validators)}
    any_validator = any(validates(n) for n in g.nodes)
    for node in g.nodes:
        hits = []
        for e in node.exprs:
            for sub in astq.walk_no_nested(e):
                if id(sub) in raw_nodes:
                    hits.append(sub)
        # self-callees that read the attribute raw
        for c in node.calls():
            t = flow.resolve_call(c, defcls.module, cls, defcls)
            if t.kind == "method" and t.func is not None and depth > 0 and t.func is not fn:
                sub = unvalidated_attr_uses(repo, flow, cls, t.defcls, t.func, attr, validators, depth - 1)
                if sub:
                    hits.append(c)
                if sub is not None:
                    used = True
        if hits or validates(node):
            used = True
        if hits and not IN[node.id]:
            bad.extend(getattr(h, "lineno", 0) for h in hits)
    if not used and not any_validator:
        return None
    return sorted(set(bad))


# ================================================================================ R2
def rule_R2(ctx, repo):
    m = repo.module(VALID)
    # is_int excludes bool
    fn = repo.func(VALID, "is_int")
    rets = astq.returns(fn)
    f = PathConditions(fn, Atomizer({"x": "x"})).returned_truth()
    from itertools import product as _prod
    from ..boolx import evaluate as _evl
    ok = None
    detail = "is_int is %s" % (show(f) if f else "?")
    if f is not None:
        ats_ = sorted(atoms_of_formula(f))
        ints = [a for a in ats_ if a.startswith("isinstance(x, ") and "int" in a and "bool" not in a and "float" not in a]
        bools = [a for a in ats_ if a == "isinstance(x, bool)"]
        if ints and not bools and len(ats_) <= 8:
            ok, detail = False, "is_int does not exclude bool (bool is a subclass of int): %s" % show(f)
        if ints and len(bools) == 1 and len(ats_) <= 8:
            others = [a for a in ats_ if a not in ints + bools]
            ok = True
            for vals in _prod((False, True), repeat=len(others)):
                env = dict(zip(others, vals))
                none = {a: False for a in ints}
                if ok and _evl(f, dict(env, **dict(none, **{bools[0]: False}))):
                    ok, detail = False, "is_int accepts a value that is not of integer type (when %s)" % {k: v for k, v in env.items() if v}
                for one in ints:
                    some = dict(none, **{one: True})
                    if ok and _evl(f, dict(env, **dict(some, **{bools[0]: True}))):
                        ok, detail = False, "is_int accepts bool"
                    if ok and not _evl(f, dict(env, **dict(some, **{bools[0]: False}))):
                        ok, detail = False, "is_int rejects a proper integer of type %s (when %s)" % (one, env)
        if ok is None and f is not None and not ints:
            ok, detail = False, "is_int does not test for the integer types: %s" % show(f)
    ctx.check(ok, "R2", "is_int", "exactly the integer types are accepted, bool excluded", detail, ctx.loc(m, fn))

    for relpath, fname, pname in ((VALID, "check_window_length", "window_length"), (VFC, "check_step_length", "step_length")):
        mod = repo.module(relpath)
        fn = repo.func(relpath, fname)
        at = Atomizer({pname: "x"})
        pc = PathConditions(fn, at)
        spec = conj(neg(atom("isnone(x)")), disj(neg(atom("is_int(x)")), atom("lt(x, 1)")))
        ok, wit = equivalent(pc.raises, spec)
        rets = astq.returns(fn)
        delegates = pc.raises == FALSE and bool(rets) and all(isinstance(r.value, ast.Call) for r in rets)
        if delegates:
            # the whole validation is handed to another helper: the witness-table oracle (R2 oracle:<fn>) evaluates the composition
            ctx.info("R2 %s: validation delegated to `%s`; decided by the witness table" % (fname, ast.unparse(rets[0].value)[:60]))
            continue
        ctx.check(ok, "R2", fname + ":predicate", "rejects iff x is not None and (not is_int(x) or x < 1)",
                  "%s rejects iff %s (expected %s; differing assignment %s)" % (fname, show(pc.raises), show(spec), wit), ctx.loc(mod, fn))
        ok = bool(rets) and all(dotted(r.value) == pname for r in rets) and not astq.assigned_in(fn, pname)
        ctx.check(ok, "R2", fname + ":identity", "returns its argument unchanged", "%s does not return its argument unchanged" % fname, ctx.loc(mod, fn))
    # check_sp with enforce_list=False
    mod = repo.module(VFC)
    fn = repo.func(VFC, "check_sp")
    at = Atomizer({"sp": "x"}, const_names={"enforce_list": FALSE})
    pc = PathConditions(fn, at)
    spec = conj(neg(atom("isnone(x)")), neg(conj(atom("is_int(x)"), neg(atom("lt(x, 1)")))))
    ok, wit = equivalent(pc.raises, spec)
    ctx.check(ok, "R2", "check_sp:predicate", "with enforce_list=False rejects iff sp is not None and not (is_int(sp) and sp >= 1)",
              "check_sp rejects iff %s (witness %s)" % (show(pc.raises), wit), ctx.loc(mod, fn))
    # check_cutoffs
    fn = repo.func(VFC, "check_cutoffs")
    pc = PathConditions(fn, Atomizer({"cutoffs": "x"}))
    spec_parts = {"type": neg(disj(atom("isinstance(x, np.ndarray)"), atom("isinstance(x, pd.Index)"))), "empty": atom("eq(len(x), 0)")}
    types_ok, _ = equivalent(conj(pc.raises, spec_parts["type"]), spec_parts["type"])
    need = disj(spec_parts["type"], spec_parts["empty"])
    imp, wit = equivalent(disj(neg(need), pc.raises), TRUE)
    ctx.check(imp, "R2", "check_cutoffs:predicate", "rejects wrong container types and empty cutoffs",
              "check_cutoffs rejection condition %s does not cover type/emptiness (witness %s)" % (show(pc.raises), wit), ctx.loc(mod, fn))
    rets = astq.returns(fn)
    ok = bool(rets) and all(isinstance(r.value, ast.Call) and (repo.resolve_expr(mod, r.value.func) is not None)
                            and repo.resolve_expr(mod, r.value.func).dotted == "numpy.sort" and dotted(r.value.args[0]) == "cutoffs" for r in rets)
    ctx.check(ok, "R2", "check_cutoffs:sorted", "returns the sorted cutoffs", "check_cutoffs does not return np.sort(cutoffs)", ctx.loc(mod, fn))
    # check_fh
    fn = repo.func(VFC, "check_fh")
    pc = PathConditions(fn, Atomizer())
    ats = atoms_of_formula(pc.raises)
    e_atoms = [a for a in ats if a.startswith("eq(len(fh") and a.endswith(", 0)")]
    r_atoms = [a for a in ats if a.endswith(".is_relative") and a.startswith("fh")]
    if len(e_atoms) == 1 and len(r_atoms) == 1 and "enforce_relative" in ats:
        spec = disj(atom(e_atoms[0]), conj(atom("enforce_relative"), neg(atom(r_atoms[0]))))
        ok, wit = equivalent(pc.raises, spec)
    else:
        ok, wit = False, sorted(ats)
    ctx.check(ok, "R2", "check_fh:predicate", "rejects exactly: empty horizon (whatever its type), absolute horizon under enforce_relative",
              "check_fh rejection condition is %s (differs from `len(fh)==0 or (enforce_relative and not fh.is_relative)` at %s)" % (show(pc.raises), wit),
              ctx.loc(mod, fn))
    wraps = [c for c in astq.calls(fn) if astq.call_name(c) == "ForecastingHorizon"]
    ok = bool(wraps) and all(any(k.arg == "is_relative" and astq.const_value(k.value) is True for k in c.keywords) for c in wraps)
    ctx.check(ok, "R2", "check_fh:wrap", "non-horizon input is wrapped as a relative horizon", "check_fh does not wrap with is_relative=True", ctx.loc(mod, fn))
    # enforce_relative rejection: enforce_relative and not fh.is_relative
    at = Atomizer(const_names={"enforce_relative": TRUE})
    pc2 = PathConditions(fn, at)
    at0 = Atomizer(const_names={"enforce_relative": FALSE})
    pc0 = PathConditions(fn, at0)
    rel_atoms = [a for a in atoms_of_formula(pc2.raises) if "is_relative" in a]
    ok = bool(rel_atoms) and not any("is_relative" in a for a in atoms_of_formula(pc0.raises))
    if ok:
        # with enforce_relative, an absolute horizon (is_relative False) must be rejected
        env_true = {a: False for a in atoms_of_formula(pc2.raises)}
        from ..boolx import evaluate
        ok = evaluate(pc2.raises, env_true) is True
    ctx.check(ok, "R2", "check_fh:enforce_relative", "absolute horizon rejected iff enforce_relative",
              "enforce_relative handling: %s" % show(pc2.raises), ctx.loc(mod, fn))
    # check_y_X: X validated and indices compared iff X given
    fn = repo.func(VFC, "check_y_X")
    g = CFG(fn)
    ok = False
    for n in g.nodes:
        if any(astq.call_name(c) == "check_equal_time_index" for c in n.calls()):
            conds = g.guards_of(n)
            ok = any(_is_not_none(t, "X") == br for t, br in conds if _is_not_none(t, "X") is not None)
            c = [c for c in n.calls() if astq.call_name(c) == "check_equal_time_index"][0]
            ok = ok and {dotted(a) for a in c.args} == {"y", "X"}
    pcx = PathConditions(fn, Atomizer(), mark=lambda st: any(astq.call_name(c_) == "check_equal_time_index" for c_ in astq.calls(st))
                         and not isinstance(st, (ast.If, ast.For, ast.While)))
    condx = FALSE
    for st_, c_ in pcx.marked:
        condx = disj(condx, c_)
    x_atoms = [a for a in atoms_of_formula(condx) if a.startswith("isnone(X")]
    exact = False
    if len(x_atoms) == 1:
        r_, _w = equivalent(condx, neg(atom(x_atoms[0])))
        exact = bool(r_)
    ok = ok and exact
    ctx.check(ok, "R2", "check_y_X:equal-index", "check_equal_time_index(y, X) exactly when X is given",
              "check_y_X does not compare the indices of y and X when X is given", ctx.loc(mod, fn))
    cy = [c for c in astq.calls(fn) if astq.call_name(c) == "check_y"]
    ctx.check(bool(cy), "R2", "check_y_X:check_y", "y validated", "check_y_X does not call check_y", ctx.loc(mod, fn))
    # check_y: enforce_univariate=True, allow_numpy=False
    fn = repo.func(VFC, "check_y")
    cs = [c for c in astq.calls(fn) if astq.call_name(c) == "check_series"]
    kw = {k.arg: astq.const_value(k.value, "?") for c in cs for k in c.keywords}
    ok = bool(cs) and kw.get("enforce_univariate") is True and kw.get("allow_numpy") is False and \
        any(k.arg == "allow_empty" and dotted(k.value) == "allow_empty" for c in cs for k in c.keywords)
    ctx.check(ok, "R2", "check_y:options", "univariate enforced, arrays rejected, allow_empty forwarded",
              "check_y calls check_series with %s" % kw, ctx.loc(mod, fn))
    fn = repo.func(VFC, "check_X")
    cs = [c for c in astq.calls(fn) if astq.call_name(c) == "check_series"]
    kw = {k.arg: astq.const_value(k.value, "?") for c in cs for k in c.keywords}
    uni_ok = all((k.arg != "enforce_univariate") or astq.const_value(k.value, "?") is False or dotted(k.value) == "enforce_univariate"
                 for c in cs for k in c.keywords)  # a forwarded flag is pinned by the defaults table (check_X:default:enforce_univariate)
    ctx.check(bool(cs) and kw.get("allow_numpy") is False and uni_ok and
              any(k.arg == "allow_empty" and dotted(k.value) == "allow_empty" for c in cs for k in c.keywords),
              "R2", "check_X:options", "arrays rejected, multivariate exogenous data accepted, allow_empty forwarded",
              "check_X calls check_series with %s (needs allow_numpy=False, no univariate enforcement, allow_empty forwarded)" % kw, ctx.loc(mod, fn))
    # series.py
    smod = repo.module(VSER)
    fn = repo.func(VSER, "check_time_index")
    pc = PathConditions(fn, Atomizer())
    ats = atoms_of_formula(pc.raises)

    def pick(pred_):
        hits = [a for a in ats if pred_(a)]
        return atom(hits[0]) if len(hits) == 1 else None

    T = pick(lambda a: a.startswith("in(type(index") and "VALID_INDEX_TYPES" in a)
    M = pick(lambda a: a.endswith(".is_monotonic") or ".is_monotonic_increasing" in a)
    E = pick(lambda a: a.startswith("eq(len(index") and a.endswith(", 0)"))
    AE = pick(lambda a: a == "allow_empty")
    EI = pick(lambda a: a == "enforce_index_type")
    IS = pick(lambda a: a.startswith("is(") and "enforce_index_type" in a and "type(index" in a)
    if None in (T, M, E, AE):
        ok, wit = False, {"found": sorted(ats)}
    else:
        spec = disj(neg(T), neg(M), conj(neg(AE), E))
        if EI is not None and IS is not None:
            spec = disj(spec, conj(EI, neg(IS)))
        ok, wit = equivalent(pc.raises, spec)
    ctx.check(ok, "R2", "check_time_index:predicate", "rejects exactly: unsupported index type (type equality), enforced type mismatch, "
              "non-monotonic index, empty index unless allow_empty",
              "check_time_index rejection condition: %s (differing assignment / atoms: %s)" % (show(pc.raises), wit), ctx.loc(smod, fn))
    fn = repo.func(VSER, "check_equal_time_index")
    from ..boolx import atoms_of as _ao4, evaluate as _ev4
    from itertools import product as _pr4
    pce = PathConditions(fn, Atomizer())
    ats4 = sorted(_ao4(pce.raises))
    eq4 = [a_ for a_ in ats4 if ".equals(" in a_]
    ok = False
    if len(eq4) == 1 and len(ats4) <= 8 and any(isinstance(n, (ast.For, ast.While)) for n in ast.walk(fn)):
        oth4 = [a_ for a_ in ats4 if a_ not in eq4]
        # never raises while the indices are equal; raises for some loop state when they differ
        ok = all(not _ev4(pce.raises, dict(zip(oth4, v_), **{eq4[0]: True})) for v_ in _pr4((False, True), repeat=len(oth4))) and \
            any(_ev4(pce.raises, dict(zip(oth4, v_), **{eq4[0]: False})) for v_ in _pr4((False, True), repeat=len(oth4)))
    ctx.check(ok, "R2", "check_equal_time_index:rejects-unequal", "every further series' index must .equals() the first",
              "check_equal_time_index does not reject unequal indices for every series", ctx.loc(smod, fn))
    fn = repo.func(VSER, "_check_is_univariate")
    pc = PathConditions(fn, Atomizer({"y": "x"}))
    need = disj(atom("isinstance(x, pd.DataFrame)"), conj(atom("isinstance(x, np.ndarray)"), neg(atom("lt(x.ndim, 2)"))))
    ok, wit = equivalent(pc.raises, need)
    ctx.check(ok, "R2", "_check_is_univariate:predicate", "rejects DataFrames and arrays with more than one dimension",
              "_check_is_univariate rejects iff %s (witness %s)" % (show(pc.raises), wit), ctx.loc(smod, fn))
    fn = repo.func(VSER, "check_series")
    g = CFG(fn)
    uni = [n for n in g.nodes if any(astq.call_name(c) == "_check_is_univariate" for c in n.calls())]
    ok = bool(uni) and all(any(dotted(t) == "enforce_univariate" and br for t, br in g.guards_of(n)) for n in uni)
    cti = [n for n in g.nodes if any(astq.call_name(c) == "check_time_index" for c in n.calls())]
    ok2 = bool(cti)
    ty = any(isinstance(n, ast.If) and block_always_raises(n.body) and "isinstance(Z" in astq.canon(n.test) for n in ast.walk(fn))
    ctx.check(ok and ok2 and ty, "R2", "check_series:structure", "type test, univariate test under enforce_univariate, index test for non-arrays",
              "check_series lacks type test (%s) / univariate test (%s) / index test (%s)" % (ty, ok, ok2), ctx.loc(smod, fn))
    kwf = [k for n in cti for c in n.calls() if astq.call_name(c) == "check_time_index" for k in c.keywords]
    ok = any(k.arg == "allow_empty" and dotted(k.value) == "allow_empty" for k in kwf)
    ctx.check(ok, "R2", "check_series:allow_empty", "allow_empty forwarded to the index check", "allow_empty is not forwarded to check_time_index", ctx.loc(smod, fn))
    # _fh._check_values: duplicates rejected, sorted return, type error default
    fmod = repo.module(FH)
    fn = repo.func(FH, "_check_values")
    g = CFG(fn)
    from ..boolx import evaluate as _ev
    pcv = PathConditions(fn, Atomizer())
    ats = sorted(atoms_of_formula(pcv.raises))
    dup_atoms = [a for a in ats if a.startswith("eq(") and "len(values" in a and "nunique()" in a]
    type_atoms = [a for a in ats if a.startswith("in(type(values") or a.startswith("isinstance(values")]
    ok_dup = ok_type = False
    dup_results = []
    if len(dup_atoms) == 1 and type_atoms:
        # a supported container holding duplicates must be rejected; without duplicates it must be accepted
        for valid in type_atoms:
            env = {a: False for a in ats}
            env[valid] = True
            if valid.startswith("isinstance(values") and ("int" in valid and "list" not in valid):
                continue  # a single integer is wrapped directly (no duplicates possible)
            env[dup_atoms[0]] = False
            r1 = _ev(pcv.raises, env)
            env[dup_atoms[0]] = True
            r2 = _ev(pcv.raises, env)
            dup_results.append(r1 is True and r2 is False)
        ok_dup = bool(dup_results) and all(dup_results)
        # no supported type: TypeError
        env = {a: False for a in ats}
        env[dup_atoms[0]] = True
        te = FALSE
        for st_, cond_ in pcv.raise_sites:
            nm = dotted(st_.exc.func) if isinstance(st_.exc, ast.Call) else dotted(st_.exc)
            if nm == "TypeError":
                te = disj(te, cond_)
        ok_type = _ev(te, env) is True
    rets = astq.returns(fn)

    def _ret_value(r):
        v = r.value
        if isinstance(v, ast.Name):
            vals = astq.assigned_values(fn, v.id)
            v = vals[-1] if vals else v
        return v
    sorted_rets = [r for r in rets if isinstance(_ret_value(r), ast.Call) and astq.call_name(_ret_value(r)) == "sort_values"]
    other = [r for r in rets if r not in sorted_rets]
    single = all(isinstance(_ret_value(r), ast.Call) and len(_ret_value(r).args) >= 1 and isinstance(_ret_value(r).args[0], ast.List)
                 and len(_ret_value(r).args[0].elts) == 1 for r in other)
    ctx.check(ok_dup and bool(sorted_rets) and single, "R2", "_check_values:dups-sorted",
              "a supported container is rejected iff it holds duplicates; every multi-value path returns sort_values()",
              "_check_values: duplicates rejected exactly: %s, sorted returns %d, other returns are single-value wraps: %s (rejection condition %s)"
              % (ok_dup, len(sorted_rets), single, show(pcv.raises)), ctx.loc(fmod, fn))
    ctx.check(ok_type, "R2", "_check_values:type-default", "unsupported value types raise TypeError",
              "a value of no supported type is not rejected with TypeError by _check_values", ctx.loc(fmod, fn))


    from . import _c20_specs
    _c20_specs.run_all(ctx, repo)


def atoms_of_formula(f):
    from ..boolx import atoms_of
    return atoms_of(f)


def atoms_subset(f, names):
    return atoms_of_formula(f) <= set(names)


def _is_int_shape(e):
    if not (isinstance(e, ast.BoolOp) and isinstance(e.op, ast.And) and len(e.values) == 2):
        return False
    a, b = e.values
    pos = isinstance(a, ast.Call) and astq.call_name(a) == "isinstance"
    negb = isinstance(b, ast.UnaryOp) and isinstance(b.op, ast.Not) and isinstance(b.operand, ast.Call) and \
        astq.call_name(b.operand) == "isinstance" and dotted(b.operand.args[1]) == "bool"
    return pos and negb


def _final_else_raises(fn):
    for n in fn.body:
        if isinstance(n, ast.If):
            cur = n
            while len(cur.orelse) == 1 and isinstance(cur.orelse[0], ast.If):
                cur = cur.orelse[0]
            if cur.orelse and block_always_raises(cur.orelse):
                for st in cur.orelse:
                    if isinstance(st, ast.Raise) and st.exc is not None:
                        nm = dotted(st.exc.func) if isinstance(st.exc, ast.Call) else dotted(st.exc)
                        return nm == "TypeError"
    return False


# ================================================================================ R3
R3_FILES = (NAIVE, "sktime/forecasting/compose/_ensemble.py", REDUCE, EVAL, SPLIT, "sktime/forecasting/compose/_stack.py",
            "sktime/forecasting/compose/_multiplexer.py", "sktime/forecasting/compose/_pipeline.py", SKT, "sktime/forecasting/base/_meta.py")


def string_chains(fn):
    """if/elif chains comparing one subject against string literals (>= 2 literal arms)."""
    out = []
    seen = set()
    for n in astq.walk_no_nested(fn):
        if not isinstance(n, ast.If) or id(n) in seen:
            continue
        subj = None
        lits = []
        cur = n
        nodes = []
        while True:
            s, ls = _str_cmp(cur.test)
            if s is None or (subj is not None and s != subj):
                break
            subj = s
            lits.extend(ls)
            nodes.append(cur)
            seen.add(id(cur))
            if len(cur.orelse) == 1 and isinstance(cur.orelse[0], ast.If):
                cur = cur.orelse[0]
            else:
                break
        if subj is not None and len(nodes) >= 2:
            last = nodes[-1]
            tail_is_chain = len(last.orelse) == 1 and isinstance(last.orelse[0], ast.If)
            out.append((subj, lits, nodes, last.orelse if not tail_is_chain else last.orelse))
    return out


def _str_cmp(test):
    if isinstance(test, ast.Compare) and len(test.ops) == 1:
        l, r = test.left, test.comparators[0]
        if isinstance(test.ops[0], (ast.Eq, ast.NotEq)):
            if isinstance(r, ast.Constant) and isinstance(r.value, str) and dotted(l):
                return dotted(l), [r.value]
            if isinstance(l, ast.Constant) and isinstance(l.value, str) and dotted(r):
                return dotted(r), [l.value]
        if isinstance(test.ops[0], (ast.In, ast.NotIn)) and dotted(l):
            ls = astq.str_consts(r)
            if ls:
                return dotted(l), ls
    return None, []


def rule_R3(ctx, repo, flow):
    n = 0
    for rel in R3_FILES:
        mod = repo.module(rel)
        funcs = []
        for name, node in mod.defs.items():
            if isinstance(node, ast.FunctionDef):
                funcs.append((None, node))
            elif isinstance(node, ast.ClassDef):
                for st in node.body:
                    if isinstance(st, ast.FunctionDef):
                        funcs.append((repo.classes.get(mod.name + ":" + node.name), st))
        for cls, fn in funcs:
            for subj, lits, nodes, tail in string_chains(fn):
                n += 1
                key = "%s:%s%s:%s" % (mod.name, (cls.name + ".") if cls else "", fn.name, subj)
                rejecting = bool(tail) and block_always_raises(tail)
                dominated = False
                if not rejecting:
                    dominated = _dominated_by_membership(repo, flow, mod, cls, fn, nodes[0], subj, lits)
                ctx.check(rejecting or dominated, "R3", key,
                          "string dispatch over %s ends in a raise or is dominated by a rejecting membership check" % subj,
                          "string dispatch over %s (values %s) has no rejecting default: unknown values fall through silently" % (subj, lits),
                          ctx.loc(mod, nodes[0]))
    ctx.count("string_dispatch_chains", n)
    # single-literal dispatch in evaluate(): every literal compared with `strategy` is a member of the validator's tuple
    ev = repo.func(EVAL, "evaluate")
    emod = repo.module(EVAL)
    cs = repo.func(EVAL, "_check_strategy")
    allowed = None
    for node in ast.walk(cs):
        if isinstance(node, ast.Compare) and len(node.ops) == 1 and isinstance(node.ops[0], (ast.NotIn, ast.In)):
            tup = node.comparators[0]
            if isinstance(tup, ast.Name):
                vals = astq.assigned_values(cs, tup.id)
                tup = vals[0] if len(vals) == 1 else tup
            lits_ = astq.str_consts(tup)
            if lits_ is None:
                continue
            subj_ = astq.inline_locals(cs, node.left)
            if not (isinstance(subj_, ast.Name) and subj_.id == "strategy"):
                ctx.violation("R3", "evaluate:strategy", "_check_strategy tests a normalised value (%s) for membership while evaluate dispatches on the raw "
                              "`strategy`: names the validator admits can reach the dispatch unrecognised and are silently treated as the default branch"
                              % ast.unparse(subj_), ctx.loc(emod, cs))
                return
            allowed = lits_
    if allowed is not None and not _rejects_non_members(cs, "strategy"):
        ctx.violation("R3", "evaluate:strategy", "_check_strategy does not raise for every value outside %s" % (allowed,), ctx.loc(emod, cs))
        return
    used = []
    scan = [ev]
    for c in astq.calls(ev):
        t = flow.resolve_call(c, emod)
        if t.kind == "func" and t.func is not None and t.func is not cs and t.module is emod:
            scan.append(t.func)
    for f_ in scan:
        for node in ast.walk(f_):
            s_, ls = _str_cmp(node) if isinstance(node, ast.Compare) else (None, [])
            if s_ == "strategy":
                used.extend(ls)
    if allowed is not None and not used:
        ctx.ok("R3", "evaluate:strategy", "no literal dispatch on strategy found in evaluate or its helpers; validator admits %s" % allowed, ctx.loc(emod, ev))
        return
    ctx.check(allowed is not None and bool(used) and set(used) <= set(allowed), "R3", "evaluate:strategy",
              "evaluate dispatches on %s, validator admits exactly %s and rejects the rest" % (used, allowed),
              "evaluate compares strategy with %s but _check_strategy admits %s" % (used, allowed), ctx.loc(emod, ev))


def _dominated_by_membership(repo, flow, mod, cls, fn, ifnode, subj, lits):
    """A rejecting membership test on the same subject dominates the chain (in this function, through a validator it calls,
    or - for self.<option> - in the class's fit which every caller has passed through)."""
    g = flow.cfg(fn)
    target = g.node_of(ifnode.test)
    if target is None:
        return False

    def rejects_here(node):
        st = node.stmt
        if node.kind == "test" and isinstance(st, ast.If) and block_always_raises(st.body):
            t = st.test
            if isinstance(t, ast.Compare) and len(t.ops) == 1 and isinstance(t.ops[0], ast.NotIn) and dotted(t.left) == subj:
                ls = astq.str_consts(t.comparators[0])
                if ls is None and isinstance(t.comparators[0], ast.Name):
                    vals = astq.assigned_values(fn, t.comparators[0].id)
                    ls = astq.str_consts(vals[0]) if len(vals) == 1 else None
                return ls is not None and set(lits) >= set(ls) - {"infer"} or (ls is not None and set(ls) >= set(lits))
        for c in node.calls():
            nm = astq.call_name(c) or ""
            if nm.startswith("_check_") or nm.startswith("check_"):
                args = [dotted(a) for a in c.args] + [dotted(k.value) for k in c.keywords]
                if subj in args:
                    t = flow.resolve_call(c, mod, cls, cls)
                    if t.func is not None and _func_rejects_unknown(t.func):
                        return True
        return False

    IN, OUT = g.forward_must(rejects_here)
    if IN[target.id]:
        return True
    # subject assigned from a validator result: strategy = _check_strategy(strategy)
    vals = astq.assigned_values(fn, subj) if "." not in subj else []
    for v in vals:
        if isinstance(v, ast.Call):
            t = flow.resolve_call(v, mod, cls, cls)
            if t.func is not None and _func_rejects_unknown(t.func):
                return True
    # self.<option>: validated in fit of the same class (apply-type methods are guarded by check_is_fitted -> fit ran)
    if subj.startswith("self.") and cls is not None and fn.name not in ("fit", "__init__"):
        hit = repo.lookup_method(cls, "fit")
        if hit:
            fitfn = hit[1]
            for subj2, lits2, nodes2, tail2 in string_chains(fitfn):
                if subj2 == subj and tail2 and block_always_raises(tail2) and set(lits2) >= set(lits):
                    return True
            tab = _table_dispatch(fitfn, subj)
            if tab is not None and set(tab) >= set(lits):
                return True
            gg = flow.cfg(fitfn)
            for node in gg.nodes:
                st = node.stmt
                if node.kind == "test" and isinstance(st, ast.If) and block_always_raises(st.body):
                    t = st.test
                    if isinstance(t, ast.Compare) and len(t.ops) == 1 and isinstance(t.ops[0], ast.NotIn) and dotted(t.left) == subj:
                        return True
    return False


def _table_dispatch(fn, subj):
    """Literal names of a `for name, handler in <literal table>: if subj == name: ...; break` dispatch whose `else` always raises."""
    for n in astq.walk_no_nested(fn):
        if not (isinstance(n, ast.For) and n.orelse and block_always_raises(n.orelse)):
            continue
        it = n.iter
        if isinstance(it, ast.Name):
            vals = astq.assigned_values(fn, it.id)
            it = vals[0] if len(vals) == 1 else it
        if not isinstance(it, (ast.Tuple, ast.List)):
            continue
        names = []
        for e in it.elts:
            first = e.elts[0] if isinstance(e, (ast.Tuple, ast.List)) and e.elts else e
            if isinstance(first, ast.Constant) and isinstance(first.value, str):
                names.append(first.value)
            else:
                names = None
                break
        if not names:
            continue
        var = n.target.elts[0] if isinstance(n.target, (ast.Tuple, ast.List)) and n.target.elts else n.target
        if not isinstance(var, ast.Name):
            continue
        for c in ast.walk(n):
            if isinstance(c, ast.Compare) and len(c.ops) == 1 and isinstance(c.ops[0], ast.Eq):
                sides = {dotted(c.left), dotted(c.comparators[0])}
                if subj in sides and var.id in sides:
                    return names
    return None


def _func_rejects_unknown(fn):
    return _rejects_non_members(fn)


# ================================================================================ R4
def rule_R4(ctx, repo):
    """Every splitter that materialises a window of a requested length rejects a window that does not fit
    (lower bound of the training window >= 0 entailed by the guards, without the >= 0 filter of split())."""
    from . import c01
    from ..absint import Arr, K, Rng, Lin, Vec
    N, W, STEP, IW, FHV_ = c01.N, c01.W, c01.STEP, c01.IW, c01.FH
    cases = []
    for cname, ctor, tag in (
        ("SlidingWindowSplitter", {"fh": FHV_, "step_length": STEP, "start_with_window": K(True), "window_length": W, "initial_window": K(None)}, "sliding"),
        ("SlidingWindowSplitter", {"fh": FHV_, "step_length": STEP, "start_with_window": K(True), "window_length": W, "initial_window": IW}, "sliding+initial"),
        ("ExpandingWindowSplitter", {"fh": FHV_, "step_length": STEP, "start_with_window": K(True), "initial_window": W}, "expanding"),
        ("CutoffSplitter", {"cutoffs": Vec("cutoffs", 0, False), "fh": FHV_, "window_length": W}, "cutoff"),
        ("SingleWindowSplitter", {"fh": FHV_, "window_length": W}, "single"),
    ):
        cls = repo.cls(SPLIT + ":" + cname)
        it = c01.make_interp(repo)
        selfv = c01.construct(repo, it, cls, ctor)
        traces, fst, k = c01.run_method(repo, it, selfv, "_split", {"y": Arr("y", N, "index")}, c01.base_facts())
        for i, rec in enumerate(fst.yields):
            train, test = c01.split_parts(rec.value)
            key = "%s[%s]:yield%d:window-fits" % (cname, tag, i)
            loc = "%s:%s" % (cls.module.relpath, rec.node.lineno)
            if not isinstance(train, Rng):
                ctx.undecided("R4", key, "training window not interpretable: %r" % (train,), loc)
                continue
            if isinstance(test, Vec):
                c01.prove_le(ctx, "R4", "%s[%s]:yield%d:horizon-fits" % (cname, tag, i), rec.facts, test.elem("last"), N - 1,
                             "a window/horizon that does not fit the series is rejected (last test position inside the series)", loc)
            pr = rec.facts.entails(Lin.c(0) - train.lo)
            if pr is not None:
                ctx.ok("R4", key, "guards entail window start %r >= 0" % train.lo, loc)
            else:
                ctx.violation("R4", key, "no guard rejects a window longer than the available history: window start %r can be negative "
                              "(the series is silently truncated by the >= 0 filter)" % train.lo, loc)
    # an in-sample horizon does not excuse a cutoff beyond the series: the training window must still lie inside y
    try:
        from ..absint import Interp as _I, FHV as _FHV
        from ..lin import Facts as _Facts
        cls_c = repo.cls(SPLIT + ":CutoffSplitter")
        it_c = _I(repo, scenario={"fh.is_all_out_of_sample": False, "fh.is_all_in_sample": True}, hooks=c01.hooks,
                  no_inline=("_check_y", "check_fh", "check_time_index", "_repr"))
        it_c.index_loops = True
        f_in = _Facts()
        f_in.add_cmp(c01.FHL, "<=", 0, "horizon is in-sample (quantifier of this scenario)")
        f_in.add_cmp(c01.FH0, "<=", c01.FHL, "horizon is sorted")
        f_in.add_cmp(N, ">=", 1, "series is non-empty")
        self_c = c01.construct(repo, it_c, cls_c, {"cutoffs": Vec("cutoffs", 0, False), "fh": FHV_, "window_length": W})
        _tr, fst_c, _k = c01.run_method(repo, it_c, self_c, "_split", {"y": Arr("y", N, "index")}, f_in)
        for i, rec in enumerate(fst_c.yields):
            train, test = c01.split_parts(rec.value)
            key = "CutoffSplitter[in-sample fh]:yield%d:cutoff-inside-series" % i
            loc = "%s:%s" % (cls_c.module.relpath, rec.node.lineno)
            if not isinstance(train, Rng):
                ctx.info("R4 %s: training window not interpretable (%r)" % (key, train))
                continue
            c01.prove_le(ctx, "R4", key, rec.facts, train.hi - 1, N - 1,
                         "a cutoff at or beyond the end of the series is rejected also for in-sample horizons", loc)
    except AnalysisError as e:
        ctx.info("R4 CutoffSplitter[in-sample fh]: scenario not interpretable (%s)" % e)
    # exactness of the splitters' feasibility guards (no feasible window rejected, no infeasible one accepted) is C01-R3:
    # run those obligations and report them here (valid settings that differ only in the offending aspect are accepted)
    from ..report import Ctx as _Ctx, VIOLATION as _V, UNDECIDED as _U
    sc = _Ctx("C01", repo)
    try:
        del c01.INTERPS[:]
        for cname in ("SlidingWindowSplitter", "ExpandingWindowSplitter"):
            c01.check_window_class(sc, repo, cname)
        c01.check_cutoff_splitter(sc, repo)
        c01.check_single(sc, repo)
        borrowed = [r for r in sc.results if r["rule"] == "R3"]
    except AnalysisError as e:
        borrowed = None
        ctx.undecided("R4", "splitters:feasibility-exact", "C01's window analysis could not run: %s" % e, SPLIT + ":1")
    for r in borrowed or ():
        key = "splitters:feasibility-exact:" + r["construct"]
        if r["verdict"] == _V:
            ctx.violation("R4", key, "(C01-R3) " + str(r["detail"]), r["loc"], r.get("witness"))
        elif r["verdict"] == _U:
            ctx.undecided("R4", key, "(C01-R3) " + str(r["detail"]), r["loc"])
        else:
            ctx.ok("R4", key, "(C01-R3) " + str(r["detail"]), r["loc"], nontrivial=False)
    # forecaster-side guards
    nf = repo.cls(NAIVE + ":NaiveForecaster")
    fit = nf.methods["fit"]
    ok = False
    for n in ast.walk(fit):
        if isinstance(n, ast.If) and block_always_raises(n.body):
            at = Atomizer()
            f = at.formula(n.test)
            ats = atoms_of_formula(f)
            if any(a.startswith("lt(len(") and "self.window_length_" in a for a in ats):
                # window_length_ > len(y)  ==  lt(len(y), window_length_)
                ok = f == atom(sorted(ats)[0])
    g = CFG(fit)
    ctx.check(ok, "R4", "NaiveForecaster.fit:window-fits", "rejects iff window_length_ > len(training series)",
              "NaiveForecaster.fit has no guard `window_length_ > len(y)`", ctx.loc(nf.module, fit))
    if ok:
        flag = [n for n in g.nodes if isinstance(n.stmt, ast.Assign) and any(astq.is_self_attr(t, attr="_is_fitted") for t in n.stmt.targets)]
        guard = [n for n in g.nodes if n.kind == "test" and isinstance(n.stmt, ast.If) and block_always_raises(n.stmt.body)
                 and "window_length_" in astq.canon(n.stmt.test) and "len(" in astq.canon(n.stmt.test)]
        IN, OUT = g.forward_must(lambda n: n in guard)
        ctx.check(bool(flag) and all(IN[n.id] for n in flag), "R4", "NaiveForecaster.fit:guard-before-fitted",
                  "the guard is passed on every path before the estimator becomes fitted", "the window guard can be bypassed", ctx.loc(nf.module, fit))
    swt = repo.func(REDUCE, "_sliding_window_transform")
    mred = repo.module(REDUCE)
    ok = False
    for n in ast.walk(swt):
        if isinstance(n, ast.If) and block_always_raises(n.body):
            at = Atomizer()
            f = at.formula(n.test)
            e = astq.inline_locals(swt, n.test)
            src = astq.canon(e)
            if "window_length" in src and "fh" in src and isinstance(n.test, ast.Compare):
                op = n.test.ops[0]
                ok = isinstance(op, ast.GtE) or (isinstance(op, ast.Gt))
                strict_ok = isinstance(op, ast.GtE)
    ctx.check(ok, "R4", "_sliding_window_transform:window-fits", "rejects when window_length + max(fh) does not leave a single full row",
              "_sliding_window_transform has no feasibility guard relating window_length, fh and len(y)", ctx.loc(mred, swt))


# ================================================================================ R5
def rule_R5(ctx, repo, flow):
    BF = repo.cls("sktime/forecasting/base/_base.py:BaseForecaster")
    seen = set()
    vnames = ("_set_y_X", "check_y_X", "check_y", "_set_fh", "check_fh", "_check_forecasters", "_check_steps", "_check_final_regressor",
              "_check_selected_forecaster", "check_sp", "check_window_length", "check_cv", "check_scoring")
    for c in repo.subclasses(BF):
        hit = repo.lookup_method(c, "fit")
        if hit is None or is_abstract(hit[1]):
            continue
        k, fn = hit
        if k.qual in seen:
            continue
        seen.add(k.qual)
        g = flow.cfg(fn)
        stores = [n for n in g.nodes if isinstance(n.stmt, ast.Assign) and isinstance(n.stmt.value, ast.Constant) and n.stmt.value.value is True
                  and any(astq.is_self_attr(t, attr="_is_fitted") for t in n.stmt.targets)]
        if not stores:
            continue  # delegates to super().fit (judged there)
        yv = delegating_pred(("_set_y_X", "check_y_X", "check_y"), "fit", "y")
        g2, IN, OUT = flow.passed_before(fn, yv, k.module, c, k)
        for s in stores:
            ctx.check(IN[s.id], "R5", "%s.fit:validated-before-fitted" % k.qual, "the data validator is passed on every path before _is_fitted = True",
                      "%s.fit can set _is_fitted = True on a path that skipped data validation" % k.name, ctx.loc(k.module, s.stmt))

            def rejecting(m):
                if isinstance(m.stmt, ast.Raise):
                    return True
                return any((astq.call_name(cl) or "") in vnames for cl in m.calls())
            later = [m for m in g.may_reach_after(s, rejecting) if m not in stores]
            ctx.check(not later, "R5", "%s.fit:no-reject-after-fitted" % k.qual, "nothing can reject after the flag is set",
                      "%s.fit can still reject input after _is_fitted = True (line %s)" % (k.name, [getattr(m.stmt, "lineno", "?") for m in later[:3]]),
                      ctx.loc(k.module, s.stmt))


    _atomic_data_store(ctx, repo, flow)


# ================================================================================ R6
def rule_R6(ctx, repo):
    mod = repo.module(SKT)

    def table(cname):
        cls = repo.cls(SKT + ":" + cname)
        fn = cls.methods.get("_set_fh")
        if fn is None:
            raise AnalysisError("anchor missing: %s._set_fh" % cname)

        def mark(st):
            return isinstance(st, ast.Assign) and any(astq.is_self_attr(t, attr="_fh") for t in st.targets)

        at = Atomizer()
        pc = PathConditions(fn, at, mark=mark)
        return cls, fn, pc

    FHN = atom("isnone(fh)")
    FIT = atom("self.is_fitted")
    cls, fn, pc = table("_RequiredForecastingHorizonMixin")
    loc = ctx.loc(mod, fn)
    ats = atoms_of_formula(pc.raises)
    eq_atoms = [a for a in ats if ("self._fh" in a and "fh" in a.replace("self._fh", "")) and
                (a.startswith("eq(") or any(a.startswith(p_) or ("." + p_) in a.split("(")[0] + "(" for p_ in
                                            ("np.array_equal(", "np.array_equiv(", "array_equal(")) or ".equals(" in a)]
    ok = None
    if len(eq_atoms) == 1:
        EQ = atom(eq_atoms[0])
        spec = disj(conj(FHN, neg(FIT)), conj(neg(FHN), FIT, neg(EQ)))
        ok, wit = equivalent(pc.raises, spec)
        detail = "raises iff %s; differing assignment %s" % (show(pc.raises), wit)
    else:
        ok = False if not eq_atoms else None
        detail = "no comparison of the new horizon with the fitted one found (atoms: %s)" % sorted(ats)
    ctx.check(ok, "R6", "_RequiredForecastingHorizonMixin._set_fh:raise-table",
              "raises iff (no fh, not fitted) or (fh given, fitted, different from the fitted one)", detail, loc)
    if eq_atoms:
        a = eq_atoms[0]
        ctx.check("self._fh" in a and "fh@1" in a or ("self._fh" in a and "fh" in a), "R6", "_RequiredForecastingHorizonMixin._set_fh:compares-stored",
                  "the new horizon is compared with the stored one", "comparison atom is %s" % a, loc)
    store = FALSE
    for st, cond in pc.marked:
        store = disj(store, cond)
    ok, wit = equivalent(store, conj(neg(FHN), neg(FIT)))
    ctx.check(ok, "R6", "_RequiredForecastingHorizonMixin._set_fh:store-table", "stores the horizon iff fh given and not fitted",
              "stores iff %s (witness %s)" % (show(store), wit), loc)
    ctx.check(_stores_checked_fh(fn), "R6", "_RequiredForecastingHorizonMixin._set_fh:stores-validated", "stores check_fh(fh)",
              "the stored horizon is not the result of check_fh", loc)

    cls, fn, pc = table("_OptionalForecastingHorizonMixin")
    loc = ctx.loc(mod, fn)
    spec = conj(FHN, FIT, atom("isnone(self._fh)"))
    ok, wit = equivalent(pc.raises, spec)
    ctx.check(ok, "R6", "_OptionalForecastingHorizonMixin._set_fh:raise-table", "raises iff no fh passed, fitted and none stored",
              "raises iff %s (witness %s)" % (show(pc.raises), wit), loc)
    store = FALSE
    for st, cond in pc.marked:
        store = disj(store, cond)
    ok, wit = equivalent(store, neg(FHN))
    ctx.check(ok, "R6", "_OptionalForecastingHorizonMixin._set_fh:store-table", "stores the horizon iff fh given",
              "stores iff %s (witness %s)" % (show(store), wit), loc)
    ctx.check(_stores_checked_fh(fn), "R6", "_OptionalForecastingHorizonMixin._set_fh:stores-validated", "stores check_fh(fh)",
              "the stored horizon is not the result of check_fh", loc)
    # the fh property raises when nothing is stored
    base = repo.cls(SKT + ":_SktimeForecaster")
    prop = base.properties.get("fh", {}).get("getter")
    ok = False
    if prop is not None:
        pc = PathConditions(prop, Atomizer())
        okk, _ = equivalent(pc.raises, atom("isnone(self._fh)"))
        rets = astq.returns(prop)
        ok = bool(okk) and len(rets) == 1 and astq.is_self_attr(rets[0].value, attr="_fh")
    ctx.check(ok, "R6", "_SktimeForecaster.fh", "reading fh raises iff none was set", "the fh property does not reject a missing horizon", ctx.loc(mod, prop or base.node))
    # every concrete forecaster gets exactly one of the two mixins before _SktimeForecaster._set_fh (abstract)
    BF = repo.cls("sktime/forecasting/base/_base.py:BaseForecaster")
    for c in repo.subclasses(BF):
        hit = repo.lookup_method(c, "fit")
        if hit is None or is_abstract(hit[1]) or c.name.startswith("_") or c.name.startswith("Base"):
            continue
        sf = repo.lookup_method(c, "_set_fh")
        good = sf is not None and not is_abstract(sf[1])
        if repo.is_subclass(c, "BaseGridSearch"):
            continue
        ctx.check(good, "R6", c.qual + ":_set_fh", "resolves _set_fh to a mixin implementation (%s)" % (sf[0].name if sf else None),
                  "%s resolves _set_fh to the abstract base method (mixin order)" % c.name, ctx.loc(c.module, c.node))


def _stores_checked_fh(fn):
    for n in astq.walk_no_nested(fn):
        if isinstance(n, ast.Assign) and any(astq.is_self_attr(t, attr="_fh") for t in n.targets):
            v = n.value
            if isinstance(v, ast.Call) and astq.call_name(v) == "check_fh":
                continue
            if isinstance(v, ast.Name):
                vals = astq.assigned_values(fn, v.id)
                if vals and all(isinstance(x, ast.Call) and astq.call_name(x) == "check_fh" for x in vals):
                    continue
            return False
    return True


def run(ctx):
    from ..boolx import bind_repo as _bind_repo
    _bind_repo(ctx.repo)
    repo = ctx.repo
    flow = Flow(repo)
    ctx.explain("C20: must-call of the validators on every path of every entry point (per concrete class), truth tables of the validators' "
                "own rejection predicates, rejecting defaults of string dispatch, affine entailment of window feasibility, "
                "no fitted flag on a rejecting path, decision tables of the horizon mixins.")
    ctx.assume("exception types raised inside pandas/numpy/sklearn are not analysed")
    rule_R1(ctx, repo, flow)
    rule_R2(ctx, repo)
    rule_R3(ctx, repo, flow)
    rule_R4(ctx, repo)
    rule_R5(ctx, repo, flow)
    rule_R6(ctx, repo)
    ctx.floor("R1", 60)
    ctx.floor("R2", 20)
    ctx.floor("R3", 4)
    ctx.floor("R4", 8)
    ctx.floor("R5", 16)
    ctx.floor("R6", 20)
