"""C04 -- scikit-learn protocol: constructor contract, parameters never rewritten, fitted flag,
not-fitted guard on every apply-type method, composite parameter plumbing."""
import ast

from .. import astq
from ..absint import Interp, Frame, State, SelfV, K, Opq, Alt, as_lin_val
from ..cfg import CFG, block_always_raises
from ..flow import Flow, name_pred
from ..index import AnalysisError, ClassInfo, dotted

APPLY = ("predict", "predict_proba", "transform", "inverse_transform", "update", "update_predict",
         "update_predict_single", "score")
PARAM_WRITERS = ("__init__", "set_params", "_set_params", "_replace_estimator", "__setstate__")
SK_BASE = "sktime.base._base:BaseEstimator"


def P(name):
    return Opq("param", [name])


# ----------------------------------------------------------------------------- E3
def ctor_hooks(interp, frame, call, fname, args, kwargs, st):
    f = call.func
    if isinstance(f, ast.Attribute) and f.attr == "__init__":
        selfv = st.env.get("self")
        # super().__init__(...) / super(C, self).__init__(...) whose next __init__ is external
        if isinstance(f.value, ast.Call) and dotted(f.value.func) == "super" and isinstance(selfv, SelfV):
            nxt = next_init(interp.repo, selfv.cls, frame.defcls)
            if nxt is None:
                return K(None)  # object.__init__
            if isinstance(nxt, str):
                # external constructor (sklearn contract: stores each argument under its parameter name)
                for k, v in kwargs.items():
                    st.heap[(id(selfv), k)] = v
                for i, v in enumerate(args):
                    st.heap[(id(selfv), "<ext-positional-%d>" % i)] = v
                    if isinstance(v, Opq) and v.tag == "param":
                        st.heap.setdefault((id(selfv), v.args[0]), v)
                if any(kw.arg is None for kw in call.keywords):
                    st.heap[(id(selfv), "<ext-**kwargs>")] = K(True)
                return K(None)
            k, fn = nxt
            if frame.depth < interp.inline_depth:
                return interp.inline_fn(k.module, fn, selfv, k, False, args, kwargs, st, frame)
            return Opq("ctor-depth")
        # Base.__init__(self, ...)
        d = dotted(f.value)
        if d and args and isinstance(args[0], SelfV):
            sym = interp.repo.resolve_dotted(frame.module, d)
            if sym is not None and sym.kind == "class":
                hit = interp.repo.lookup_method(sym.target, "__init__")
                if hit is not None:
                    k, fn = hit
                    if frame.depth < interp.inline_depth:
                        return interp.inline_fn(k.module, fn, args[0], k, False, args[1:], kwargs, st, frame)
                    return Opq("ctor-depth")
            for k, v in kwargs.items():
                st.heap[(id(args[0]), k)] = v
            return K(None)
    ext = interp.ext_name(fname, frame)
    if ext in EXT_IDENTITY and args:
        return args[0]
    if ext == "builtins.setattr" and len(args) == 3 and isinstance(args[0], SelfV):
        if isinstance(args[1], K) and isinstance(args[1].v, str):
            st.heap[(id(args[0]), args[1].v)] = args[2]
        else:
            st.heap[(id(args[0]), "<dynamic-setattr>")] = K(True)
        return K(None)
    return NotImplemented


# external validators that return their first argument unchanged in the pinned library version (read by hand)
EXT_IDENTITY = {
    "sklearn.neighbors._base._check_weights": "sklearn 0.24 neighbors/_base.py: validates and `return weights`",
}

BENIGN_EXT = ("ext:object", "ext:abc.ABC", "ext:ABC", "ext:sklearn.base.BaseEstimator", "ext:sklearn.base.TransformerMixin",
              "ext:sklearn.base.ClassifierMixin", "ext:sklearn.base.RegressorMixin", "ext:sklearn.base.MetaEstimatorMixin")


def next_init(repo, cls, after):
    """The constructor ``super().__init__`` reaches from class ``after`` in the MRO of ``cls``:
    (ClassInfo, FunctionDef) | external base name | None (object.__init__)."""
    mro = repo.mro(cls)
    start = 0
    if after is not None:
        for i, k in enumerate(mro):
            if k is after:
                start = i + 1
                break
    for k in mro[start:]:
        if isinstance(k, ClassInfo):
            if "__init__" in k.methods:
                return k, k.methods["__init__"]
        elif k not in BENIGN_EXT:
            return k
    return None


def ctor_traces(repo, cls):
    """Abstractly run the constructor chain of concrete class ``cls``.
    Returns (defining class, FunctionDef, params, has_varkw, [heap per normal trace], selfv) or None."""
    hit = next_init(repo, cls, None)
    if hit is None or isinstance(hit, str):
        return None
    k, fn = hit
    a = fn.args
    params = [p.arg for p in (a.posonlyargs + a.args)[1:]] + [p.arg for p in a.kwonlyargs]
    selfv = SelfV(cls)
    it = Interp(repo, hooks=ctor_hooks, inline_depth=8, max_states=512)
    args = {p: P(p) for p in params}
    args["self"] = selfv
    traces, fst = it.run_function(Frame(k.module, fn, cls, k), args, State())
    heaps = []
    for s, o in traces:
        if o[0] in ("return", "fall"):
            heaps.append({a2: v for (oid, a2), v in s.heap.items() if oid == id(selfv)})
    return k, fn, params, a.kwarg is not None, a.vararg is not None, heaps, selfv


def classify(val, p):
    if val is None or (isinstance(val, Opq) and val.tag == "unset"):
        return "not stored"
    if isinstance(val, K) or as_lin_val(val) is not None:
        return "replaced by constant %r" % (val,)
    if isinstance(val, Opq) and val.tag == "mixed":
        return "conditionally replaced (%s)" % ", ".join(repr(x) for x in val.args)
    if isinstance(val, Opq) and val.tag == "param":
        return "holds another parameter (%s)" % val.args[0]
    return "transformed (%r)" % (val,)


def rule_R1(ctx, repo, classes):
    done = {}
    n_classes = 0
    for c in classes:
        try:
            res = ctor_traces(repo, c)
        except AnalysisError as e:
            ctx.undecided("R1", c.qual + ":__init__", "constructor not interpretable: %s" % e, ctx.loc(c.module, c.node))
            continue
        if res is None:
            ctx.count("classes_without_repo_ctor")
            continue
        k, fn, params, varkw, vararg, heaps, selfv = res
        n_classes += 1
        own = "__init__" in c.methods
        owner = c if own else k
        loc = ctx.loc(k.module, fn)
        if varkw or vararg:
            key = owner.qual + ":**kwargs"
            if key not in done:
                done[key] = 1
                ctx.violation("R1", key, "constructor takes *args/**kwargs: open parameter set, get_params cannot "
                              "return what was passed", loc)
        if not heaps:
            if repo.subclasses(c):
                ctx.count("abstract_constructors")  # an abstract hook raises on every trace; judged in the subclasses
                continue
            ctx.undecided("R1", owner.qual + ":__init__", "no normal trace through the constructor", loc)
            continue
        for p in params:
            key = "%s:%s" % (owner.qual, p)
            bad = None
            for h in heaps:
                v = h.get(p)
                if v is None and ("_" + p) in h and p in _properties(repo, c):
                    v = h.get("_" + p)
                if not (isinstance(v, Opq) and v.tag == "param" and v.args == (p,)):
                    bad = v if v is not None else Opq("unset")
                    break
            if key in done:
                continue
            done[key] = 1
            if bad is None:
                ctx.ok("R1", key, "attribute holds the argument unchanged on every constructor trace", loc)
            else:
                ctx.violation("R1", key, "constructor argument `%s` of %s is %s" % (p, c.name, classify(bad, p)), loc,
                              witness={"class": c.qual, "value": repr(bad)})
    ctx.count("R1_classes", n_classes)
    return n_classes


def _properties(repo, c):
    out = set()
    for k in repo.mro(c):
        if isinstance(k, ClassInfo):
            out.update(k.properties)
    return out


def ctor_params(repo, c):
    hit = next_init(repo, c, None)
    if hit is None or isinstance(hit, str):
        return set()
    a = hit[1].args
    return {p.arg for p in (a.posonlyargs + a.args)[1:]} | {p.arg for p in a.kwonlyargs}


MUTATORS = ("append", "extend", "insert", "pop", "remove", "sort", "reverse", "clear", "setdefault", "popitem")


from ..passthru import alias_locals as _alias_locals  # noqa: E402


def _writes_through(repo, module, fn, seed_of, params_alias=(), depth=3):
    """[(node, origin, description)] of in-place writes in ``fn`` (closures included) to objects of a seed origin:
    attribute / item stores, container mutators, setattr, or a repository helper that writes to the parameter it receives."""
    alias, origin_of = _alias_locals(repo, module, fn, seed_of, params_alias)
    out = []
    for n in ast.walk(fn):
        if isinstance(n, (ast.Assign, ast.AugAssign, ast.Delete)):
            tgts = n.targets if isinstance(n, (ast.Assign, ast.Delete)) else [n.target]
            for t in tgts:
                if isinstance(t, (ast.Attribute, ast.Subscript)):
                    o = origin_of(t.value)
                    if o is not None and not (isinstance(t, ast.Attribute) and isinstance(t.value, ast.Name) and t.value.id == "self"):
                        out.append((n, o, "store to `%s`" % ast.unparse(t)))
        elif isinstance(n, ast.Call):
            f = n.func
            if isinstance(f, ast.Attribute) and f.attr in MUTATORS and origin_of(f.value) is not None:
                out.append((n, origin_of(f.value), "`.%s(...)`" % f.attr))
            elif astq.call_name(n) in ("setattr", "delattr") and isinstance(f, ast.Name) and n.args and origin_of(n.args[0]) is not None:
                out.append((n, origin_of(n.args[0]), "`%s(...)`" % f.id))
            elif depth > 0 and dotted(f) and not (dotted(f).startswith("self.")):
                sym = repo.resolve_dotted(module, dotted(f))
                if sym is not None and sym.kind == "func":
                    pn = [a.arg for a in sym.target.args.args]
                    cands = [(pn[i], a) for i, a in enumerate(n.args) if i < len(pn)] + [(k.arg, k.value) for k in n.keywords if k.arg in pn]
                    for pname, a in cands:
                        o = origin_of(a)
                        if o is None:
                            continue
                        w = _mutates_param(repo, sym.module, sym.target, pname, depth - 1)
                        if w is not None:
                            out.append((n, o, "helper %s writes to the object it is handed (%s)" % (sym.target.name, w)))
    return out


def _mutates_param(repo, module, fn, pname, depth=3):
    """'line N: what' of a write *through* parameter ``pname`` of helper ``fn``, or None."""
    _cache = repo.__dict__.setdefault("_c04_mutates_cache", {})  # per Repo object (ids of collected repos are reused)
    key = (module.relpath, fn.name, fn.lineno, pname)
    if key in _cache:
        return _cache[key]
    _cache[key] = None
    ws = _writes_through(repo, module, fn, lambda e: None, params_alias={pname: pname}, depth=depth)
    res = None
    if ws:
        n, _, desc = ws[0]
        res = "%s:%s %s" % (module.relpath, n.lineno, desc)
    _cache[key] = res
    return res


def rule_R2(ctx, repo, classes):
    """No method other than the parameter writers stores to a constructor parameter."""
    seen = {}
    for c in classes:
        params = ctor_params(repo, c)
        if not params:
            continue
        reach = reachable_methods(repo, c)
        for k in repo.mro(c):
            if not isinstance(k, ClassInfo):
                continue
            for mname, fn in k.methods.items():
                if mname in PARAM_WRITERS:
                    continue
                if (k.qual, mname) not in reach:
                    continue  # a setter only the user can call does not break "fit leaves parameters unchanged"
                for attr, val, stmt in astq.self_attr_stores(fn):
                    if attr in params:
                        # a property setter of that very attribute is a parameter writer
                        key = "%s:%s(rewritten)" % (k.qual, attr)
                        if val is not None and astq.is_self_attr(val, attr=attr):
                            continue  # self.p = self.p
                        ent = seen.setdefault(key, (k, fn, stmt, attr, set(), set()))
                        ent[4].add(c.name)
                        ent[5].add(mname)
            ctx.count("R2_methods_scanned", len(k.methods))
    mut_seen = {}
    for c in classes:
        params = ctor_params(repo, c)
        if not params:
            continue
        reach = reachable_methods(repo, c)
        methods = []
        for k in repo.mro(c):
            if isinstance(k, ClassInfo):
                for mname, fn in k.methods.items():
                    if (k.qual, mname) in reach and mname not in PARAM_WRITERS:
                        methods.append((k, fn))
        # attributes that alias a constructor parameter: self.a = self.p | self.a = self.m() where m returns self.p unchanged
        alias = {p: p for p in params}

        def returns_param(fn_):
            rets = astq.returns(fn_)
            ps = set()
            for r in rets:
                v = r.value
                if isinstance(v, ast.Name):
                    vals = astq.assigned_values(fn_, v.id)
                    v = vals[0] if len(vals) == 1 else v
                if astq.is_self_attr(v) and v.attr in params:
                    ps.add(v.attr)
                else:
                    return None
            return ps.pop() if len(ps) == 1 else None

        for _ in range(2):
            for k, fn in methods:
                for attr, val, stmt in astq.self_attr_stores(fn):
                    if val is None or attr in params:
                        continue
                    src = None
                    if astq.is_self_attr(val) and val.attr in alias:
                        src = alias[val.attr]
                    elif isinstance(val, ast.Call) and isinstance(val.func, ast.Attribute) and dotted(val.func.value) == "self":
                        hit = repo.lookup_method(c, val.func.attr)
                        if hit:
                            src = returns_param(hit[1])
                    if src:
                        alias[attr] = src
        def seed_of(e):
            return alias[e.attr] if astq.is_self_attr(e) and e.attr in alias else None
        for k, fn in methods:
            for n, origin, desc in _writes_through(repo, k.module, fn, seed_of):
                key = "%s:%s(in-place)" % (k.qual, origin)
                ent = mut_seen.setdefault(key, (k, fn, n, desc, origin, set()))
                ent[5].add(c.name)
    for key, (k, fn, node, tgt, p_, users) in sorted(mut_seen.items()):
        ctx.violation("R2", key, "constructor parameter `%s` (of %s) is mutated in place in %s.%s: %s"
                      % (p_, ", ".join(sorted(users)[:4]), k.name, fn.name, tgt), ctx.loc(k.module, node))
    for key, (k, fn, stmt, attr, users, meths) in sorted(seen.items()):
        ctx.violation("R2", key, "`self.%s` is a constructor parameter (of %s) and is overwritten in %s.%s (reachable from fit / apply-type methods)"
                      % (attr, ", ".join(sorted(users)[:4]), k.name, "/".join(sorted(meths))), ctx.loc(k.module, stmt))
    # positive evidence: classes whose non-constructor methods store no parameter
    for c in classes:
        params = ctor_params(repo, c)
        if params and not any(c.name in v[4] for v in seen.values()):
            ctx.ok("R2", c.qual, "no method outside the constructor stores any of %d parameters" % len(params),
                   ctx.loc(c.module, c.node), nontrivial=True)


ENTRY = ("fit", "fit_transform", "fit_predict") + APPLY


def reachable_methods(repo, c):
    """(defining class qual, method) pairs reachable from fit / apply-type methods of concrete class ``c`` through self./super(). calls."""
    out = set()
    work = []
    for m in ENTRY:
        hit = repo.lookup_method(c, m)
        if hit:
            work.append(hit)
    while work:
        k, fn = work.pop()
        if (k.qual, fn.name) in out:
            continue
        out.add((k.qual, fn.name))
        for call in astq.calls(fn):
            f = call.func
            if isinstance(f, ast.Attribute):
                if isinstance(f.value, ast.Name) and f.value.id == "self":
                    hit = repo.lookup_method(c, f.attr)
                elif isinstance(f.value, ast.Call) and dotted(f.value.func) == "super":
                    hit = repo.lookup_method(c, f.attr, after=k)
                else:
                    hit = None
                if hit:
                    work.append(hit)
        # bound methods passed as values (e.g. delayed(self._fit_one))
        for n in astq.walk_no_nested(fn):
            if astq.is_self_attr(n) and isinstance(n.ctx, ast.Load):
                hit = repo.lookup_method(c, n.attr)
                if hit and n.attr not in PARAM_WRITERS:
                    work.append(hit)
    return out


# ------------------------------------------------------------------- fitted flag
def is_flag_store(node, value):
    st = node.stmt
    if isinstance(st, ast.Assign) and isinstance(st.value, ast.Constant) and st.value.value is value:
        return any(astq.is_self_attr(t, attr="_is_fitted") for t in st.targets)
    return False


class FitFacts:
    def __init__(self, repo, flow):
        self.repo, self.flow = repo, flow
        self._memo = {}

    def must_set_flag(self, fn, module, cls, defcls, depth=6, stack=()):
        key = (id(fn), cls.qual if cls else None)
        if key in self._memo:
            return self._memo[key]
        if id(fn) in stack or depth < 0:
            return False
        g = self.flow.cfg(fn)

        def gen(node):
            if is_flag_store(node, True):
                return True
            for c in node.calls():
                t = self.flow.resolve_call(c, module, cls, defcls)
                if t.kind == "method" and t.func is not None and t.name in ("fit", "_fit") or \
                        (t.kind == "method" and t.func is not None and t.name.startswith("_fit")):
                    if self.must_set_flag(t.func, t.module, cls, t.defcls, depth - 1, stack + (id(fn),)):
                        return True
            return False

        def kill(node):
            return is_flag_store(node, False)

        r = g.must_pass(gen, kill)
        self._memo[key] = r
        return r

    def returns_self(self, fn, module, cls, defcls, depth=4):
        """True / False / None: every normal return returns self."""
        g = self.flow.cfg(fn)
        rets = [n for n in g.nodes if n.kind == "return" and n.id in g.reachable()]
        fall = [p for p, _ in g.exit.pred if p.kind != "return" and p.id in g.reachable()]
        if fall:
            return False
        verdict = True
        for n in rets:
            v = n.stmt.value
            if isinstance(v, ast.Name) and v.id == "self":
                continue
            if isinstance(v, ast.Name) and v.id != "self":
                vals_ = astq.assigned_values(fn, v.id)
                if len(vals_) == 1 and isinstance(vals_[0], ast.Call):
                    v = vals_[0]  # a local bound once to a call result: judge the call
            if isinstance(v, ast.Call):
                if astq.call_name(v) in ("clone", "deepcopy", "copy") and not (isinstance(v.func, ast.Attribute) and dotted(v.func.value) == "self"):
                    return False  # a fresh object, never the estimator itself
                t = self.flow.resolve_call(v, module, cls, defcls)
                if t.kind == "method" and t.func is not None and depth > 0:
                    r = self.returns_self(t.func, t.module, cls, t.defcls, depth - 1)
                    if r is True:
                        continue
                    if r is False:
                        return False
                    verdict = None
                    continue
                verdict = None
                continue
            if v is None:
                return False
            # a local that aliases self?
            if isinstance(v, ast.Name):
                vals = astq.assigned_values(fn, v.id)
                if vals and all(isinstance(x, ast.Name) and x.id == "self" for x in vals):
                    continue
                return False if vals and all(isinstance(x, ast.Constant) for x in vals) else None
            return False
        return verdict


VALIDATOR_PREFIXES = ("check_", "_check_")
VALIDATOR_NAMES = ("_set_fh", "_set_y_X", "_update_y_X")


def rule_R3(ctx, repo, flow, sk_classes):
    ff = FitFacts(repo, flow)
    # (a) constructor chain ends with _is_fitted == False
    for c in sk_classes:
        try:
            res = ctor_traces(repo, c)
        except AnalysisError:
            continue
        if res is None:
            continue
        k, fn, params, varkw, vararg, heaps, selfv = res
        own = "__init__" in c.methods
        if not own:
            continue
        vals = [h.get("_is_fitted") for h in heaps]
        good = bool(vals) and all(v == K(False) for v in vals)
        ctx.check(good, "R3", c.qual + ":ctor-flag", "_is_fitted is False after construction",
                  "constructor chain of %s leaves _is_fitted = %r (base constructor not reached or flag overwritten)"
                  % (c.name, vals[:2]), ctx.loc(k.module, fn))
    # (b) fit bodies
    done = set()
    for c in sk_classes:
        hit = repo.lookup_method(c, "fit")
        if hit is None:
            continue
        k, fn = hit
        key = k.qual + ".fit"
        if key in done:
            continue
        done.add(key)
        if _is_abstract(fn):
            continue
        loc = ctx.loc(k.module, fn)
        g = flow.cfg(fn)
        sets = ff.must_set_flag(fn, k.module, c, k)
        ctx.check(sets, "R3", key + ":sets-flag", "every path to a normal return sets _is_fitted = True (or delegates to a fit that does)",
                  "%s.fit can return normally without setting _is_fitted = True" % k.name, loc)
        rs = ff.returns_self(fn, k.module, c, k)
        if rs is None:
            ctx.info("R3 %s: return value not resolvable" % key)
        else:
            ctx.check(rs, "R3", key + ":returns-self", "every normal return returns self",
                      "%s.fit has a normal return that does not return self" % k.name, loc)
        # nothing that can reject input after the flag is set
        for n in g.nodes:
            if is_flag_store(n, True):
                def pred(m):
                    if isinstance(m.stmt, ast.Raise):
                        return True
                    for cl in m.calls():
                        nm = astq.call_name(cl) or ""
                        if nm.startswith(VALIDATOR_PREFIXES) or nm in VALIDATOR_NAMES:
                            return True
                    return False
                later = g.may_reach_after(n, pred)
                later = [m for m in later if not is_flag_store(m, True)]
                ctx.check(not later, "R3", key + ":flag-last", "no raise / validator call is reachable after _is_fitted = True",
                          "%s.fit sets _is_fitted = True and can still reject afterwards (line %s)"
                          % (k.name, ", ".join(str(getattr(m.stmt, "lineno", "?")) for m in later[:3])), ctx.loc(k.module, n.stmt))


def _is_abstract(fn):
    body = [s for s in fn.body if not (isinstance(s, ast.Expr) and isinstance(s.value, ast.Constant))]
    return len(body) <= 1 and (not body or isinstance(body[0], (ast.Raise, ast.Pass)))


# ------------------------------------------------------------------------ guard
def rule_R4(ctx, repo, flow, sk_classes):
    guard = name_pred("check_is_fitted")
    intrinsic = {}
    pairs = 0
    reported = set()
    for c in sk_classes:
        for m in APPLY:
            hit = repo.lookup_method(c, m)
            if hit is None:
                continue
            k, fn = hit
            if _is_abstract(fn):
                continue
            pairs += 1
            ok = flow.must_call(fn, guard, k.module, c, k)
            dk = (k.qual, m)
            if dk not in intrinsic:
                intrinsic[dk] = flow.must_call(fn, guard, k.module, k, k, skip=_is_abstract)
            if ok:
                ctx.ok("R4", "%s.%s@%s" % (k.qual, m, c.name), "guard on every path to a normal return", ctx.loc(k.module, fn),
                       nontrivial=False)
                continue
            if not intrinsic[dk]:
                key = "%s.%s" % (k.qual, m)
            else:
                key = "%s.%s(via %s)" % (c.qual, m, k.name)
            if key in reported:
                continue
            reported.add(key)
            ctx.violation("R4", key, "%s.%s (defined in %s) can return a result without passing check_is_fitted"
                          % (c.name, m, k.name), ctx.loc(k.module, fn))
    ctx.count("R4_pairs", pairs)
    # guard-first: where a method calls the guard itself, no validator / horizon setter / raise may run before it
    done = set()
    for c in sk_classes:
        for m in APPLY:
            hit = repo.lookup_method(c, m)
            if hit is None:
                continue
            k, fn = hit
            if (k.qual, m) in done:
                continue
            done.add((k.qual, m))
            g = flow.cfg(fn)

            def is_guard(n, c=c, k=k):
                for cl in n.calls():
                    if astq.call_name(cl) == "check_is_fitted":
                        return True
                    t = flow.resolve_call(cl, k.module, c, k)
                    if t.kind == "method" and t.func is not None and flow.must_call(t.func, guard, t.module, c, t.defcls, skip=_is_abstract):
                        return True  # statement-level granularity: a guarded own method called in the same statement
                return False
            if not any(astq.call_name(cl) == "check_is_fitted" for n in g.nodes for cl in n.calls()) \
                    and not flow.must_call(fn, guard, k.module, c, k, skip=_is_abstract):
                continue  # neither guards itself nor through an own method on every path (reported above)
            IN, OUT = g.forward_must(is_guard)
            early = []
            for n in g.nodes:
                if n.id not in g.reachable() or IN[n.id] or is_guard(n):
                    continue
                # anything that depends on the estimator's (un)fitted state must come after the guard:
                # calls of own methods and reads of private / fitted attributes.  Validators of the *arguments*
                # (check_X(X), check_random_state(self.random_state)) reject independently of the fitted state.
                hit_ = False
                for cl in n.calls():
                    f = cl.func
                    if isinstance(f, ast.Attribute) and ((isinstance(f.value, ast.Name) and f.value.id == "self") or
                                                         (isinstance(f.value, ast.Call) and dotted(f.value.func) == "super")):
                        hit_ = True
                for e in n.exprs:
                    for sub in astq.walk_no_nested(e):
                        if astq.is_self_attr(sub) and isinstance(sub.ctx, ast.Load) and (sub.attr.endswith("_") or sub.attr.startswith("_")
                                                                                          or sub.attr in ("fh", "cutoff")):
                            hit_ = True
                if hit_:
                    early.append(n)
            ctx.check(not early, "R4", "%s.%s:guard-first" % (k.qual, m), "the not-fitted guard precedes every use of the estimator's own state",
                      "%s.%s uses the estimator's state (line %s) before the not-fitted guard runs: an unfitted estimator fails with an unrelated error" % (
                          k.name, m, ", ".join(str(getattr(n.stmt, "lineno", "?")) for n in early[:3])), ctx.loc(k.module, fn))
    # the guard itself
    base = repo.cls(SK_BASE)
    fn = base.methods.get("check_is_fitted")
    if fn is None:
        raise AnalysisError("anchor missing: BaseEstimator.check_is_fitted")
    from ..boolx import Atomizer as _At, PathConditions as _PC, equivalent as _equiv, atom as _atom, neg as _neg, disj as _disj, FALSE as _F
    pcg = _PC(fn, _At())
    nf_cond = _F
    other = False
    for st_, cond_ in pcg.raise_sites:
        exc = st_.exc
        nm = dotted(exc.func) if isinstance(exc, ast.Call) else dotted(exc)
        if nm is not None and isinstance(exc, ast.Call):
            # an exception built by a factory helper: `raise _not_fitted_error(name)` where the helper returns NotFittedError(...)
            sym_ = repo.resolve_dotted(base.module, nm)
            if sym_ is not None and sym_.kind == "func":
                rr = astq.returns(sym_.target)
                names_ = {dotted(r.value.func) if isinstance(r.value, ast.Call) else None for r in rr}
                if len(names_) == 1 and None not in names_:
                    nm = names_.pop()
        if nm is not None and nm.split(".")[-1] == "NotFittedError":
            nf_cond = _disj(nf_cond, cond_)
        else:
            other = True
    good = False
    if not other:
        for a_ in ("self.is_fitted", "self._is_fitted"):
            r_, _w = _equiv(nf_cond, _neg(_atom(a_)))
            good = good or bool(r_)
    ctx.check(good, "R4", base.qual + ".check_is_fitted", "raises NotFittedError iff not self.is_fitted",
              "BaseEstimator.check_is_fitted does not raise NotFittedError exactly when the estimator is not fitted", ctx.loc(base.module, fn))
    prop = base.properties.get("is_fitted", {}).get("getter")
    good = prop is not None and len(astq.returns(prop)) == 1 and astq.is_self_attr(astq.returns(prop)[0].value, attr="_is_fitted")
    ctx.check(good, "R4", base.qual + ".is_fitted", "is_fitted returns self._is_fitted",
              "BaseEstimator.is_fitted does not return the fitted flag", ctx.loc(base.module, prop or base.node))
    # the tuner's check_is_fitted(method_name)
    tuner = repo.cls("sktime/forecasting/model_selection/_tune.py:BaseGridSearch")
    tf = tuner.methods.get("check_is_fitted")
    if tf is not None:
        g = CFG(tf)
        raises_nf = False
        delegates = False
        for n in g.nodes:
            if isinstance(n.stmt, ast.Raise) and n.stmt.exc is not None:
                exc = n.stmt.exc
                nm = dotted(exc.func) if isinstance(exc, ast.Call) else dotted(exc)
                if nm and nm.split(".")[-1] == "NotFittedError":
                    conds = g.guards_of(n)
                    if any(_mentions_not_refit(t, br) for t, br in conds):
                        raises_nf = True
            for cl in n.calls():
                if astq.call_name(cl) == "check_is_fitted" and "best_forecaster_" in (dotted(cl.func) or ""):
                    delegates = True
                if astq.call_name(cl) == "check_is_fitted" and isinstance(cl.func, ast.Attribute) and \
                        isinstance(cl.func.value, ast.Call) and dotted(cl.func.value.func) == "super":
                    delegates = True
        ctx.check(raises_nf and delegates, "R4", tuner.qual + ".check_is_fitted",
                  "raises NotFittedError when refit is off and otherwise delegates to the fitted-state check",
                  "tuner guard: raises-when-not-refit=%s delegates=%s" % (raises_nf, delegates), ctx.loc(tuner.module, tf))


def _mentions_not_refit(test, branch):
    """Does (test taken on `branch`) imply `not self.refit`?"""
    def pos(t, b):
        if isinstance(t, ast.UnaryOp) and isinstance(t.op, ast.Not):
            return pos(t.operand, not b)
        if isinstance(t, ast.BoolOp):
            if isinstance(t.op, ast.And) and b:
                return any(pos(v, True) for v in t.values)
            if isinstance(t.op, ast.Or) and not b:
                return any(pos(v, False) for v in t.values)
            return False
        return astq.is_self_attr(t, attr="refit") and (b is False)
    return pos(test, branch)


# ------------------------------------------------------------------- composites
META = "sktime/base/_meta.py"


def rule_R5(ctx, repo, flow):
    meta = repo.cls(META + ":_HeterogenousMetaEstimator")
    mod = meta.module
    sp = repo.func(META, "_HeterogenousMetaEstimator._set_params")
    g = CFG(sp)
    n_whole = n_repl = n_super = None
    repl_name = None
    for c in astq.calls(sp):
        if isinstance(c.func, ast.Attribute) and dotted(c.func.value) == "self" and len(c.args) == 3 and dotted(c.args[0]) == "attr" \
                and c.func.attr in meta.methods and any(
                    astq.call_name(x) == "setattr" and len(x.args) == 3 and dotted(x.args[0]) == "self"
                    and dotted(x.args[1]) == astq.param_names(meta.methods[c.func.attr], skip_self=True)[0]
                    for x in astq.calls(meta.methods[c.func.attr])):
            repl_name = c.func.attr  # the component-replacement helper, discovered by its role: (attr, name, value) -> setattr(self, attr, ...)
    for n in g.nodes:
        for c in n.calls():
            nm = astq.call_name(c)
            if nm == "setattr" and len(c.args) == 3 and dotted(c.args[0]) == "self" and dotted(c.args[1]) == "attr":
                n_whole = n
            elif repl_name is not None and nm == repl_name:
                n_repl = n
            elif nm == "set_params" and isinstance(c.func, ast.Attribute) and isinstance(c.func.value, ast.Call) \
                    and dotted(c.func.value.func) == "super":
                n_super = n
    loc = ctx.loc(mod, sp)
    if None in (n_whole, n_repl, n_super):
        ctx.check(False if n_super is None or n_repl is None or n_whole is None else None, "R5", "_set_params:steps", "",
                  "_set_params lacks one of: whole-list assignment / component replacement / super().set_params "
                  "(found whole=%s repl=%s super=%s)" % (n_whole is not None, n_repl is not None, n_super is not None), loc)
    else:
        # order: whole list strictly before replacement, replacement before super (no path reaches an earlier step later)
        def reaches(a, b):
            return bool(g.may_reach_after(a, lambda x: x is b))
        ok = reaches(n_whole, n_repl) and reaches(n_repl, n_super) and not reaches(n_repl, n_whole) \
            and not reaches(n_super, n_repl) and not reaches(n_super, n_whole)
        ctx.check(ok, "R5", "_set_params:order", "whole list, then component replacement, then remaining parameters",
                  "_set_params does not apply (1) whole list (2) component replacement (3) super().set_params in that order", loc)
        # the component names used for replacement are read from the attribute *after* the whole-list step
        reads = [n for n in g.nodes if n is not n_whole and any(
            astq.call_name(c) == "getattr" and len(c.args) >= 2 and dotted(c.args[0]) == "self" and dotted(c.args[1]) == "attr"
            for c in n.calls())]
        stale = [n for n in reads if reaches(n, n_whole)]
        ctx.check(bool(reads) and not stale, "R5", "_set_params:names-after-whole-list",
                  "component names are read from the attribute after the whole list was replaced",
                  "component names are read (line %s) before the whole-list replacement: a component named in the same call as a new list is not replaced"
                  % ", ".join(str(n.stmt.lineno) for n in stale) if reads else "_set_params never reads the component list",
                  ctx.loc(mod, (stale[0].stmt if stale else sp)))
        # whole-list assignment is guarded by `attr in params` and consumes the entry
        conds = g.guards_of(n_whole)
        ok = any(br is True and isinstance(t, ast.Compare) and len(t.ops) == 1 and isinstance(t.ops[0], ast.In)
                 and dotted(t.left) == "attr" and dotted(t.comparators[0]) == "params" for t, br in conds)
        c = [c for c in n_whole.calls() if astq.call_name(c) == "setattr"][0]
        popped = isinstance(c.args[2], ast.Call) and astq.call_name(c.args[2]) == "pop" and dotted(c.args[2].args[0]) == "attr"
        ctx.check(ok and popped, "R5", "_set_params:whole-list", "whole list is set from params.pop(attr) when present",
                  "whole-list step is not `if attr in params: setattr(self, attr, params.pop(attr))`", ctx.loc(mod, n_whole.stmt))
        # replacement: only names without the separator that are component names; value popped
        from ..boolx import Atomizer, PathConditions, implies, neg as bneg, atom as batom, atoms_of, FALSE as BFALSE, disj as bdisj
        pc = PathConditions(sp, Atomizer(), mark=lambda st: any(astq.call_name(c) == repl_name for c in astq.calls(st))
                            and not isinstance(st, (ast.For, ast.If, ast.While)))
        cond = BFALSE
        for st_, c_ in pc.marked:
            cond = bdisj(cond, c_)
        sep_atoms = [a for a in atoms_of(cond) if a.startswith("in('__', ")]
        subj = sep_atoms[0][len("in('__', "):-1] if len(sep_atoms) == 1 else None
        name_atoms = sorted(a for a in atoms_of(cond) if subj is not None and a.startswith("in(%s, " % subj))
        sep_ok = False
        if len(sep_atoms) == 1 and name_atoms:
            r1, _ = implies(cond, bneg(batom(sep_atoms[0])))
            r2, _ = implies(cond, batom(name_atoms[0]))
            sep_ok = bool(r1) and bool(r2)
        rc = [c for c in n_repl.calls() if astq.call_name(c) == repl_name][0]
        b = astq.bind_call(meta.methods[repl_name], rc, skip_self=True)
        third = astq.param_names(meta.methods[repl_name], skip_self=True)[2] if len(astq.param_names(meta.methods[repl_name], skip_self=True)) >= 3 else None
        first = astq.param_names(meta.methods[repl_name], skip_self=True)[0] if astq.param_names(meta.methods[repl_name], skip_self=True) else None
        third_v = b.get(third) if b is not None and third is not None else None
        if isinstance(third_v, ast.Name):
            _vals = astq.assigned_values(sp, third_v.id)
            third_v = _vals[0] if len(_vals) == 1 else third_v
        pop_ok = b is not None and third is not None and isinstance(third_v, ast.Call) and astq.call_name(third_v) == "pop" \
            and dotted(b.get(first)) == "attr"
        ctx.check(sep_ok and pop_ok, "R5", "_set_params:replacement", "components are replaced only for names without `__` that are component names, value popped",
                  "component replacement is not restricted to component names without `__` (condition: %s) / does not consume the entry" % (
                      __import__("sa.boolx", fromlist=["show"]).show(cond)), ctx.loc(mod, n_repl.stmt))
        # super().set_params(**params) and returns self
        sc = [c for c in n_super.calls() if astq.call_name(c) == "set_params"][0]
        ok = any(k.arg is None and dotted(k.value) == "params" for k in sc.keywords)
        rets = astq.returns(sp)
        ok = ok and rets and all(dotted(r.value) == "self" for r in rets)
        ctx.check(ok, "R5", "_set_params:rest", "remaining parameters go to super().set_params(**params); returns self",
                  "_set_params does not forward the remaining params / does not return self", ctx.loc(mod, n_super.stmt))
    # _get_params
    gp = repo.func(META, "_HeterogenousMetaEstimator._get_params")
    seps = []
    fmt_ok = False
    upd = False
    for n in ast.walk(gp):
        if isinstance(n, ast.Call) and astq.call_name(n) == "update" and n.args and isinstance(n.args[0], ast.Name):
            vals = astq.assigned_values(gp, n.args[0].id)
            upd = bool(vals) and all(isinstance(v, ast.Call) and astq.call_name(v) == "getattr" and dotted(v.args[1]) == "attr" for v in vals)
        if isinstance(n, ast.Subscript) and isinstance(n.ctx, ast.Store) and dotted(n.value) == _param_dict_name(gp):
            key = n.slice
            s = _format_sep(key)
            if s is not None:
                seps.append(s)
                fmt_ok = True
    if not seps:
        # the nested keys may be produced by a helper (generator / function) that yields or returns (key, value) pairs
        for h in _helper_scope(meta, gp)[1:]:
            for n in ast.walk(h):
                cand = None
                if isinstance(n, (ast.Yield, ast.Return)) and isinstance(n.value, ast.Tuple) and n.value.elts:
                    cand = n.value.elts[0]
                elif isinstance(n, ast.Subscript) and isinstance(n.ctx, ast.Store):
                    cand = n.slice
                s = _format_sep(cand) if cand is not None else None
                if s is not None:
                    seps.append(s)
                    fmt_ok = True
    ctx.check(upd and fmt_ok and all(s == "__" for s in seps), "R5", "_get_params:nested-keys",
              "components added by name and as `name__key` from the same attribute",
              "_get_params does not expose components under `name` and `name__key` (separators found: %r, update from attr: %s)" % (seps, upd),
              ctx.loc(mod, gp))
    sup = [c for c in astq.calls(gp) if astq.call_name(c) == "get_params" and isinstance(c.func.value, ast.Call)
           and dotted(c.func.value.func) == "super"]
    ok = len(sup) == 1 and any(k.arg == "deep" and dotted(k.value) == "deep" for k in sup[0].keywords)
    ctx.check(ok, "R5", "_get_params:super", "starts from super().get_params(deep=deep)", "_get_params does not start from super().get_params(deep=deep)", ctx.loc(mod, gp))
    # _replace_estimator
    if repl_name is None:
        ctx.violation("R5", "_replace_estimator", "_set_params never hands (attr, name, value) to a helper that stores the component list back: "
                      "components cannot be replaced by name", ctx.loc(mod, sp))
        return
    rp = meta.methods[repl_name]
    sets = [c for c in astq.calls(rp) if astq.call_name(c) == "setattr" and len(c.args) == 3 and dotted(c.args[1]) == "attr"]
    rp_params = astq.param_names(rp, skip_self=True)
    p_name = rp_params[1] if len(rp_params) >= 3 else "name"
    p_val = rp_params[2] if len(rp_params) >= 3 else "new_val"
    cmp_ok = any(isinstance(n, ast.Compare) and len(n.ops) == 1 and isinstance(n.ops[0], ast.Eq)
                 and {dotted(n.left), dotted(n.comparators[0])} >= {p_name} for n in ast.walk(rp))
    tup_ok = any(isinstance(n, ast.Assign) and isinstance(n.value, ast.Tuple) and [dotted(e) for e in n.value.elts] == [p_name, p_val]
                 for n in ast.walk(rp))
    ctx.check(bool(sets) and cmp_ok and tup_ok, "R5", "_replace_estimator", "replaces the component whose name matches by (name, new_val)",
              "_replace_estimator does not replace the matching (name, value) pair and store the list back", ctx.loc(mod, rp))
    # _check_names: three rejecting branches
    cn = repo.func(META, "_HeterogenousMetaEstimator._check_names")
    g2 = CFG(cn)
    n_raise = sum(1 for n in g2.nodes if n.id in g2.reachable() and isinstance(n.stmt, ast.Raise))
    kinds = set()
    for n in astq.walk_no_nested(cn):
        if isinstance(n, ast.Compare) and len(n.ops) == 1:
            src = astq.canon(astq.inline_locals(cn, n))
            if "len(set(names))" in src and "len(names)" in src and isinstance(n.ops[0], (ast.NotEq, ast.Lt, ast.Gt, ast.Eq)):
                kinds.add("unique")
            if isinstance(n.ops[0], (ast.In, ast.NotIn)) and astq.const_value(n.left) == "__":
                kinds.add("separator")
        if isinstance(n, ast.Call) and astq.call_name(n) in ("intersection", "isdisjoint") and "get_params" in astq.canon(n):
            kinds.add("ctor-conflict")
        if isinstance(n, ast.BinOp) and isinstance(n.op, ast.BitAnd) and "get_params" in astq.canon(n):
            kinds.add("ctor-conflict")
    bypass = []
    for node in g2.nodes:
        if node.id in g2.reachable() and isinstance(node.stmt, ast.Raise):
            top = next((st for st in cn.body if any(x is node.stmt for x in ast.walk(st))), None)
            if top is None:
                continue
            head = g2.node_of(top.test) if isinstance(top, (ast.If, ast.While)) else (g2.node_of(top.iter) if isinstance(top, ast.For) else g2.node_of(top))
            if head is not None and not g2.must_pass(lambda n, head=head: n is head):
                bypass.append(getattr(top, "lineno", "?"))
    ctx.check(not bypass, "R5", "_check_names:no-bypass", "every rejecting test is reached on every path (no early return around the checks)",
              "_check_names can return without evaluating the rejecting test(s) at line %s (an early return bypasses name validation for some inputs)"
              % sorted(set(bypass)), ctx.loc(mod, cn))
    ctx.check(kinds == {"unique", "ctor-conflict", "separator"} and n_raise >= 3, "R5", "_check_names",
              "rejects duplicate names, names equal to constructor arguments, names containing `__`",
              "_check_names: tests found %s, %d raise sites (need unique, ctor-conflict, separator with one rejection each)" % (sorted(kinds), n_raise),
              ctx.loc(mod, cn))
    from . import _c20_oracle as _orc
    _orc.run_all(ctx, repo, rule="R5", only={"_check_names"})
    from ._c20_specs import check_names as _check_names_spec, check_names_callers as _check_names_callers
    _check_names_spec(ctx, repo, rule="R5")
    _check_names_callers(ctx, repo, rule="R5")
    _meta_exact(ctx, repo, meta, mod, gp, sp)
    # composites: get_params / set_params pass the same attribute, which is a constructor parameter (or property over one)
    n = 0
    for c in repo.subclasses(meta):
        gpm, spm = c.methods.get("get_params"), c.methods.get("set_params")
        if gpm is None and spm is None:
            continue
        n += 1
        ga = _attr_literal(gpm, "_get_params")
        sa_ = _attr_literal(spm, "_set_params")
        params = ctor_params(repo, c)
        propnames = _properties(repo, c)
        ok = ga is not None and ga == sa_ and (ga in params or ga.lstrip("_") in params or ga in propnames)
        ctx.check(ok, "R5", c.qual + ":plumbing", "get_params/set_params use attribute %r, a constructor parameter" % ga,
                  "get_params uses %r, set_params uses %r; constructor parameters: %s" % (ga, sa_, sorted(params)),
                  ctx.loc(c.module, gpm or spm))
        if ga is not None and ga not in params and ga in propnames:
            _component_view(ctx, repo, c, ga, params)
        for m, helper in ((gpm, "_get_params"), (spm, "_set_params")):
            if m is None:
                continue
            cs = [x for x in astq.calls(m) if astq.call_name(x) == helper]
            fwd = True
            if helper == "_get_params":
                fwd = bool(cs) and any((k.arg == "deep" and dotted(k.value) == "deep") for k in cs[0].keywords) or \
                    (bool(cs) and len(cs[0].args) >= 2 and dotted(cs[0].args[1]) == "deep")
            else:
                fwd = bool(cs) and any(k.arg is None and dotted(k.value) in ("params", "kwargs") for k in cs[0].keywords)
            rets = astq.returns(m)
            ret_ok = bool(rets) and all(
                (isinstance(r.value, ast.Call) and astq.call_name(r.value) == helper) or
                (helper == "_set_params" and dotted(r.value) == "self") for r in rets)
            ctx.check(fwd and ret_ok, "R5", "%s:%s" % (c.qual, m.name), "%s forwards its arguments to %s and returns its result" % (m.name, helper),
                      "%s.%s does not forward deep/**params to %s or does not return its result" % (c.name, m.name, helper), ctx.loc(c.module, m))
    ctx.count("R5_composites", n)


def _meta_exact(ctx, repo, meta, mod, gp, sp):
    """Exact clauses on the nested get/set helpers, read off path conditions and dataflow."""
    from ..boolx import Atomizer as At, PathConditions as PC, equivalent as eqv, atom as A, neg as N, show as sh
    # _get_params: the component expansion runs exactly when `deep` is on, and the same dict is returned on every path
    outn = _param_dict_name(gp)

    def _expands(st):
        return not isinstance(st, (ast.If, ast.For, ast.While, ast.With, ast.Try)) and (
            any(astq.call_name(c) == "update" and isinstance(c.func, ast.Attribute) and dotted(c.func.value) == outn for c in astq.calls(st))
            or (isinstance(st, ast.Assign) and any(isinstance(t, ast.Subscript) and dotted(t.value) == outn for t in st.targets)))
    pc = PC(gp, At(), mark=_expands)
    loc = ctx.loc(mod, gp)
    if not pc.marked or not pc.return_sites:
        ctx.undecided("R5", "_get_params:deep-switch", "no expansion of / return from the parameter dict found", loc)
    else:
        from ..boolx import evaluate as _evl, atoms_of as _ato, disj as _dj0
        from itertools import product as _prod
        bad = None
        for st, _c in pc.return_sites:
            if dotted(st.value) != outn:
                bad = "returns `%s`, not the parameter dict" % (ast.unparse(st.value) if st.value is not None else None)
        upd = [c for st, c in pc.marked if any(astq.call_name(x) == "update" for x in astq.calls(st))]
        cond = ("const", False)
        for c in upd:
            cond = _dj0(cond, c)
        ats = sorted(_ato(cond))
        if bad is None and "deep" not in ats:
            bad = "the component expansion does not depend on `deep` (runs under %s)" % sh(cond)
        if bad is None:
            others = [a for a in ats if a != "deep"]
            for d in (False, True):
                got = {bool(_evl(cond, dict(zip(others, vals), deep=d))) for vals in _prod((False, True), repeat=len(others))}
                if got != {d}:
                    bad = "with deep=%s the components are %s" % (d, "expanded" if True in got else "not expanded")
                    break
        ctx.check(bad is None, "R5", "_get_params:deep-switch", "shallow parameters iff deep is off, component-expanded parameters iff deep is on",
                  "_get_params: %s" % bad, loc, witness={"call": "get_params(deep=True) / get_params(deep=False)"} if bad else None)
    inner = [c for h_ in _helper_scope(meta, gp) for c in ast.walk(h_) if isinstance(c, ast.Call) and astq.call_name(c) == "get_params"
             and isinstance(c.func, ast.Attribute) and not (isinstance(c.func.value, ast.Call) and dotted(c.func.value.func) == "super")
             and dotted(c.func.value) != "self"]
    ok = bool(inner) and all(all(astq.const_value(k.value, "?") is True for k in c.keywords if k.arg == "deep")
                             and all(astq.const_value(a, "?") is True for a in c.args[:1]) for c in inner)
    ctx.check(ok, "R5", "_get_params:component-deep", "each component is asked for its deep parameters",
              "_get_params reads a component's parameters with deep off: `name__sub__param` of a nested composite is not listed", loc)
    # _set_params: the names that select component replacement are the names of the component list read from the attribute
    loc = ctx.loc(mod, sp)
    src_ok = None
    for n in astq.walk_no_nested(sp):
        if isinstance(n, ast.Assign) and isinstance(n.targets[0], (ast.Tuple, ast.List)) and n.targets[0].elts and isinstance(n.value, ast.Call) \
                and astq.call_name(n.value) == "zip" and len(n.value.args) == 1 and isinstance(n.value.args[0], ast.Starred):
            first = dotted(n.targets[0].elts[0])
            src = n.value.args[0].value
            if isinstance(src, ast.Name):
                vals = astq.assigned_values(sp, src.id)
                src = vals[-1] if vals else src
            from_attr = isinstance(src, ast.Call) and astq.call_name(src) == "getattr" and len(src.args) >= 2 \
                and dotted(src.args[0]) == "self" and dotted(src.args[1]) == "attr"
            used = any(isinstance(x, ast.Compare) and len(x.ops) == 1 and isinstance(x.ops[0], (ast.In, ast.NotIn)) and dotted(x.comparators[0]) == first
                       for x in astq.walk_no_nested(sp))
            if used:
                src_ok = from_attr
    ctx.check(src_ok, "R5", "_set_params:names-source", "component names are the first fields of the attribute's current list",
              "the names tested for component replacement are not taken from zip(*getattr(self, attr))" if src_ok is False else
              "no `names, _ = zip(*<component list>)` feeding the `name in names` test: components are never replaced by name", loc)
    # tuner guard: exact conditions
    tuner = repo.cls("sktime/forecasting/model_selection/_tune.py:BaseGridSearch")
    tf = tuner.methods.get("check_is_fitted")
    if tf is not None:
        tloc = ctx.loc(tuner.module, tf)
        pname = astq.param_names(tf, skip_self=True)
        pct = PC(tf, At(), mark=lambda st: isinstance(st, ast.Expr) and isinstance(st.value, ast.Call) and astq.call_name(st.value) == "check_is_fitted"
                 and isinstance(st.value.func.value, ast.Call) and dotted(st.value.func.value.func) == "super")
        nf = ("const", False)
        from ..boolx import disj as _dj, conj as _cj
        for st_, cond_ in pct.raise_sites:
            nm = dotted(st_.exc.func) if isinstance(st_.exc, ast.Call) else dotted(st_.exc)
            if nm and nm.split(".")[-1] == "NotFittedError":
                nf = _dj(nf, cond_)
        if pname:
            spec = _cj(N(A("isnone(%s)" % pname[0])), N(A("self.refit")))
            r, wit = eqv(nf, spec)
            ctx.check(bool(r), "R4", tuner.qual + ".check_is_fitted:refit-guard", "raises NotFittedError iff a method name is given and refit is off",
                      "tuner guard raises NotFittedError iff %s; expected iff %s (differing case %s)" % (sh(nf), sh(spec), wit), tloc, witness=wit)
        pcd = PC(tf, At(), mark=lambda st: isinstance(st, ast.Expr) and isinstance(st.value, ast.Call) and astq.call_name(st.value) == "check_is_fitted"
                 and (dotted(st.value.func.value) or "").startswith("self.") and (dotted(st.value.func.value) or "").endswith("_"))
        dc = ("const", False)
        for _st, _c in pcd.marked:
            dc = _dj(dc, _c)
        if pname:
            r2, wit2 = eqv(dc, _cj(N(A("isnone(%s)" % pname[0])), A("self.refit")))
            ctx.check(bool(r2), "R4", tuner.qual + ".check_is_fitted:inner-guard",
                      "with refit on, the fitted state of the refitted inner forecaster is checked (a tuner switched to refit=True after a "
                      "fit without refit has none)",
                      "the inner forecaster's check_is_fitted runs iff %s; expected iff a method name is given and refit is on: after "
                      "fit(refit=False); set_params(refit=True) the apply-type methods fail with an unrelated error instead of "
                      "NotFittedError (differing case %s)" % (sh(dc), wit2), tloc, witness={"history": "fit with refit=False; set_params(refit=True); predict"})
        # every apply-type member of the tuner hands its own name to the guard (without it the refit check is skipped)
        def _names_guard(f_, depth=2):
            """True / False / None: the guard reached from ``f_`` receives a method name."""
            res = None
            for c_ in astq.calls(f_):
                if not (isinstance(c_.func, ast.Attribute) and dotted(c_.func.value) == "self"):
                    continue
                if c_.func.attr == "check_is_fitted":
                    arg = c_.args[0] if c_.args else next((k.value for k in c_.keywords if k.arg == (pname[0] if pname else "method_name")), None)
                    good = arg is not None and not (isinstance(arg, ast.Constant) and arg.value is None)
                    res = good if res is None else (res and good)
                elif depth > 0 and c_.func.attr in tuner.methods and c_.func.attr != f_.name:
                    h_ = tuner.methods[c_.func.attr]
                    hp = astq.param_names(h_, skip_self=True)
                    inner = [x for x in astq.calls(h_) if isinstance(x.func, ast.Attribute) and dotted(x.func.value) == "self"
                             and x.func.attr == "check_is_fitted"]
                    for x in inner:
                        fwd = dotted(x.args[0]) if x.args else None
                        if fwd in hp:
                            b_ = astq.bind_call(h_, c_, skip_self=True) or {}
                            arg = b_.get(fwd)
                            good = arg is not None and not (isinstance(arg, ast.Constant) and arg.value is None)
                            res = good if res is None else (res and good)
                        elif x.args and not (isinstance(x.args[0], ast.Constant) and x.args[0].value is None):
                            res = True if res is None else res
                        else:
                            res = False
            return res
        for mname_ in APPLY + ("cutoff",):
            mfn = tuner.methods.get(mname_) or (tuner.properties.get(mname_, {}) or {}).get("getter")
            if mfn is None:
                continue
            r3 = _names_guard(mfn)
            if r3 is None:
                continue
            ctx.check(r3, "R4", "%s.%s:guard-names-method" % (tuner.qual, mname_), "the fitted-state guard is called with the method's name",
                      "%s.%s reaches check_is_fitted without a method name: with refit=False the refit check is skipped and the call fails "
                      "with an unrelated error instead of NotFittedError" % (tuner.name, mname_), ctx.loc(tuner.module, mfn),
                      witness={"history": "fit with refit=False; %s(...)" % mname_})
        always = any(eqv(c, ("const", True))[0] for _, c in pct.marked)
        ctx.check(always, "R4", tuner.qual + ".check_is_fitted:base-guard", "the estimator's own fitted-state guard runs unconditionally",
                  "the tuner guard does not call super().check_is_fitted() on every path: an unfitted tuner passes and fails later with an "
                  "unrelated AttributeError", tloc)


def _component_view(ctx, repo, c, attr, params):
    """The attribute handed to _get_params/_set_params is a *property*: a (name, estimator) view over a constructor
    parameter.  get_params/set_params/component replacement are positional over that view, so the getter must list
    every stored component, in order, and the setter must be its positional inverse (zip over the stored list)."""
    prop = None
    for k in repo.mro(c):
        if isinstance(k, ClassInfo) and attr in k.properties:
            prop, owner = k.properties[attr], k
            break
    getter, setter = prop.get("getter"), prop.get("setter")
    key = "%s:component-view" % c.qual
    loc = ctx.loc(owner.module, getter or setter)
    if getter is None or setter is None:
        ctx.violation("R5", key, "property %r lacks a %s: nested set_params cannot write components back" % (
            attr, "getter" if getter is None else "setter"), loc)
        return
    rets = astq.returns(getter)
    if len(rets) != 1 or len([st for st in getter.body if not (isinstance(st, ast.Expr) and isinstance(st.value, ast.Constant))]) != 1:
        ctx.undecided("R5", key, "getter of %r is not a single return expression" % attr, loc)
        return
    v = rets[0].value

    def stored(e):
        d = dotted(e)
        return d[5:] if d and d.startswith("self.") and d[5:] in params else None

    src = None
    if stored(v):
        src = stored(v)
    elif isinstance(v, ast.ListComp) and len(v.generators) == 1 and stored(v.generators[0].iter):
        gen = v.generators[0]
        src = stored(gen.iter)
        if gen.ifs:
            ctx.violation("R5", key, "the (name, estimator) view %r filters the stored components (`if %s`): a filtered-out component is "
                          "invisible to get_params, cannot be replaced by name, and shifts every later component onto the wrong "
                          "entry when the setter zips the view with the stored list" % (attr, ast.unparse(gen.ifs[0])),
                          ctx.loc(owner.module, gen.ifs[0]), witness={"components": "[('a', 'drop', 0), ('b', est, 1)]",
                                                                     "call": "set_params(b=new) / get_params()['a']"})
            return
        tgt = gen.target
        names = [dotted(e) for e in tgt.elts] if isinstance(tgt, ast.Tuple) else []
        elt = [dotted(e) for e in v.elt.elts] if isinstance(v.elt, ast.Tuple) else []
        if len(names) < 2 or elt != names[:2] or None in elt:
            ctx.violation("R5", key, "the view %r does not list (name, estimator) = the first two fields of each stored component "
                          "(element %s from target %s)" % (attr, ast.unparse(v.elt), ast.unparse(tgt)), ctx.loc(owner.module, v))
            return
    else:
        ctx.undecided("R5", key, "getter of %r is neither self.<param> nor a comprehension over it: %s" % (attr, ast.unparse(v)[:80]), loc)
        return
    # setter: self.<src> = [(name, est, rest...) for ((name, est), (_, _, rest...)) in zip(value, self.<src>)]
    val_param = astq.param_names(setter, skip_self=True)
    stores = [st for st in ast.walk(setter) if isinstance(st, ast.Assign) and len(st.targets) == 1 and stored(st.targets[0]) == src]
    sloc = ctx.loc(owner.module, setter)
    if len(stores) != 1 or not val_param:
        ctx.check(None if stores else False, "R5", key, "", "setter of %r does not store back into self.%s" % (attr, src), sloc)
        return
    sv = stores[0].value
    if dotted(sv) == val_param[0]:
        ok = stored(v) is not None
        ctx.check(ok, "R5", key, "view %r is the stored list itself" % attr,
                  "setter stores the (name, estimator) view as the component list although the getter strips fields", sloc)
        return
    good = False
    why = "unrecognised shape"
    if isinstance(sv, ast.ListComp) and len(sv.generators) == 1:
        gen = sv.generators[0]
        z = gen.iter
        if gen.ifs:
            ctx.violation("R5", key, "setter of %r drops components (`if %s`)" % (attr, ast.unparse(gen.ifs[0])), sloc)
            return
        if isinstance(z, ast.Call) and astq.call_name(z) == "zip" and len(z.args) == 2 and dotted(z.args[0]) == val_param[0] \
                and stored(z.args[1]) == src and isinstance(gen.target, ast.Tuple) and len(gen.target.elts) == 2 \
                and all(isinstance(e, ast.Tuple) for e in gen.target.elts) and isinstance(sv.elt, ast.Tuple):
            new_names = [dotted(e) for e in gen.target.elts[0].elts]
            old_names = [dotted(e) for e in gen.target.elts[1].elts]
            elt = [dotted(e) for e in sv.elt.elts]
            good = len(new_names) == 2 and elt[:2] == new_names and elt[2:] == old_names[2:] and len(elt) == len(old_names) \
                and None not in elt
            why = "element %s from %s" % (ast.unparse(sv.elt), ast.unparse(gen.target))
    if good:
        ctx.ok("R5", key, "%r lists every stored component as (name, estimator) in order; the setter zips the new pairs with the "
               "remaining stored fields" % attr, loc)
    elif why == "unrecognised shape":
        ctx.undecided("R5", key, "setter of %r: %s" % (attr, ast.unparse(sv)[:80]), sloc)
    else:
        ctx.violation("R5", key, "setter of %r is not the positional inverse of the getter (%s)" % (attr, why), sloc)


def _reaching_def(stmts, target_stmt, name):
    """Value of the nearest preceding plain assignment to ``name`` in the statement list holding ``target_stmt``."""
    for i, st in enumerate(stmts):
        if st is target_stmt:
            for prev in reversed(stmts[:i]):
                if isinstance(prev, ast.Assign) and any(isinstance(t, ast.Name) and t.id == name for t in prev.targets):
                    return prev.value
                if any(isinstance(n, ast.Name) and n.id == name and isinstance(n.ctx, ast.Store) for n in ast.walk(prev)):
                    return None
            return None
        for field in ("body", "orelse", "finalbody"):
            sub = getattr(st, field, None)
            if isinstance(sub, list) and sub and isinstance(sub[0], ast.stmt):
                r = _reaching_def(sub, target_stmt, name)
                if r is not None:
                    return r
    return None


def _helper_scope(meta, fn, depth=2):
    """``fn`` plus the own helper methods it calls (``self.h`` / ``cls.h`` / ``Class.h``), transitively; nested defs are part of
    each function's tree already."""
    out, work = [fn], [(fn, depth)]
    while work:
        f, d = work.pop()
        if d <= 0:
            continue
        for c in ast.walk(f):
            if isinstance(c, ast.Call) and isinstance(c.func, ast.Attribute) and isinstance(c.func.value, ast.Name) \
                    and c.func.value.id in ("self", "cls", meta.name) and c.func.attr in meta.methods:
                h = meta.methods[c.func.attr]
                if not any(h is x for x in out):
                    out.append(h)
                    work.append((h, d - 1))
    return out


def _param_dict_name(gp):
    """Local name of the parameter dict of a get-params helper: the variable bound to ``super().get_params(...)``."""
    for n in astq.walk_no_nested(gp):
        if isinstance(n, ast.Assign) and len(n.targets) == 1 and isinstance(n.targets[0], ast.Name) and isinstance(n.value, ast.Call) \
                and astq.call_name(n.value) == "get_params" and isinstance(n.value.func, ast.Attribute) \
                and isinstance(n.value.func.value, ast.Call) and dotted(n.value.func.value.func) == "super":
            return n.targets[0].id
    return "out"


def _format_sep(key):
    """Separator between the two placeholders of a `name<sep>key` key expression."""
    if isinstance(key, ast.BinOp) and isinstance(key.op, ast.Mod) and isinstance(key.left, ast.Constant) and isinstance(key.left.value, str):
        parts = key.left.value.split("%s")
        if len(parts) == 3 and parts[0] == "" and parts[2] == "":
            return parts[1]
    if isinstance(key, ast.JoinedStr):
        lits = [v.value for v in key.values if isinstance(v, ast.Constant)]
        fv = [v for v in key.values if isinstance(v, ast.FormattedValue)]
        if len(fv) == 2 and len(lits) == 1:
            return lits[0]
    if isinstance(key, ast.Call) and astq.call_name(key) == "format" and isinstance(key.func.value, ast.Constant):
        import re as _re
        parts = _re.sub(r"\{[01]?(![sra])?(:[^{}]*)?\}", "{}", key.func.value.value).split("{}")
        if len(parts) == 3 and parts[0] == "" and parts[2] == "":
            return parts[1]
    if isinstance(key, ast.BinOp) and isinstance(key.op, ast.Add):
        flat = []

        def fl(x):
            if isinstance(x, ast.BinOp) and isinstance(x.op, ast.Add):
                fl(x.left)
                fl(x.right)
            else:
                flat.append(x)
        fl(key)
        lits = [x.value for x in flat if isinstance(x, ast.Constant) and isinstance(x.value, str)]
        if len(flat) == 3 and len(lits) == 1 and isinstance(flat[1], ast.Constant):
            return lits[0]
    return None


def _attr_literal(m, helper):
    if m is None:
        return None
    for c in astq.calls(m):
        if astq.call_name(c) == helper and c.args and isinstance(c.args[0], ast.Constant) and isinstance(c.args[0].value, str):
            return c.args[0].value
    return None


INTROSPECTION = ("_get_param_names", "get_params", "set_params", "_get_params", "_set_params", "_replace_estimator")


def rule_introspection_stateless(ctx, repo, classes):
    """Parameter introspection is a function of the class's own constructor signature and the instance's attributes:
    a result memoised on the class (or instance) is inherited by subclasses / goes stale (H2)."""
    n = 0
    for c in classes + [repo.cls(SK_BASE)]:
        for mname in INTROSPECTION:
            fn = c.methods.get(mname)
            if fn is None:
                continue
            n += 1
            first = fn.args.args[0].arg if fn.args.args else "self"
            bad = []
            for node in astq.walk_no_nested(fn):
                if isinstance(node, ast.Attribute) and isinstance(node.ctx, ast.Store):
                    d = dotted(node.value) or (astq.canon(node.value) if isinstance(node.value, ast.Call) else "")
                    if d in ("cls", first + ".__class__") or d.startswith("type(") or (first == "cls" and d == "cls"):
                        bad.append(node)
                if isinstance(node, ast.Call) and astq.call_name(node) == "setattr" and node.args and \
                        (dotted(node.args[0]) in ("cls", first + ".__class__") or (isinstance(node.args[0], ast.Call) and astq.call_name(node.args[0]) == "type")):
                    bad.append(node)
            decs = [d for d in (c.decorators.get(mname) or []) if d and ("cache" in d)]
            ctx.check(not bad and not decs, "R5", "%s.%s:not-memoised" % (c.qual, mname), "no result cached on the class",
                      "%s.%s caches its result on the class (%s): subclasses inherit the parent's cached value and get wrong parameter names"
                      % (c.name, mname, ", ".join(sorted({getattr(b, "attr", "setattr") for b in bad}) or decs)), ctx.loc(c.module, fn))
    ctx.count("introspection_methods", n)


def run(ctx):
    from ..boolx import bind_repo as _bind_repo
    _bind_repo(ctx.repo)
    repo = ctx.repo
    flow = Flow(repo)
    ctx.explain("C04: per concrete estimator class (C3 MRO): abstract interpretation of the constructor chain (every argument "
                "stored unchanged), scan of all methods for stores to constructor parameters, CFG must-pass for the fitted flag "
                "and the not-fitted guard on every resolved (class, apply-method) pair, structure of the composite get/set plumbing.")
    ctx.assume("sklearn.base.BaseEstimator.get_params/set_params/clone behave as documented (they read the attribute named like each constructor parameter)")
    ctx.assume("a keyword q=v passed to an external base constructor is stored under q (sklearn contract)")
    classes = repo.estimator_classes()
    sk = [c for c in classes if repo.is_subclass(c, SK_BASE)]
    ctx.count("estimator_classes", len(classes))
    ctx.count("sktime_estimators", len(sk))
    n = rule_R1(ctx, repo, classes)
    rule_R2(ctx, repo, classes)
    rule_R3(ctx, repo, flow, sk)
    rule_R4(ctx, repo, flow, sk)
    rule_R5(ctx, repo, flow)
    rule_introspection_stateless(ctx, repo, classes)
    if len(classes) < 140 or n < 100:
        raise AnalysisError("estimator class discovery collapsed: %d classes, %d constructors" % (len(classes), n))
    ctx.floor("R1", 300)
    ctx.floor("R2", 100)
    ctx.floor("R3", 60)
    ctx.floor("R4", 250)
    ctx.floor("R5", 10)
