"""C11 -- elementary forecasters compute the textbook forecast they document (partial).

Decides (DESIGN 3/C11):
R1 window-length decision table of ``NaiveForecaster.fit``,
R2 step selection, tiling bounds and the drift formula of ``NaiveForecaster._predict_last_window``,
R3 seasonal alignment of the ``last`` / ``mean`` strategies as a congruence modulo ``sp``,
R4 in-sample cutoffs of ``_BaseWindowForecaster._predict_in_sample``,
R5 time-axis origin agreement between fit and predict (polynomial trend, statsmodels adapter),
R6 option forwarding of the statsmodels wrappers (ExponentialSmoothing, AutoETS, ThetaForecaster).

Method as in C05: ``fit`` and ``_predict_last_window`` are interpreted abstractly per scenario
(strategy x sp == 1 / sp > 1 x window_length None / given); the returned array is an index-map
term (window view, NaN padding, row-major reshape, column mean, cyclic tiling, gather by
``fh - 1``).  HOLDS = proved symbolically (affine identity, or congruence modulo ``sp`` using
``w = sp*floor(w/sp) + (w mod sp)``); VIOLATION = the extracted term evaluated on a small
feasible instance draws a forecast from other time points than the specification (witness);
otherwise UNDECIDED.
"""
import ast
from fractions import Fraction

from ..absint import Interp, Frame, State, SelfV, FHV, Vec, Rng, Arr, Tup, K, Opq, Alt, Lin, as_lin_val
from ..index import AnalysisError, ClassInfo, dotted
from ..lin import Facts
from .. import astq
from ._c05_arrays import (Strided, Picks, AInterp, Q, Env, Uneval, Nd, Src, Buf, View, Cat, Flat, Resh2, ColAgg, Tile, Rep, Elem, Ser,
                          SYMDEFS, CONST_VECS, ZERO, ONE, OOB, const_vec, entails, sym_elem, sym_mod, subst_val, vec_len, is_nan)
from .c05 import check_fh_models, check_shift_model, Ob, eq_lin, feasible, nonvacuous, loop_envs, resolve, fmt, witness_text, construct, run_method

NAIVE = "sktime/forecasting/naive.py"
TREND = "sktime/forecasting/trend.py"
SKT = "sktime/forecasting/base/_sktime.py"
SMA = "sktime/forecasting/base/adapters/_statsmodels.py"
EXP = "sktime/forecasting/exp_smoothing.py"
ETS = "sktime/forecasting/ets.py"
THETA = "sktime/forecasting/theta.py"
SPLIT = "sktime/forecasting/model_selection/_split.py"

N, W, SP, T = Lin.sym("n"), Lin.sym("w"), Lin.sym("sp"), Lin.sym("T")
FH = FHV(Vec("fh"), True)
FH0, FHL, LFH = Lin.sym("fh[0]"), Lin.sym("fh[-1]"), Lin.sym("len(fh)")


# ------------------------------------------------------------------------ scenarios
class Scen:
    def __init__(self, strategy, seasonal, window):
        self.strategy, self.seasonal, self.window = strategy, seasonal, window

    @property
    def tag(self):
        return "NaiveForecaster[%s,%s,window_length=%s]" % (self.strategy, "sp>1" if self.seasonal else "sp=1",
                                                           "given" if self.window else "None")

    def sp(self):
        return SP if self.seasonal else ONE

    def wl(self):
        return W if self.window else K(None)

    def expected_window(self):
        """The decision table of R1."""
        if self.strategy == "last":
            return SP if self.seasonal else ONE
        return W if self.window else N

    def facts(self):
        f = Facts()
        f.add_cmp(FH0, ">=", 1, "horizon is out-of-sample")
        f.add_cmp(FH0, "<=", FHL, "horizon is sorted")
        f.add_cmp(LFH, ">=", 1, "horizon is non-empty")
        f.add_cmp(N, ">=", 2 if self.strategy == "drift" else 1, "series is non-empty (two points for a drift line)")
        if self.seasonal:
            f.add_cmp(SP, ">=", 2, "seasonal scenario: sp > 1")
        if self.window and self.strategy == "drift":
            f.add_cmp(W, ">=", 2, "drift rejects window_length == 1 (a line needs two points)")
        return f


def scenarios():
    out = []
    for strategy in ("last", "mean", "drift"):
        for seasonal in (False, True):
            for window in (False, True):
                out.append(Scen(strategy, seasonal, window))
    return out


def grid(sc):
    out = []
    for n in (3, 4, 6, 7, 9):
        for w in ((2, 3, 4, 5, 6) if sc.window else (None,)):
            for sp in ((2, 3, 4) if sc.seasonal else (None,)):
                for fh in ([1], [2], [1, 3], [5], [2, 7]):
                    ints = {"n": n, "T": 30 + n}
                    if w is not None:
                        ints["w"] = w
                    if sp is not None:
                        ints["sp"] = sp
                    out.append(Env(ints, {"fh": list(fh)}))
    return out


# ---------------------------------------------------------------------------- hooks
class Rec:
    def __init__(self):
        self.calls = {}


def make_hooks(rec):
    def hooks(interp, frame, call, fname, args, kwargs, st):
        simple = (fname or "").split(".")[-1]
        if simple == "is_int":
            return K(True)
        if simple == "check_fh":
            a = args[0] if args else kwargs.get("fh")
            if isinstance(a, FHV):
                return a
            la = as_lin_val(a)
            if la is not None and la.is_const():
                return FHV(Vec(const_vec([int(la.const)])), True)
            return Opq("check_fh", [a])
        if simple == "_shift" and args:
            x = as_lin_val(args[0])
            by = as_lin_val(kwargs.get("by", args[1] if len(args) > 1 else ONE))
            if x is not None and by is not None:
                return x + by
            return Opq("_shift", args)
        if simple == "_set_y_X" and isinstance(call.func, ast.Attribute):
            recv = interp.ev(call.func.value, st, frame)
            if isinstance(recv, SelfV):
                recv.attrs["_y"] = args[0] if args else kwargs.get("y")
                recv.attrs["_X"] = (args[1] if len(args) > 1 else kwargs.get("X", K(None)))
                recv.attrs["_cutoff"] = T
                return K(None)
        if simple in ("warn",):
            return K(None)
        ext = interp.ext_name(fname, frame)
        if isinstance(call.func, ast.Attribute) and call.func.attr in ("all", "any") and not args and ext is None:
            recv_ = interp.ev(call.func.value, st, frame)
            if isinstance(recv_, Opq) and recv_.tag == "numpy.isnan":
                ext, args = "numpy." + call.func.attr, [recv_]
        if ext in ("numpy.all", "numpy.any") and args:
            # scenario: the window holds observations (no missing value decides a branch); with rec.partial_nan the window has
            # some, but not only, missing values and observed end points
            a0 = args[0]
            whole = isinstance(a0, Opq) and a0.tag == "numpy.isnan" and a0.args and isinstance(a0.args[0], Nd)
            picks = a0.args[0] if (isinstance(a0, Opq) and a0.tag == "numpy.isnan" and a0.args and isinstance(a0.args[0], Picks)) else None
            mode = getattr(rec, "nan_mode", None)
            if getattr(rec, "partial_nan", False) and whole and ext == "numpy.any":
                return K(True)
            if mode == "all":  # every value of the window is missing
                if whole or picks is not None:
                    return K(True)
            if mode in ("first", "last"):  # exactly that end point of the window is missing
                if whole:
                    return K(ext == "numpy.any")
                if picks is not None:
                    pos = ZERO if mode == "first" else picks.base.shape[0] - 1
                    hit = [p_ == pos for p_ in picks.positions]
                    return K(any(hit) if ext == "numpy.any" else all(hit))
                if isinstance(a0, Opq) and a0.tag == "numpy.isnan":
                    return Opq("isnan-of-uninterpreted-selection", [a0])
            return K(False)
        if ext == "numpy.isnan" and args and isinstance(args[0], Elem) and len(args[0].coords) == 1 and getattr(rec, "nan_mode", None):
            mode = rec.nan_mode
            if mode == "all":
                return K(True)
            e_ = args[0]
            if e_.wraps[0] is None and e_.arr.ndim == 1:
                pos = ZERO if mode == "first" else e_.arr.shape[0] - 1
                return K(e_.coords[0] == pos)
        if ext in ("numpy.isnan", "numpy.isinf"):
            return Opq(ext, args)
        if ext == "numpy.sort" and args and isinstance(args[0], Vec):
            return Vec(args[0].base, args[0].off, True)
        if ext == "numpy.issubdtype":
            return K(True)
        if ext in ("numpy.max", "numpy.amax", "builtins.max") and len(args) == 1:
            a = args[0].vec if isinstance(args[0], FHV) else args[0]
            if isinstance(a, Vec) and a.base in CONST_VECS and not a.neg:
                return Lin.c(max(CONST_VECS[a.base])) + a.off
        return NotImplemented

    return hooks


NO_INLINE = ("is_int", "check_fh", "_shift", "_set_y_X", "_predict_nan", "warn", "_repr", "check_time_index")


def make_interp(repo, rec, scenario=None):
    sc = {"fh.is_all_out_of_sample": True, "fh.is_all_in_sample": False}
    sc.update(scenario or {})
    return AInterp(repo, scenario=sc, hooks=make_hooks(rec), no_inline=NO_INLINE)


# ------------------------------------------------------------------------------- R1
class NaiveRun:
    def __init__(self, repo, sc):
        self.sc = sc
        self.cls = repo.cls(NAIVE + ":NaiveForecaster")
        self.rec = Rec()
        self.it = make_interp(repo, self.rec)
        self.selfv = construct(repo, self.it, self.cls, {"strategy": K(sc.strategy), "window_length": sc.wl(), "sp": sc.sp()})
        self.y = Ser("y", N, T)
        traces, k, fn = run_method(repo, self.it, self.selfv, "fit", {"y": self.y, "X": K(None), "fh": FH}, sc.facts())
        self.fit_cls, self.fit_fn = k, fn
        self.rets = [(s, o[1]) for s, o in traces if o[0] == "return"]
        self.raises = [s for s, o in traces if o[0] == "raise"]
        self.facts = self.rets[0][0].facts if len(self.rets) == 1 else None

    def predict(self, repo):
        traces, k, fn = run_method(repo, self.it, self.selfv, "_predict_last_window", {"fh": FH, "X": K(None)}, self.facts)
        self.pred_cls, self.pred_fn = k, fn
        return traces


def rule_r1(ctx, repo, runs):
    cls = repo.cls(NAIVE + ":NaiveForecaster")
    fn = repo.func(NAIVE, "NaiveForecaster.fit")
    loc = ctx.loc(cls.module, fn)
    for sc in scenarios():
        run = NaiveRun(repo, sc)
        runs[sc.tag] = run
        ctx.count("scenarios")
        if len(run.rets) > 1:
            # several accepting paths under one scenario (e.g. a guard that no longer rejects): none may accept a window longer
            # than the series; everything else needs a single path
            decided = False
            for k_, (s_, _) in enumerate(run.rets[:4]):
                hp = getattr(s_, "heap", {})
                got_ = as_lin_val(hp.get((id(run.selfv), "window_length_")))
                if got_ is None:
                    continue
                for env in feasible(grid(sc), s_.facts):
                    try:
                        if env.eval(got_) > env.eval(N):
                            ctx.violation("R1", sc.tag + ":window<=series", "a window longer than the series is accepted; witness %s"
                                          % witness_text(dict(env.describe(), window=str(env.eval(got_)))), loc,
                                          witness=dict(env.describe(), window=str(env.eval(got_))))
                            decided = True
                            break
                    except Uneval:
                        continue
                if decided:
                    break
            if not decided:
                ctx.undecided("R1", sc.tag + ":accepted", "fit has %d interpretable normal returns for a valid configuration (expected one)"
                              % len(run.rets), loc)
            continue
        if len(run.rets) != 1:
            ctx.undecided("R1", sc.tag + ":accepted", "fit has %d interpretable normal returns for a valid configuration (expected one)"
                          % len(run.rets), loc)
            continue
        envs = feasible(grid(sc), run.facts)
        # every valid configuration of the scenario is accepted (the guards of fit reject nothing the property quantifies over)
        rejected = None
        for env in grid(sc):
            try:
                n_, w_ = env.eval(N), env.eval(sc.expected_window())
                valid = w_ <= n_ and (not sc.seasonal or sc.strategy != "mean" or not sc.window or w_ >= env.eval(SP)) \
                    and (sc.strategy != "drift" or w_ >= 2)
            except Uneval:
                continue
            if valid and env.holds(run.facts) is False:
                rejected = env
                break
        ctx.check(rejected is None, "R1", sc.tag + ":valid-configurations-accepted",
                  "no valid configuration of this scenario is rejected by the guards of fit",
                  "a valid configuration is rejected by fit; witness %s" % (witness_text(rejected.describe()) if rejected else ""), loc,
                  witness=rejected.describe() if rejected else None)
        got = as_lin_val(run.selfv.attrs.get("window_length_"))
        eq_lin(ctx, "R1", sc.tag + ":window_length_", loc, got, sc.expected_window(), run.facts, envs,
               "window_length_ resolved by fit")
        if sc.seasonal and sc.strategy in ("last", "mean"):
            eq_lin(ctx, "R1", sc.tag + ":sp_", loc, as_lin_val(run.selfv.attrs.get("sp_")), SP, run.facts, envs, "sp_ resolved by fit")
        # the window never exceeds the series
        if isinstance(got, Lin):
            ob = Ob(ctx, "R1", sc.tag + ":window<=series", loc)
            proved = entails(run.facts, got - N)
            wit = None
            for env in ([] if proved else envs):
                try:
                    if env.eval(got) > env.eval(N):
                        wit = dict(env.describe(), window=str(env.eval(got)))
                        break
                except Uneval:
                    continue
            ob.settle(proved, wit, "window_length_ <= len(y) on every accepted configuration",
                      "a window longer than the series is accepted")
            if sc.window and sc.strategy != "last":
                sl = run.facts.slack(got - N)
                ctx.check(None if sl is None else sl >= 0, "R1", sc.tag + ":window==series-accepted",
                          "a window as long as the series is accepted", "windows of length len(y)%s and longer are rejected" % (
                              "" if sl is None or sl == -1 else " - %s" % (-sl - 1)), loc, witness={"slack": str(sl)})
        ctx.check(run.selfv.attrs.get("_is_fitted") == K(True), "R1", sc.tag + ":fitted", "fit completes",
                  "fit does not reach the fitted state", loc)
    # drift through a single point is rejected (the scenarios above assume window_length >= 2 for drift)
    rec = Rec()
    it = make_interp(repo, rec)
    selfv = construct(repo, it, cls, {"strategy": K("drift"), "window_length": ONE, "sp": ONE})
    traces, k, f2 = run_method(repo, it, selfv, "fit", {"y": Ser("y", N, T), "X": K(None), "fh": FH}, Scen("drift", False, False).facts())
    ctx.check(bool(traces) and all(o[0] == "raise" for s, o in traces), "R1", "NaiveForecaster[drift,window_length=1]:rejected",
              "drift with window_length == 1 is rejected on every path", "drift with window_length == 1 is accepted (no line through one point)", loc)
    # unknown strategy -> rejected on every path
    rec = Rec()
    it = make_interp(repo, rec)
    selfv = construct(repo, it, cls, {"strategy": K("no-such-strategy"), "window_length": K(None), "sp": ONE})
    traces, k, f2 = run_method(repo, it, selfv, "fit", {"y": Ser("y", N, T), "X": K(None), "fh": FH}, Scen("last", False, False).facts())
    ctx.check(bool(traces) and all(o[0] == "raise" for s, o in traces), "R1", "NaiveForecaster[unknown-strategy]:rejected",
              "an unknown strategy is rejected on every path", "an unknown strategy is not rejected by fit", loc)


# -------------------------------------------------------------------- R2 / R3 helpers
def label(sc, facts):
    """Stable, semantic label of a predict trace (which side of the tiling / padding tests)."""
    parts = []
    if sc.seasonal and sc.strategy in ("last", "mean"):
        if entails(facts, FHL - SP):
            parts.append("max(fh)<=sp")
        elif entails(facts, SP + 1 - FHL):
            parts.append("max(fh)>sp")
        if sc.strategy == "mean":
            wsym = W if sc.window else N
            rem = sym_mod(wsym, SP)
            if entails(facts, 1 - rem):
                parts.append("w%sp>0")
            elif entails(facts, rem):
                parts.append("w%sp=0")
    return "[%s]" % ",".join(parts) if parts else ""


def window_of(sc):
    return sc.expected_window()


def reference_positions(sc, env, h):
    """Positions of the training series the forecast for step h must be drawn from."""
    n = int(env.eval(N))
    w = int(env.eval(window_of(sc)))
    lo = n - w
    if sc.strategy == "last":
        if not sc.seasonal:
            return {n - 1}
        sp = int(env.eval(SP))
        p = n - 1 - ((-h) % sp)
        return {p}
    if sc.strategy == "mean":
        if not sc.seasonal:
            return set(range(lo, n))
        sp = int(env.eval(SP))
        return {p for p in range(lo, n) if (p - (n - 1 + h)) % sp == 0}
    return None


def positions_of(content, q):
    """Set of y-positions a concrete content is computed from, or None if not nameable."""
    content = resolve(content, q)
    if content is None:
        return None
    if content[0] == "src" and content[1] == "y":
        return {int(content[2][0].const)}
    if content[0] == "fill" and content[1] != "nan" and isinstance(content[1], (int, Lin)):
        return {"constant %r" % (content[1],)}
    if content[0] == "mean":
        out = set()
        for m in content[1]:
            p = positions_of(m, q)
            if p is None:
                return None
            out |= p
        return out
    if content[0] == "val" and isinstance(content[1], Opq) and content[1].tag in ("scalar-nanmean", "scalar-mean"):
        a = content[1].args[0]
        n = int(q.env.eval(a.shape[0]))
        out = set()
        for i in range(n):
            c = a.cell([Lin.c(i)], q)
            if c == ("fill", "nan"):
                continue
            p = positions_of(c, q)
            if p is None:
                return None
            out |= p
        return out
    return None


def grid_alignment(sc, term, facts, envs):
    """Witness search: does element j of the returned term use exactly the reference positions of step fh_j?"""
    for env in envs:
        qc = Q(env=env)
        try:
            fh = env.vecs["fh"]
            if int(env.eval(term.shape[0])) != len(fh):
                return dict(env.describe(), returned_length=str(env.eval(term.shape[0])), expected_length=len(fh))
            for j, h in enumerate(fh):
                c = term.cell([Lin.c(j)], qc)
                if c is not None and c[0] in ("oob", "shape-error"):
                    raise Uneval("reported by :in-bounds / :reshape-size")
                got = positions_of(c, qc)
                want = reference_positions(sc, env, h)
                if got is None:
                    return "opaque"
                if got != want:
                    sp = env.ints.get("sp")
                    extra = {}
                    if sp:
                        extra = {"season_used": sorted({p % sp for p in got if isinstance(p, int)}), "season_of_target": (int(env.eval(N)) - 1 + h) % sp}
                    return dict(env.describe(), step=h, used_positions=sorted(got, key=str), expected_positions=sorted(want), **extra)
        except Uneval:
            continue
    return None


# symbolic classification -------------------------------------------------------------
class Cls:
    """Element ``e`` of a 1-d term is drawn from the window positions ``p`` with
    ``p == pos`` (kind 'at') or ``p ≡ pos (mod m)`` over the whole window (kind 'cls')."""

    def __init__(self, kind, pos, m=None, lo=None, hi=None):
        self.kind, self.pos, self.m, self.lo, self.hi = kind, pos, m, lo, hi


def classify(term, e, q):
    """Classify element ``e`` (affine) of ``term``; None if the term is outside the table."""
    if isinstance(term, View) and term.ndim == 1 and len(term.spec) == 1:
        s = term.spec[0]
        if s[0] == "sl" and isinstance(term.base, Src) and term.base.name == "y":
            # a contiguous stretch of the series: positions [off, off + len)
            return Cls("at", s[2] + e, None, s[2], s[2] + term.shape[0])
        if s[0] == "ga":
            inner = q.vec_elem(s[2], e)
            return classify(term.base, inner, q)
        if s[0] == "sl":
            c = classify(term.base, s[2] + e, q)
            if c is not None and c.kind == "at":
                # a sub-stretch of a stretch: its own first / one-past-last positions
                c0 = classify(term.base, s[2], q)
                return Cls("at", c.pos, None, c0.pos, c0.pos + term.shape[0])
            return c
        return None
    if isinstance(term, Tile):
        b = term.base
        m = b.shape[0]
        inner = classify(b, Lin.sym("@e"), q)
        if inner is None:
            return None
        if inner.kind == "at":
            # cyclic reading of a stretch of length m: position ≡ off + e (mod m), one value per class
            if q.eq(inner.hi - inner.lo, m) is not True:
                return None
            return Cls("cls", inner.pos.subst({"@e": e}), m, inner.lo, inner.hi)
        if inner.kind == "cls" and q.eq(inner.m, m) is True:
            return Cls("cls", inner.pos.subst({"@e": e}), m, inner.lo, inner.hi)
        return None
    if isinstance(term, ColAgg) and term.shape and term.axis == 0 and isinstance(term.base, Resh2):
        r = term.base
        m = r.cols
        flat = r.base
        parts = flat.parts if isinstance(flat, Cat) and flat.axis == 0 else [flat]
        start = ZERO
        data = []
        for p in parts:
            if isinstance(p, Buf) and not p.stores and not p.poisoned and (p.fill == "nan" or q.eq(p.shape[0], ZERO) is True):
                start = start + p.shape[0]
                continue
            c = classify(p, Lin.sym("@e"), q)
            if c is None or c.kind != "at":
                return None
            data.append((c, start))
            start = start + p.shape[0]
        if len(data) != 1:
            return None
        c, s0 = data[0]
        # flat position f = s0 + e' holds series position pos(e'); column j collects f ≡ j (mod m)
        pos = c.pos.subst({"@e": e - s0})
        return Cls("cls", pos, m, c.lo, c.hi)
    if isinstance(term, Buf) and term.ndim == 1 and len(term.stores) == 1 and not term.poisoned:
        # one store per season: buf[j] = nan-skipping mean of window[j::m]
        st_ = term.stores[0]
        if len(st_.loops) == 1 and isinstance(st_.loops[0].it, Rng) and st_.loops[0].it.step == ONE and st_.loops[0].it.lo == ZERO \
                and st_.box[0][2] and st_.box[0][0] == st_.loops[0].var and isinstance(st_.value, Opq) \
                and st_.value.tag in ("scalar-nanmean", "scalar-mean") and st_.value.args and isinstance(st_.value.args[0], Strided):
            sd = st_.value.args[0]
            m = st_.loops[0].it.hi
            if q.eq(sd.step, m) is True and sd.start == st_.loops[0].var and q.eq(term.shape[0], m) is True:
                inner = classify(sd.base, Lin.sym("@e"), q)
                if inner is not None and inner.kind == "at":
                    return Cls("cls", inner.pos.subst({"@e": e}), m, inner.lo, inner.hi)
        return None
    if isinstance(term, Rep):
        return None
    return None


def zero_mod(lin, m, facts):
    """``lin ≡ 0 (mod m)`` for the single-symbol modulus ``m`` under ``facts``: multiples of m are dropped,
    x is replaced by (x mod m) where that symbol exists, the rest must be 0."""
    if not (len(m.terms) == 1 and m.const == 0 and list(m.terms.values())[0] == 1):
        return False
    msym = list(m.terms)[0]
    subst = {}
    live = set(lin.symbols())
    for f_, _ in facts.items:
        live |= f_.symbols()
    for name, d in sorted(SYMDEFS.items()):
        if name not in live:
            continue  # only remainders that were computed on this trace
        if d[0] == "mod" and d[2] == m and len(d[1].terms) == 1 and d[1].const == 0 and list(d[1].terms.values())[0] in (1, -1):
            x, c = list(d[1].terms.items())[0]
            if x not in subst:
                subst[x] = Lin.sym(name).scale(c)  # c*x ≡ name  =>  x ≡ c*name   (c = ±1)
    red = lin.subst(subst)
    coef = red.terms.get(msym, 0)
    if coef.denominator != 1:
        return False
    red = red - Lin({msym: coef})
    for name, d in SYMDEFS.items():
        if d[0] == "prod" and name in red.terms and (d[1] == m or d[2] == m) and red.terms[name].denominator == 1:
            red = red - Lin({name: red.terms[name]})
    q = Q(facts)
    if q.eq(red, ZERO) is True:
        return True
    # a remaining multiple of m: red == k*m for k in {-1, 1}
    return q.eq(red, m) is True or q.eq(red, -m) is True


def rule_naive_predict(ctx, repo, runs):
    for tag, run in runs.items():
        sc = run.sc
        if run.facts is None:
            continue
        # missing values at the places the code guards: an all-missing window gives a forecast (NaN), a drift line
        # through a missing end point is refused
        locn = ctx.loc(run.pred_cls.module, run.pred_fn) if hasattr(run, "pred_cls") else None
        for mode in (("all", "first", "last") if sc.strategy == "drift" else ("all",)):
            run.rec.nan_mode = mode
            try:
                tr_m = run.predict(repo)
            finally:
                run.rec.nan_mode = None
            locn = ctx.loc(run.pred_cls.module, run.pred_fn)
            outs = [o[0] for s_, o in tr_m]
            opq_guard = any(isinstance(o[1], Opq) and False for s_, o in tr_m if o[0] == "return")
            if mode == "all":
                ctx.check(("raise" not in outs and "fall" not in outs and "return" in outs) if outs else None, "R2", tag + ":all-missing-window",
                          "a window that holds only missing values yields a forecast (NaN) instead of an error",
                          "a window that holds only missing values %s instead of yielding the NaN forecast"
                          % ("raises" if "raise" in outs else "ends without a forecast"), locn, witness={"window": "[nan, nan, nan, nan]"})
            else:
                ctx.check((True if set(outs) == {"raise"} else (False if "raise" not in outs else None)) if outs else None,
                          "R2", "%s:missing-%s-end-point-refused" % (tag, mode),
                          "a drift line through a missing %s end point is refused" % mode,
                          "the %s end point of the window is missing, yet _predict_last_window %s (a silent all-NaN forecast instead of the "
                          "documented ValueError): the guard must test both ends and reject" % (
                              mode, "returns a value" if "return" in outs else "ends without raising (returns None)"), locn,
                          witness={"window": "[8, 9, 13, nan]" if mode == "last" else "[nan, 9, 13, 10]"})
        # missing values: a window with some (not only) missing values is still forecast from its observed values
        run.rec.partial_nan = True
        try:
            tr_nan = run.predict(repo)
        finally:
            run.rec.partial_nan = False
        locn = ctx.loc(run.pred_cls.module, run.pred_fn)
        nan_rets = [o[1] for s_, o in tr_nan if o[0] == "return" and isinstance(o[1], Opq) and o[1].tag.endswith("_predict_nan")]
        other = [o for s_, o in tr_nan if o[0] == "return" and not (isinstance(o[1], Opq) and o[1].tag.endswith("_predict_nan"))]
        ctx.check(False if nan_rets else (True if other else None), "R2", tag + ":partially-missing-window",
                  "a window with some missing values is forecast from its observed values (no all-NaN shortcut)",
                  "a single missing value in the last window makes _predict_last_window return the all-NaN forecast", locn,
                  witness={"window": "[8, nan, 13, 10]", "returned": "nan for every step"})
        traces = run.predict(repo)
        loc = ctx.loc(run.pred_cls.module, run.pred_fn)
        rets = [(s, o[1]) for s, o in traces if o[0] == "return"]
        falls = [s for s, o in traces if o[0] == "fall"]
        if not rets:
            if falls and not [1 for s_, o in traces if o[0] == "raise"]:
                ctx.violation("R2", tag + ":returns", "for a valid configuration every path of _predict_last_window ends without returning a "
                              "forecast (None is returned)", loc, witness={"scenario": tag})
            else:
                ctx.undecided("R2", tag + ":returns", "no normal return of _predict_last_window under this scenario", loc)
            continue
        if falls:
            ctx.undecided("R2", tag + ":falls-through", "_predict_last_window may end without returning a forecast on a path the scenario facts do not exclude", loc)
        seen = {}
        for s, ret in rets:
            lab = label(sc, s.facts)
            k = tag + lab
            seen[k] = seen.get(k, 0) + 1
            if seen[k] > 1:
                k = "%s#%d" % (k, seen[k])
            envs = feasible(grid(sc), s.facts)
            nonvacuous(ctx, "R2", k, loc, envs)
            if sc.strategy == "drift":
                check_drift(ctx, k, loc, ret, sc, s.facts, envs)
                continue
            if not (isinstance(ret, Nd) and ret.ndim == 1):
                ctx.undecided("R2", k + ":returns", "returned value is not a 1-d array term: %r" % (ret,), loc)
                continue
            eq_lin(ctx, "R2", k + ":length", loc, ret.shape[0], LFH, s.facts, envs, "length of the returned forecast array")
            check_reshapes(ctx, k, loc, ret, s.facts, envs)
            check_padding(ctx, k, loc, ret, s.facts)
            if sc.strategy == "mean":
                check_nan_aware(ctx, k, loc, ret)
            check_selection(ctx, k, loc, ret, sc, s.facts, envs)


def reshapes_of(term, out=None):
    out = [] if out is None else out
    if isinstance(term, Resh2):
        out.append(term)
        reshapes_of(term.base, out)
    elif isinstance(term, (View, Tile, ColAgg, Flat)):
        reshapes_of(term.base, out)
    elif isinstance(term, Cat):
        for p in term.parts:
            reshapes_of(p, out)
    return out


def equal_multiples(a, b, m, facts):
    """a == b because both are multiples of m and |a - b| < m (unique multiple in a window of m integers)."""
    q = Q(facts)
    if q.eq(a, b) is True:
        return True
    def mult(x):
        if zero_mod(x, m, facts):
            return True
        return len(x.terms) == 1 and x.const == 0 and SYMDEFS.get(list(x.terms)[0], ("",))[0] == "prod" \
            and m in SYMDEFS[list(x.terms)[0]][1:] and list(x.terms.values())[0] == 1
    return mult(a) and mult(b) and entails(facts, a - b - m + 1) and entails(facts, b - a - m + 1)


def check_reshapes(ctx, k, loc, ret, facts, envs):
    for i, r in enumerate(reshapes_of(ret)):
        total = r.base.shape[0]
        want = None
        from ._c05_arrays import product_with_facts, mul_lin
        f = facts.copy()
        prod = mul_lin(r.rows, r.cols) if (r.rows.is_const() or r.cols.is_const()) else product_with_facts(r.rows, r.cols, f)
        proved = equal_multiples(total, prod, r.cols, f)
        wit = None
        for env in ([] if proved else envs):
            try:
                a, b = env.eval(total), env.eval(r.rows) * env.eval(r.cols)
            except Uneval:
                continue
            if a != b:
                wit = dict(env.describe(), elements=str(a), rows=str(env.eval(r.rows)), columns=str(env.eval(r.cols)))
                break
        Ob(ctx, "R2", "%s:reshape-size%s" % (k, "#%d" % i if i else ""), loc).settle(
            proved, wit, "the padded window has exactly rows x sp elements (%r == %r)" % (total, prod),
            "the padded window (%r elements) cannot be reshaped to %r x %r" % (total, r.rows, r.cols))


def paddings_of(term, out=None):
    out = [] if out is None else out
    if isinstance(term, Cat):
        for p in term.parts:
            if isinstance(p, Buf) and not p.stores:
                out.append(p)
            else:
                paddings_of(p, out)
    elif isinstance(term, (View, Tile, ColAgg, Flat, Resh2)):
        paddings_of(term.base, out)
    return out


def aggregates_of(term, out=None, depth=0):
    out = [] if out is None else out
    if depth > 8:
        return out
    if isinstance(term, ColAgg):
        out.append(getattr(term, "kind", "nanmean"))
        aggregates_of(term.base, out, depth + 1)
    elif isinstance(term, Opq) and term.tag in ("scalar-nanmean", "scalar-mean"):
        out.append(term.tag[len("scalar-"):])
    elif isinstance(term, Rep):
        aggregates_of(term.value, out, depth + 1)
    elif isinstance(term, Buf):
        for st_ in term.stores:
            aggregates_of(st_.value, out, depth + 1)
    elif isinstance(term, Cat):
        for p_ in term.parts:
            aggregates_of(p_, out, depth + 1)
    elif isinstance(term, (View, Tile, Flat, Resh2, Strided)):
        aggregates_of(term.base, out, depth + 1)
    return out


def check_nan_aware(ctx, k, loc, ret):
    """The mean strategy averages the *observed* values: every aggregate of window values must skip missing values."""
    kinds = aggregates_of(ret)
    if not kinds:
        return
    ctx.check(all(x == "nanmean" for x in kinds), "R2", k + ":mean-skips-missing-values",
              "window values are averaged with the NaN-skipping mean",
              "window values are averaged with a plain mean: one missing value in a season turns that season's forecast into NaN "
              "instead of the mean of the observed values", loc, witness={"season_values": "[8, nan, 13]", "forecast": "nan", "expected": "10.5"})


def check_padding(ctx, k, loc, ret, facts):
    """Cells appended only to complete the last row must be NaN (nanmean skips them)."""
    for i, p in enumerate(paddings_of(ret)):
        if Q(facts).eq(p.shape[0], ZERO) is True:
            continue
        ctx.check(p.fill == "nan", "R3", "%s:padding-is-nan%s" % (k, "#%d" % i if i else ""),
                  "the padding that completes the last row is NaN (skipped by nanmean)",
                  "the padding that completes the last row is %r, which enters the seasonal means" % (p.fill,), loc,
                  witness={"fill": repr(p.fill), "length": repr(p.shape[0])})


def gather_of(term):
    if isinstance(term, View) and term.ndim == 1 and len(term.spec) == 1 and term.spec[0][0] == "ga":
        return term.spec[0][2], term.base
    return None, None


def check_selection(ctx, k, loc, ret, sc, facts, envs):
    """R2 (step selection / bounds) and R3 (alignment) of the last / mean strategies."""
    w = window_of(sc)
    lazy = {}

    def witness():
        if "w" not in lazy:
            lazy["w"] = grid_alignment(sc, ret, facts, envs)
        return lazy["w"]

    if not sc.seasonal:
        # constant forecast: last value / window mean repeated len(fh) times
        proved = False
        if isinstance(ret, Rep):
            q = Q(facts.copy())
            v = ret.value
            if sc.strategy == "last" and isinstance(v, Elem):
                proved = resolve(("val", v), q) == ("src", "y", (N - 1,))
            elif sc.strategy == "mean" and isinstance(v, Opq) and v.tag == "scalar-nanmean" and isinstance(v.args[0], Nd) and v.args[0].ndim == 1:
                a = v.args[0]
                c = Lin.sym("c")
                q.facts.add_cmp(c, ">=", 0)
                q.facts.add_cmp(c, "<=", w - 1)
                proved = q.eq(a.shape[0], w) is True and a.cell([c], q) == ("src", "y", (N - w + c,))
        Ob(ctx, "R2", k + ":value", loc).settle(
            proved, None if proved else witness(), "every step returns %s" % ("the last observation y[n-1]" if sc.strategy == "last" else "the NaN-skipping mean of the last window y[n-w .. n-1]"),
            "the constant forecast is not %s" % ("the last observation" if sc.strategy == "last" else "the mean of the last window"))
        return
    vec, base = gather_of(ret)
    if vec is None:
        wit = witness()
        Ob(ctx, "R2", k + ":step-selection", loc).settle(False, wit if wit is not None else "opaque", "", "the forecast is not selected from a per-season table by step")
        return
    # R2: when element e of the table is (provably) the forecast of step e + 1, the table must be read at fh - 1
    e = Lin.sym("e")
    fe = facts.copy()
    fe.add_cmp(e, ">=", 0)
    ct = classify(base, e, Q(fe)) if isinstance(base, Nd) else None
    if ct is not None and zero_mod(ct.pos - (N + e), SP, fe):
        ctx.check(vec == Vec("fh", -1), "R2", k + ":step-index", "element e of the per-season table is the forecast of step e + 1 and it is read at fh - 1",
                  "element e of the per-season table is the forecast of step e + 1, but it is read at %r (step h must read h - 1)" % (vec,), loc,
                  witness={"index": repr(vec)})
    ob = Ob(ctx, "R2", k + ":in-bounds", loc)
    f = facts.copy()
    q = Q(f)
    top = q.vec_elem(vec, LFH - 1)
    proved = isinstance(base, Nd) and base.ndim == 1 and entails(f, top + 1 - base.shape[0]) and entails(f, -q.vec_elem(vec, ZERO))
    bw = None
    if not proved:
        for env in envs:
            try:
                ln = env.eval(base.shape[0])
                for h in env.vecs["fh"]:
                    idx = h + env.eval(vec.off)
                    if not (0 <= idx < ln):
                        bw = dict(env.describe(), step=h, index=str(idx), table_length=str(ln))
                        break
            except Uneval:
                continue
            if bw:
                break
    ob.settle(proved, bw, "every requested step reads inside the (tiled) per-season table",
              "a requested step reads outside the per-season table")
    # R3: congruence
    j = Lin.sym("j")
    f2 = facts.copy()
    f2.add_cmp(j, ">=", 0)
    f2.add_cmp(j, "<=", LFH - 1)
    q2 = Q(f2)
    c = classify(ret, j, q2)
    proved = False
    why = "term outside the classification table"
    if c is not None:
        h = q2.vec_elem(Vec("fh"), j)
        target = N - 1 + h
        m = c.m if c.m is not None else SP
        residual = c.pos - target
        if c.kind == "cls":
            whole = q2.eq(c.lo, N - w) is True and q2.eq(c.hi, N) is True
            proved = q2.eq(m, SP) is True and zero_mod(residual, SP, f2) and whole
            why = "positions ≡ %r, target ≡ %r (mod sp); window [%r, %r)" % (c.pos, target, c.lo, c.hi)
        else:
            # exact position: must be the latest one of the season inside the window of length sp
            whole = q2.eq(c.lo, N - w) is True and q2.eq(c.hi, N) is True and q2.eq(c.hi - c.lo, SP) is True
            inside = entails(f2, c.lo - c.pos) and entails(f2, c.pos + 1 - c.hi)
            proved = zero_mod(residual, SP, f2) and whole and inside
            why = "position %r, target ≡ %r (mod sp)" % (c.pos, target)
    Ob(ctx, "R3", k + ":alignment", loc).settle(
        proved, None if proved else witness(),
        "step h is forecast from the window values of season (n-1+h) mod sp (all of them for `mean`, the latest for `last`): " + why,
        "step h is not forecast from the window values of the season of time n-1+h (%s)" % why)


# drift -----------------------------------------------------------------------------------
def yval(pos):
    """Deterministic, non-affine stand-in for y[pos] (instance evaluation only)."""
    return Fraction(pos * pos * 3 + 7 * pos + 11)


def eval_value(v, env, j):
    """Concrete value of an arithmetic term for step index j."""
    q = Q(env=env)
    if isinstance(v, Lin):
        return env.eval(v)
    if isinstance(v, Elem):
        c = resolve(("val", v), q)
        if c is None or c[0] != "src" or c[1] != "y":
            raise Uneval("elem")
        return yval(int(c[2][0].const))
    if isinstance(v, (Vec, FHV)):
        vec = v.vec if isinstance(v, FHV) else v
        return q.vec_elem(vec, Lin.c(j)).const
    if isinstance(v, Opq) and v.tag == "floordiv" and len(v.args) == 2:
        a, b = eval_value(v.args[0], env, j), eval_value(v.args[1], env, j)
        if b == 0:
            raise Uneval("div0")
        return Fraction(a) // Fraction(b)
    if isinstance(v, Opq) and v.tag in ("add", "sub", "mul", "div") and len(v.args) == 2:
        a, b = eval_value(v.args[0], env, j), eval_value(v.args[1], env, j)
        if v.tag == "add":
            return a + b
        if v.tag == "sub":
            return a - b
        if v.tag == "mul":
            return a * b
        if b == 0:
            raise Uneval("div0")
        return Fraction(a) / Fraction(b)
    if isinstance(v, K) and isinstance(v.v, (int, float)) and not isinstance(v.v, bool):
        return Fraction(v.v)
    raise Uneval("term")


def match_drift(ret, w, q):
    """last + Vec(fh, 0) * ((last - first) / (w - 1)) modulo commutativity of + and *."""
    def is_elem(v, pos):
        return isinstance(v, Elem) and resolve(("val", v), q) == ("src", "y", (pos,))

    def two(v, tag):
        return list(v.args) if isinstance(v, Opq) and v.tag == tag and len(v.args) == 2 else None

    a = two(ret, "add")
    if a is None:
        return False
    for x, y in (a, a[::-1]):
        if not is_elem(x, N - 1):
            continue
        m = two(y, "mul")
        if m is None:
            continue
        for u, v in (m, m[::-1]):
            vec = u.vec if isinstance(u, FHV) else u
            if not (isinstance(vec, Vec) and vec == Vec("fh", 0)):
                continue
            d = two(v, "div")
            if d is None:
                continue
            s = two(d[0], "sub")
            if s is None:
                continue
            den = as_lin_val(d[1])
            if is_elem(s[0], N - 1) and is_elem(s[1], N - w) and den is not None and q.eq(den, w - 1) is True:
                return True
    return False


def check_drift(ctx, k, loc, ret, sc, facts, envs):
    w = window_of(sc)
    q = Q(facts.copy())
    proved = match_drift(ret, w, q)
    wit = None
    for env in envs:
        try:
            n, wv = int(env.eval(N)), int(env.eval(w))
            if wv < 2:
                continue
            for j, h in enumerate(env.vecs["fh"]):
                got = eval_value(ret, env, j)
                last, first = yval(n - 1), yval(n - wv)
                want = last + h * (last - first) / (wv - 1)
                if got != want:
                    wit = dict(env.describe(), step=h, got=str(got), expected=str(want),
                               note="y[p] stands for 3p^2+7p+11")
                    break
        except Uneval:
            wit = "opaque" if not proved else None
            break
        if wit:
            break
    Ob(ctx, "R2", k + ":drift", loc).settle(
        proved, wit, "forecast(h) = y[n-1] + h * (y[n-1] - y[n-w]) / (w - 1): slope through the window end points, coefficient = relative step",
        "the drift forecast is not y[n-1] + h * (y[n-1] - y[n-w]) / (w - 1)")


# ------------------------------------------------------------------------------- R4
def rule_in_sample(ctx, repo):
    cls = repo.cls(NAIVE + ":NaiveForecaster")
    hit = repo.lookup_method(cls, "_predict_in_sample")
    if hit is None:
        raise AnalysisError("NaiveForecaster has no _predict_in_sample")
    k, fn = hit
    loc = ctx.loc(k.module, fn)
    tag = "_BaseWindowForecaster._predict_in_sample"
    seen = {}

    def hooks(interp, frame, call, fname, args, kwargs, st, _base=make_hooks(Rec())):
        simple = (fname or "").split(".")[-1]
        sym = interp.repo.resolve_dotted(frame.module, fname) if fname else None
        if sym is not None and sym.kind == "class" and sym.target.name == "CutoffSplitter":
            init = interp.repo.lookup_method(sym.target, "__init__")[1]
            b = astq.bind_call(init, call, skip_self=True) or {}
            vals = {p: interp.ev(e, st, frame) for p, e in b.items() if isinstance(e, ast.AST)}
            for p, d in astq.param_defaults(init).items():
                if p not in vals:
                    vals[p] = interp.ev(d, st, Frame(sym.module, init))
            seen["splitter"] = (sym.target, vals)
            return Opq("CutoffSplitter")
        if simple == "_predict_moving_cutoff" and isinstance(call.func, ast.Attribute):
            tgt = interp.repo.lookup_method(cls, "_predict_moving_cutoff")[1]
            b = astq.bind_call(tgt, call, skip_self=True) or {}
            seen["moving"] = {p: interp.ev(e, st, frame) for p, e in b.items() if isinstance(e, ast.AST)}
            return Opq("moving-cutoff-predictions")
        return _base(interp, frame, call, fname, args, kwargs, st)

    it = AInterp(repo, scenario={"fh.is_all_in_sample": True, "fh.is_all_out_of_sample": False}, hooks=hooks,
                 no_inline=NO_INLINE + ("_predict_moving_cutoff",))
    ytrain = Ser("y", N, T)
    selfv = SelfV(cls, {"_y": ytrain, "_X": K(None), "_cutoff": T, "window_length_": W, "_fh": FH})
    f = Facts()
    f.add_cmp(FHL, "<=", 0, "horizon is in-sample")
    f.add_cmp(FH0, "<=", FHL, "horizon is sorted")
    f.add_cmp(N, ">=", 1)
    f.add_cmp(W, ">=", 1)
    traces, fst = it.run_function(Frame(k.module, fn, cls, k), {"self": selfv, "fh": FH, "X": K(None)}, State(facts=f))
    if "splitter" not in seen or "moving" not in seen:
        ctx.undecided("R4", tag, "does not build a CutoffSplitter and hand it to _predict_moving_cutoff", loc)
        return
    scls, vals = seen["splitter"]
    cut = vals.get("cutoffs")
    if isinstance(cut, Rng):
        # a progression can only equal fh + len(y) - 2 for contiguous horizons: look for a gapped witness
        wit = None
        for fhv in ([-3, 0], [-2, 0], [-4, -1]):
            env = Env({"n": 9, "w": 2, "T": 30}, {"fh": fhv})
            try:
                lo, hi, stp = int(env.eval(cut.lo)), int(env.eval(cut.hi)), int(env.eval(cut.step))
                got = list(range(lo, hi, stp)) if stp > 0 else None
            except Uneval:
                continue
            want = [h + 9 - 2 for h in fhv]
            if got != want:
                wit = {"n": 9, "fh": fhv, "cutoffs": got, "expected": want}
                break
        if wit:
            ctx.violation("R4", tag + ":cutoffs", "cutoffs are the progression %r; for an in-sample horizon with gaps they are not "
                          "relative fh + len(y) - 2 (predictions are made from the wrong cutoffs and labelled with the requested ones); "
                          "witness %s" % (cut, witness_text(wit)), loc, witness=wit)
        else:
            ctx.undecided("R4", tag + ":cutoffs", "cutoffs are the progression %r" % (cut,), loc)
    else:
        ctx.check(isinstance(cut, Vec) and cut == Vec("fh", N - 2) if isinstance(cut, (Vec, Opq)) else None, "R4", tag + ":cutoffs",
                  "cutoffs = relative fh + len(y) - 2", "cutoffs are %r, expected relative fh + len(y) - 2" % (cut,), loc,
                  witness={"cutoffs": repr(cut)})
    mv = seen["moving"]
    ctx.check(mv.get("y") is ytrain, "R4", tag + ":series", "the moving-cutoff predictions run over the training series",
              "the series handed to _predict_moving_cutoff is %r, not the remembered training series" % (mv.get("y"),), loc)
    ctx.check(mv.get("update_params") == K(False), "R4", tag + ":no-refit", "in-sample predictions do not refit (update_params=False)",
              "update_params is %r" % (mv.get("update_params"),), loc)
    ctx.check(isinstance(mv.get("cv"), Opq) and mv.get("cv").tag == "CutoffSplitter", "R4", tag + ":cv", "the CutoffSplitter is the cv handed over",
              "cv handed over is %r" % (mv.get("cv"),), loc)
    wl = as_lin_val(vals.get("window_length"))
    ctx.check(wl == W if wl is not None else None, "R4", tag + ":window", "the splitter uses window_length_",
              "the splitter window is %r" % (vals.get("window_length"),), loc)
    # semantics of the splitter with these arguments: interpret CutoffSplitter._split
    if not isinstance(cut, Vec):
        return
    it2 = AInterp(repo, scenario={"lit_1.is_all_out_of_sample": True}, hooks=make_hooks(Rec()), no_inline=NO_INLINE + ("_check_y",))
    it2.index_loops = True
    try:
        sself = construct(repo, it2, scls, {p: v for p, v in vals.items()})
    except AnalysisError as e:
        ctx.undecided("R4", tag + ":splitter", str(e), loc)
        return
    f2 = f.copy()
    hit2 = repo.lookup_method(scls, "_split")
    if hit2 is None:
        raise AnalysisError("CutoffSplitter._split missing")
    kk, sfn = hit2
    st_traces, st_final = it2.run_function(Frame(kk.module, sfn, scls, kk), {"self": sself, "y": Arr("y", N, "index")}, State(facts=f2))
    recs = st_final.yields
    if len(recs) != 1 or len(recs[0].loops) != 1:
        ctx.undecided("R4", tag + ":splitter", "CutoffSplitter._split does not yield once per cutoff: %r" % (recs,), ctx.loc(kk.module, sfn))
        return
    rec = recs[0]
    val = rec.value
    lp = rec.loops[0]
    if not (isinstance(val, Tup) and len(val.items) == 2 and isinstance(val.items[0], Rng) and isinstance(val.items[1], Vec)):
        ctx.undecided("R4", tag + ":splitter", "split is not (range, horizon + offset): %r" % (val,), ctx.loc(kk.module, sfn))
        return
    train, test = val.items
    # the public split() that _predict_moving_cutoff iterates clips the windows: position 0 must survive, negatives must go
    hit3 = repo.lookup_method(scls, "split")
    if hit3 is None:
        ctx.undecided("R4", tag + ":clip", "the splitter has no split()", ctx.loc(kk.module, sfn))
    else:
        k3, f3 = hit3
        it3 = AInterp(repo, scenario={"lit_1.is_all_out_of_sample": True}, hooks=make_hooks(Rec()), no_inline=NO_INLINE + ("_check_y",))
        it3.index_loops = True
        s3 = construct(repo, it3, scls, {p_: v_ for p_, v_ in vals.items()})
        _, fin3 = it3.run_function(Frame(k3.module, f3, scls, k3), {"self": s3, "y": Arr("y", N, "index")}, State(facts=f.copy()))
        loc3 = ctx.loc(k3.module, f3)
        parts = None
        if len(fin3.yields) == 1 and isinstance(fin3.yields[0].value, Tup) and len(fin3.yields[0].value.items) == 2:
            parts = fin3.yields[0].value.items
        if parts is None:
            ctx.undecided("R4", tag + ":clip", "split() does not yield one (train, test) pair per inner split: %r" % (fin3.yields,), loc3)
        else:
            from ..absint import Filt
            for nm, part in (("train", parts[0]), ("test", parts[1])):
                c3 = "%s:clip:%s" % (tag, nm)
                if isinstance(part, (Rng, Vec)):
                    ctx.ok("R4", c3, "split() hands the %s window on unclipped" % nm, loc3)
                elif isinstance(part, Filt) and isinstance(part.base, (Rng, Vec)):
                    b = as_lin_val(part.bound)
                    keeps0 = b is not None and b.is_const() and ((part.op == ">=" and b.const == 0) or (part.op == ">" and b.const == -1))
                    if b is not None and b.is_const() and part.op in (">=", ">"):
                        ctx.check(keeps0, "R4", c3, "split() keeps the positions >= 0 of the %s window" % nm,
                                  "split() keeps the %s positions `%s %s`: position 0 is %s, so the in-sample prediction of the second "
                                  "training point (window = position 0 only) %s" % (
                                      nm, part.op, b, "dropped" if (part.op == ">" and b.const >= 0) or (part.op == ">=" and b.const > 0) else "kept but negative positions too",
                                      "gets an empty update and the cutoff does not move"), loc3,
                                  witness={"n": 20, "fh": [-18], "window": [0], "clipped_to": "[]" if not keeps0 else "?"})
                    else:
                        ctx.undecided("R4", c3, "split() filters the %s window with `%s %r`" % (nm, part.op, part.bound), loc3)
                else:
                    ctx.undecided("R4", c3, "split() yields %r for the %s window" % (part, nm), loc3)
    envs = []
    for n in (5, 8):
        for w in (1, 3):
            for fh in ([0], [-1], [-2, 0]):
                envs.append(Env({"n": n, "w": w, "T": 50}, {"fh": fh}))
    q = Q(rec.facts.copy())
    rel = lp.var  # the relative in-sample step being predicted
    new_cutoff = train.hi - 1
    pred_pos = q.vec_elem(test, ZERO) if vec_len(test) == ONE else None
    sloc = ctx.loc(kk.module, sfn)
    eq_lin(ctx, "R4", tag + ":moved-cutoff", sloc, new_cutoff, rel + N - 2, rec.facts, envs,
           "position the cutoff is moved to for relative step r", loops=None)
    if pred_pos is None:
        ctx.undecided("R4", tag + ":predicted-position", "splitter horizon is not the single step 1: %r" % (test,), sloc)
    else:
        ob = Ob(ctx, "R4", tag + ":predicted-position", sloc)
        want = rel + N - 1
        proved = q.eq(pred_pos, want) is True
        wit = None
        if not proved:
            d = pred_pos - want
            if d.is_const():
                wit = {"predicted_position": repr(pred_pos), "expected": repr(want), "offset": str(d.const)}
        ob.settle(proved, wit, "relative in-sample step r is predicted at position len(y) - 1 + r (one step after the moved cutoff)",
                  "relative in-sample step r is predicted at position %r, expected len(y) - 1 + r" % (pred_pos,))
    eq_lin(ctx, "R4", tag + ":one-step", sloc, (pred_pos - new_cutoff) if pred_pos is not None else None, ONE, rec.facts, envs,
           "distance between the moved cutoff and the predicted position")


def rule_moving_cutoff(ctx, repo):
    """R4 (continued): the in-sample predictions rely on ``update`` moving the cutoff to the end of the batch it is
    given (possibly *backwards*), and on ``_predict_moving_cutoff`` handing over the training part of each split."""
    cls = repo.cls(NAIVE + ":NaiveForecaster")
    # (1) _update_predict_single(batch, fh): when _predict runs, the cutoff is the last label of the batch
    hit = repo.lookup_method(cls, "_update_predict_single")
    if hit is None:
        raise AnalysisError("NaiveForecaster has no _update_predict_single")
    k, fn = hit
    loc = ctx.loc(k.module, fn)
    tag = "%s._update_predict_single" % k.name
    seen = {}
    M, TB, C0 = Lin.sym("m"), Lin.sym("Tb"), Lin.sym("c0")

    def hooks(interp, frame, call, fname, args, kwargs, st, _base=make_hooks(Rec())):
        simple = (fname or "").split(".")[-1]
        if simple == "check_y_X":
            return Tup([args[0] if args else kwargs.get("y"), args[1] if len(args) > 1 else kwargs.get("X", K(None))])
        if simple == "_predict" and isinstance(call.func, ast.Attribute):
            recv = interp.ev(call.func.value, st, frame)
            if isinstance(recv, SelfV):
                tgt = interp.repo.lookup_method(cls, "_predict")[1]
                b = astq.bind_call(tgt, call, skip_self=True) or {}
                vals = {p: interp.ev(e, st, frame) for p, e in b.items() if isinstance(e, ast.AST)}
                cut = st.heap.get((id(recv), "_cutoff"), recv.attrs.get("_cutoff")) if hasattr(st, "heap") else recv.attrs.get("_cutoff")
                seen.setdefault("predict", []).append((vals, cut, st.facts.copy()))
                return Opq("forecast")
        return _base(interp, frame, call, fname, args, kwargs, st)

    it = AInterp(repo, scenario={}, hooks=hooks, no_inline=NO_INLINE + ("check_y_X", "_predict"))
    stored = Ser("y", N, T)
    batch = Ser("batch", M, TB)
    one = FHV(Vec(const_vec([1])), True)
    selfv = SelfV(cls, {"_y": stored, "_X": K(None), "_cutoff": C0, "_is_fitted": K(True), "_fh": one, "window_length_": W})
    f = Facts()
    f.add_cmp(M, ">=", 1, "the batch is non-empty")
    f.add_cmp(N, ">=", 1)
    traces, fst = it.run_function(Frame(k.module, fn, cls, k), {"self": selfv, "y": batch, "fh": one, "X": K(None),
                                                                "update_params": K(False)}, State(facts=f))
    preds = seen.get("predict", [])
    if len(preds) != 1:
        ctx.undecided("R4", tag + ":predict", "expected exactly one interpretable self._predict(...) after the update, found %d" % len(preds), loc)
    else:
        vals, cut, pf = preds[0]
        envs = [Env({"n": 8, "m": 3, "T": 20, "Tb": tb, "c0": c0, "w": 2}) for tb in (12, 20, 23) for c0 in (5, 20)]
        if as_lin_val(cut) is None:
            ctx.undecided("R4", tag + ":cutoff-at-predict", "cutoff at prediction time is not interpretable: %r" % (cut,), loc)
        else:
            eq_lin(ctx, "R4", tag + ":cutoff-at-predict", loc, as_lin_val(cut), TB, pf, envs,
                   "cutoff when the forecast is made after update(batch) (must be the last time point of the batch, also when "
                   "the batch ends before the stored series does: in-sample predictions move the cutoff backwards)")
        ctx.check(vals.get("fh") == one, "R4", tag + ":horizon", "the horizon handed in is the one predicted",
                  "_predict receives %r instead of the horizon handed in" % (vals.get("fh"),), loc)
    # (2) _predict_moving_cutoff: each update batch is y.iloc[train part of the split], the horizon is the splitter's
    hit = repo.lookup_method(cls, "_predict_moving_cutoff")
    if hit is None:
        raise AnalysisError("NaiveForecaster has no _predict_moving_cutoff")
    k2, fn2 = hit
    loc2 = ctx.loc(k2.module, fn2)
    tag2 = "%s._predict_moving_cutoff" % k2.name
    seen2 = []

    def hooks2(interp, frame, call, fname, args, kwargs, st, _base=make_hooks(Rec())):
        simple = (fname or "").split(".")[-1]
        if simple == "_update_predict_single" and isinstance(call.func, ast.Attribute):
            tgt = interp.repo.lookup_method(cls, "_update_predict_single")[1]
            b = astq.bind_call(tgt, call, skip_self=True) or {}
            vals_ = {p: interp.ev(e, st, frame) for p, e in b.items() if isinstance(e, ast.AST)}
            recv_ = interp.ev(call.func.value, st, frame)
            vals_["@cutoff"] = st.heap.get((id(recv_), "_cutoff"), getattr(recv_, "attrs", {}).get("_cutoff")) if hasattr(st, "heap") else None
            seen2.append(vals_)
            return Opq("forecast")
        if simple == "_format_moving_cutoff_predictions":
            return Opq("formatted")
        return _base(interp, frame, call, fname, args, kwargs, st)

    it2 = AInterp(repo, scenario={}, hooks=hooks2, no_inline=NO_INLINE + ("_update_predict_single", "_format_moving_cutoff_predictions", "_detached_cutoff"))
    sv2 = SelfV(cls, {"_y": stored, "_X": K(None), "_cutoff": T, "_is_fitted": K(True), "_fh": one, "window_length_": W})
    ypar = Ser("y", N, T)
    cv = Opq("param:cv")
    it2.run_function(Frame(k2.module, fn2, cls, k2), {"self": sv2, "y": ypar, "cv": cv, "X": K(None), "update_params": K(False),
                                                     "return_pred_int": K(False)}, State())
    if len(seen2) != 1:
        ctx.undecided("R4", tag2 + ":update-call", "expected one _update_predict_single site in the split loop, found %d" % len(seen2), loc2)
        return
    a = seen2[0]
    yb = a.get("y")
    c0 = as_lin_val(a.get("@cutoff"))
    if c0 is None:
        ctx.undecided("R4", tag2 + ":initial-cutoff", "cutoff before the first update is %r" % (a.get("@cutoff"),), loc2)
    else:
        eq_lin(ctx, "R4", tag2 + ":initial-cutoff", loc2, c0, ypar.first - 1, Facts(), [],
               "cutoff before the first update (the time point before the data: an empty first window must predict the first time point)")

    def is_train_part(v):
        # y.iloc[ <component 0 of an element of cv.split(y)> ]
        if not (isinstance(v, Opq) and v.tag == "index" and len(v.args) == 2):
            return None
        base, idx = v.args
        if not (isinstance(base, Opq) and base.tag == "attr:iloc" and base.args and base.args[0] is ypar):
            return None if not (isinstance(base, Opq) and base.tag == "attr:iloc") else False
        if not (isinstance(idx, Opq) and idx.tag == "unpack" and len(idx.args) == 2):
            return None
        el, comp = idx.args
        if not (isinstance(el, Opq) and el.tag == "elem" and el.args and isinstance(el.args[0], Opq) and el.args[0].tag == "call:cv.split"):
            return None
        if not (el.args[0].args and el.args[0].args[0] is ypar):
            return False
        return comp == 0

    ctx.check(is_train_part(yb), "R4", tag2 + ":batch", "each update receives y.iloc[training part of the split of y]",
              "the batch handed to the update is %r, not y.iloc[<training part of cv.split(y)>]" % (yb,), loc2)
    fhv = a.get("fh")
    ctx.check(True if (isinstance(fhv, Opq) and fhv.tag == "call:cv.get_fh") else (None if isinstance(fhv, Opq) else False), "R4", tag2 + ":horizon",
              "the splitter's own horizon is predicted after each update", "the horizon predicted after each update is %r, not cv.get_fh()" % (fhv,), loc2)


# ------------------------------------------------------------------------------- R5
def bound_args(fn, call, skip_self=True):
    return astq.bind_call(fn, call, skip_self=skip_self) or {}


def rule_time_axis(ctx, repo):
    cls = repo.cls(TREND + ":PolynomialTrendForecaster")
    mod = cls.module
    fit = repo.func(TREND, "PolynomialTrendForecaster.fit")
    pred = repo.func(TREND, "PolynomialTrendForecaster._predict")
    tag = "PolynomialTrendForecaster"
    fh_cls = repo.cls("sktime/forecasting/base/_fh.py:ForecastingHorizon")
    tai = fh_cls.methods.get("to_absolute_int")
    if tai is None:
        raise AnalysisError("ForecastingHorizon.to_absolute_int missing")
    gd = repo.func("sktime/utils/datetime.py", "_get_duration")
    # ---- fit: regressors are arange(duration(self._y.index) + 1), zero at the first training index
    seen = {}

    def hooks(interp, frame, call, fname, args, kwargs, st, _base=make_hooks(Rec())):
        simple = (fname or "").split(".")[-1]
        sym = interp.repo.resolve_dotted(frame.module, fname) if fname else None
        if sym is not None and sym.kind == "func" and sym.target is gd:
            b = bound_args(gd, call, skip_self=False)
            vals = {p: interp.ev(e, st, frame) for p, e in b.items() if isinstance(e, ast.AST)}
            seen.setdefault("duration", []).append(vals)
            x = vals.get("x")
            if isinstance(x, Opq) and x.tag == "index-of" and vals.get("y") is None and vals.get("coerce_to_int") == K(True):
                return Lin.sym("duration(%s)" % x.args[0])
            return Opq("duration", [x])
        ext = interp.ext_name(fname, frame)
        if ext in ("sklearn.pipeline.make_pipeline", "sklearn.preprocessing.PolynomialFeatures", "sklearn.linear_model.LinearRegression"):
            rec_ = (ext, list(args), dict(kwargs), call)
            seen.setdefault("sk", []).append(rec_)
            return Opq("sk:" + ext.split(".")[-1], [call.lineno])
        if isinstance(call.func, ast.Attribute) and call.func.attr in ("fit", "predict"):
            recv = interp.ev(call.func.value, st, frame)
            if isinstance(recv, Opq) and recv.tag.startswith("sk:"):
                seen.setdefault(call.func.attr, []).append((recv, list(args), dict(kwargs), call))
                return Opq("regressor." + call.func.attr)
        if isinstance(call.func, ast.Attribute) and call.func.attr == "to_absolute_int":
            recv = interp.ev(call.func.value, st, frame)
            b = bound_args(tai, call)
            vals = {p: interp.ev(e, st, frame) for p, e in b.items() if isinstance(e, ast.AST)}
            seen.setdefault("to_absolute_int", []).append((recv, vals, call))
            return Opq("absolute-int-horizon", [recv])
        if isinstance(call.func, ast.Attribute) and call.func.attr == "to_absolute":
            recv = interp.ev(call.func.value, st, frame)
            return Opq("absolute-horizon", [recv] + list(args))
        if isinstance(call.func, ast.Attribute) and call.func.attr == "reshape":
            if [as_lin_val(a) for a in args] != [Lin.c(-1), ONE] or kwargs:
                return Opq("reshape", args)  # only the column reshape(-1, 1) is modelled
        if isinstance(call.func, ast.Attribute) and call.func.attr in ("to_numpy", "reshape"):
            recv = interp.ev(call.func.value, st, frame)
            if isinstance(recv, Opq) and recv.tag in ("absolute-int-horizon", "column"):
                return Opq("column", [recv.args[0] if recv.tag == "column" else recv])
            if isinstance(recv, Rng) and call.func.attr == "reshape":
                return Opq("column", [recv])
        return _base(interp, frame, call, fname, args, kwargs, st)

    class TInterp(AInterp):
        def getattr(self, base, attr, e, st, frame):
            if isinstance(base, Ser) and attr == "index":
                return Opq("index-of", [base.name])
            return super().getattr(base, attr, e, st, frame)

        def index(self, base, idx, e, st, frame):
            if isinstance(base, Opq) and base.tag == "index-of":
                li = as_lin_val(idx)
                if li is not None and li.is_const() and li.const in (0, -1):
                    return Lin.sym("%s.index[%d]" % (base.args[0], int(li.const)))
            return super().index(base, idx, e, st, frame)

    it = TInterp(repo, scenario={}, hooks=hooks, no_inline=NO_INLINE)
    selfv = construct(repo, it, cls, {"regressor": K(None), "degree": Lin.sym("degree"), "with_intercept": Opq("param:with_intercept")})
    ytr = Ser("y", N, T)
    traces, kk, f = run_method(repo, it, selfv, "fit", {"y": ytr, "X": K(None), "fh": FH}, Facts())
    locf = ctx.loc(mod, fit)
    fits = seen.get("fit", [])
    if len(fits) != 1 or len(fits[0][1]) != 2:
        ctx.undecided("R5", tag + ":fit", "expected one regressor_.fit(X, y) call, found %d" % len(fits), locf)
    else:
        Xa, ya = fits[0][1]
        col = Xa.args[0] if isinstance(Xa, Opq) and Xa.tag == "column" and Xa.args else None
        want = Rng(ZERO, Lin.sym("duration(y)") + 1)
        ctx.check(col == want if isinstance(col, Rng) else None, "R5", tag + ":fit-time-axis",
                  "fit regresses on arange(duration(training index) + 1): zero at the first training index, unit steps",
                  "fit regresses on %r, expected arange(0, duration(self._y.index) + 1)" % (col if col is not None else Xa,), locf,
                  witness={"time_axis": repr(col)})
        ctx.check(ya is ytr, "R5", tag + ":fit-target", "the regressor is fitted on the training series",
                  "the regressor is fitted on %r" % (ya,), locf)
    sk = seen.get("sk", [])
    pf = [r for r in sk if r[0].endswith("PolynomialFeatures")]
    if len(pf) != 1:
        ctx.undecided("R5", tag + ":options", "expected one PolynomialFeatures(...) call", locf)
    else:
        kw = pf[0][2]
        ctx.check(as_lin_val(kw.get("degree")) == Lin.sym("degree"), "R5", tag + ":degree", "degree reaches PolynomialFeatures",
                  "PolynomialFeatures(degree=%r) does not receive the `degree` parameter" % (kw.get("degree"),), locf)
        ctx.check(kw.get("include_bias") == Opq("param:with_intercept"), "R5", tag + ":intercept", "with_intercept reaches PolynomialFeatures(include_bias=...)",
                  "PolynomialFeatures(include_bias=%r) does not receive the `with_intercept` parameter" % (kw.get("include_bias"),), locf)
    lr = [r for r in sk if r[0].endswith("LinearRegression")]
    ctx.check(len(lr) == 1 and lr[0][2].get("fit_intercept") == K(False), "R5", tag + ":default-regressor",
              "the default regressor has fit_intercept=False (the bias column carries the intercept)",
              "the default LinearRegression is not created with fit_intercept=False", locf)
    mp = [r for r in sk if r[0].endswith("make_pipeline")]
    good = None
    if len(mp) == 1 and len(mp[0][1]) == 2:
        a0, a1 = mp[0][1]
        good = isinstance(a0, Opq) and a0.tag == "sk:PolynomialFeatures" and isinstance(a1, Opq) and a1.tag == "sk:LinearRegression"
    ctx.check(good, "R5", tag + ":pipeline", "pipeline = polynomial features, then the regressor", "pipeline steps are %r" % ([r[1] for r in mp],), locf)
    # ---- predict
    seen.clear()
    it2 = TInterp(repo, scenario={}, hooks=hooks, no_inline=NO_INLINE)
    selfv.attrs["_y"] = ytr
    selfv.attrs["_cutoff"] = T
    selfv.attrs["_fh"] = FH
    selfv.attrs["regressor_"] = Opq("sk:pipeline")
    traces, kk, f = run_method(repo, it2, selfv, "_predict", {"fh": FH, "X": K(None), "return_pred_int": K(False)}, Facts())
    locp = ctx.loc(mod, pred)
    check_abs_int(ctx, tag + ":predict", locp, seen, "y")
    preds = seen.get("predict", [])
    good = None
    if len(preds) == 1 and len(preds[0][1]) == 1:
        a = preds[0][1][0]
        good = isinstance(a, Opq) and a.tag == "column" and isinstance(a.args[0], Opq) and a.args[0].tag == "absolute-int-horizon"
    ctx.check(good, "R5", tag + ":predict-input", "the regressor is evaluated at the zero-based integer horizon",
              "the regressor is evaluated at %r" % ([p[1] for p in preds],), locp)

    # ---- statsmodels adapter: same origin, first/last step as start/end
    acls = repo.cls(SMA + ":_StatsModelsAdapter")
    ap = repo.func(SMA, "_StatsModelsAdapter._predict")
    seen.clear()

    Y0 = Lin.sym("y.index[0]")

    def hooks2(interp, frame, call, fname, args, kwargs, st):
        if isinstance(call.func, ast.Attribute) and call.func.attr == "predict":
            recv = interp.ev(call.func.value, st, frame)
            if isinstance(recv, Opq) and recv.tag == "fitted-statsmodels":
                b = {}
                names = ["start", "end"]
                for i, a in enumerate(args):
                    if i < len(names):
                        b[names[i]] = a
                b.update(kwargs)
                b["facts"] = st.facts.copy()
                seen.setdefault("sm-predict", []).append(b)
                s_, e_ = as_lin_val(b.get("start")), as_lin_val(b.get("end"))
                if s_ is not None and e_ is not None:
                    # the statsmodels forecast: one value per integer time start .. end
                    return Ser("forecast", e_ - s_ + 1, e_)
                return Opq("sm-forecast")
        if isinstance(call.func, ast.Attribute) and call.func.attr in ("to_pandas", "to_numpy"):
            recv = interp.ev(call.func.value, st, frame)
            if isinstance(recv, Opq) and recv.tag == "absolute-horizon":
                return recv
        ext = interp.ext_name(fname, frame)
        if ext == "pandas.Series":
            return Opq("series", [args[0] if args else kwargs.get("data"), kwargs.get("index", args[1] if len(args) > 1 else None)])
        return hooks(interp, frame, call, fname, args, kwargs, st)

    class SInterp(TInterp):
        def ev_Subscript(self, e, st, frame):
            base = self.ev(e.value, st, frame)
            if isinstance(base, Opq) and base.tag == "absolute-int-horizon" and isinstance(e.slice, ast.List):
                idx = [as_lin_val(self.ev(x, st, frame)) for x in e.slice.elts]
                tas = seen.get("to_absolute_int", [])
                if all(i is not None and i.is_const() and i.const in (0, -1) for i in idx) and tas \
                        and tas[-1][1].get("start") == Y0 and tas[-1][1].get("cutoff") == T and tas[-1][0] == FH:
                    # integer time of the first / last requested step on the axis that is 0 at the first training index
                    return Tup([(FH0 if i.const == 0 else FHL) + T - Y0 for i in idx])
                if all(i is not None and i.is_const() for i in idx):
                    return Tup([Opq("horizon-elem", [base, int(i.const)]) for i in idx])
            return super().ev_Subscript(e, st, frame)

        def getattr(self, base, attr, e_, st, frame):
            if isinstance(base, Ser) and base.name == "forecast" and attr == "index":
                return Opq("index-of", [base])
            return super().getattr(base, attr, e_, st, frame)

    it3 = SInterp(repo, scenario={}, hooks=hooks2, no_inline=NO_INLINE)
    sv = SelfV(acls, {"_y": ytr, "_cutoff": T, "_fh": FH, "_fitted_forecaster": Opq("fitted-statsmodels"), "_is_fitted": K(True)})
    f0 = Facts()
    f0.add_cmp(FH0, "<=", FHL, "horizon is sorted")
    f0.add_cmp(N, "==", T - Y0 + 1, "regular training index: len(y) == last - first + 1")
    tr3, _ = it3.run_function(Frame(acls.module, ap, acls, acls), {"self": sv, "fh": FH, "X": K(None), "return_pred_int": K(False)}, State(facts=f0))
    loca = ctx.loc(acls.module, ap)
    check_abs_int(ctx, "_StatsModelsAdapter:predict", loca, seen, "y")
    sp_ = seen.get("sm-predict", [])
    envs = []
    for fhv in ([1], [2, 3], [-2, 1], [0, 2], [-3, -1]):
        envs.append(Env({"T": 20, "y.index[0]": 5, "n": 16}, {"fh": fhv}))
    good = None
    if len(sp_) == 1:
        s_, e_ = sp_[0].get("start"), sp_[0].get("end")
        if isinstance(s_, Opq) and isinstance(e_, Opq) and s_.tag == e_.tag == "horizon-elem":
            good = s_.args[1] == 0 and e_.args[1] == -1 and s_.args[0] == e_.args[0]
            ctx.check(good, "R5", "_StatsModelsAdapter:start-end", "statsmodels predicts from the first to the last requested step (start=fh[0], end=fh[-1])",
                      "statsmodels predict receives %r" % (sp_,), loca)
        elif as_lin_val(s_) is not None and as_lin_val(e_) is not None:
            pf = sp_[0]["facts"]
            first, last = FH0 + T - Y0, FHL + T - Y0
            ob = Ob(ctx, "R5", "_StatsModelsAdapter:start-end", loca)
            proved = entails(pf, as_lin_val(s_) - first) and entails(pf, last - as_lin_val(e_))
            wit = None
            for env in ([] if proved else envs):
                try:
                    if env.eval(s_) > env.eval(first) or env.eval(e_) < env.eval(last):
                        wit = dict(env.describe(), start=str(env.eval(s_)), end=str(env.eval(e_)), first_requested=str(env.eval(first)),
                                   last_requested=str(env.eval(last)))
                        break
                except Uneval:
                    continue
            ob.settle(proved, wit, "the statsmodels forecast covers the first to the last requested time point",
                      "the statsmodels forecast [start, end] does not cover every requested time point")
        else:
            ctx.undecided("R5", "_StatsModelsAdapter:start-end", "statsmodels predict receives %r" % ({k: v for k, v in sp_[0].items() if k != "facts"},), loca)
    else:
        ctx.undecided("R5", "_StatsModelsAdapter:start-end", "expected one statsmodels predict call, found %d" % len(sp_), loca)
    # what is returned: the requested time points, selected by label or by the right position
    rets = [(st_, o[1]) for st_, o in tr3 if o[0] == "return"]
    c_ = "_StatsModelsAdapter:selection"
    if len(rets) != 1:
        ctx.undecided("R5", c_, "%d normal returns" % len(rets), loca)
    else:
        st_, rv = rets[0]

        def is_abs(v):
            return isinstance(v, Opq) and v.tag == "absolute-horizon" and v.args and v.args[0] == FH and len(v.args) > 1 and v.args[1] == T

        if isinstance(rv, Opq) and rv.tag == "index" and len(rv.args) == 2 and isinstance(rv.args[0], Opq) and rv.args[0].tag == "attr:loc" \
                and rv.args[0].args and isinstance(rv.args[0].args[0], Ser) and rv.args[0].args[0].name == "forecast":
            ctx.check(is_abs(rv.args[1]), "R5", c_, "the requested time points are selected from the statsmodels forecast by label",
                      "the forecast is label-selected with %r, not with the absolute requested horizon" % (rv.args[1],), loca)
        elif isinstance(rv, Opq) and rv.tag == "series" and isinstance(rv.args[0], View) and rv.args[0].ndim == 1 \
                and rv.args[0].spec[0][0] == "ga" and isinstance(rv.args[0].base, Ser) and rv.args[0].base.name == "forecast":
            g = rv.args[0].spec[0][2]
            fc = rv.args[0].base
            start = fc.first  # integer time of position 0 of the forecast
            j = Lin.sym("j")
            q = Q(st_.facts.copy())
            got = start + q.vec_elem(g, j)          # time of the element picked for step j
            want = q.vec_elem(Vec("fh"), j) + T - Y0  # its requested time
            diff = got - want
            proved = q.eq(diff, ZERO) is True and is_abs(rv.args[1])
            wit = None
            for env in ([] if proved else envs):
                try:
                    for jj, h in enumerate(env.vecs["fh"]):
                        d = env.eval(diff.subst({"fh[@j]": Lin.c(h)}))
                        if d != 0:
                            wit = dict(env.describe(), step=h, picked_time=str(env.eval(want.subst({"fh[@j]": Lin.c(h)})) + d),
                                       requested_time=str(env.eval(want.subst({"fh[@j]": Lin.c(h)}))))
                            break
                except Uneval:
                    continue
                if wit:
                    break
            Ob(ctx, "R5", c_, loca).settle(proved, wit, "the value returned for step h is the statsmodels forecast of time cutoff + h",
                                            "the forecast is selected by position %r relative to its own start: for horizons that start "
                                            "in-sample the value returned for step h is not the forecast of time cutoff + h" % (g,))
        else:
            ctx.undecided("R5", c_, "returned value not interpretable: %r" % (rv,), loca)


def check_abs_int(ctx, tag, loc, seen, yname):
    tas = seen.get("to_absolute_int", [])
    if len(tas) != 1:
        ctx.undecided("R5", tag + ":origin", "expected one to_absolute_int call, found %d" % len(tas), loc)
        return
    recv, vals, call = tas[0]
    ctx.check(vals.get("start") == Lin.sym("%s.index[0]" % yname), "R5", tag + ":origin",
              "the integer time axis starts at the first training index (same origin as in fit)",
              "to_absolute_int(start=%r): the origin is not the first training index self._y.index[0]" % (vals.get("start"),), loc,
              witness={"start": repr(vals.get("start"))})
    ctx.check(vals.get("cutoff") == T, "R5", tag + ":cutoff", "relative steps are anchored at self.cutoff",
              "to_absolute_int(cutoff=%r) is not anchored at self.cutoff" % (vals.get("cutoff"),), loc)
    ctx.check(recv == FH, "R5", tag + ":horizon", "the requested horizon is converted",
              "to_absolute_int is applied to %r, not to the requested horizon" % (recv,), loc)


# ------------------------------------------------------------------------------- R6
ALIAS = {"seasonal_periods": "sp"}


def ctor_params(repo, cls):
    hit = repo.lookup_method(cls, "__init__")
    if hit is None:
        return []
    return astq.all_param_names(hit[1], skip_self=True)


def reachable_reads(repo, cls, entry="fit", depth=6):
    """Attributes of self read in methods reachable from ``entry`` (self./super(). calls, nested defs included)."""
    seen_fn, reads = set(), set()

    def visit(k, fn, d):
        if id(fn) in seen_fn or d < 0:
            return
        seen_fn.add(id(fn))
        for n in ast.walk(fn):
            if isinstance(n, ast.Attribute) and isinstance(n.value, ast.Name) and n.value.id == "self" and isinstance(n.ctx, ast.Load):
                reads.add(n.attr)
            if isinstance(n, ast.Call) and isinstance(n.func, ast.Attribute):
                v = n.func.value
                if isinstance(v, ast.Name) and v.id == "self":
                    h = repo.lookup_method(cls, n.func.attr)
                    if h:
                        visit(h[0], h[1], d - 1)
                elif isinstance(v, ast.Call) and dotted(v.func) == "super":
                    h = repo.lookup_method(cls, n.func.attr, after=k)
                    if h:
                        visit(h[0], h[1], d - 1)

    h = repo.lookup_method(cls, entry)
    if h:
        visit(h[0], h[1], depth)
    return reads


def model_calls(repo, mod, fn, ext_prefix):
    """Calls in ``fn`` (nested defs included) whose callee resolves to an external symbol below ``ext_prefix``."""
    out = []
    for n in ast.walk(fn):
        if isinstance(n, ast.Call):
            sym = repo.resolve_expr(mod, n.func)
            if sym is not None and sym.kind == "ext" and sym.dotted.startswith(ext_prefix):
                out.append((n, sym.dotted))
    return out


def self_attr_of(e):
    if isinstance(e, ast.Attribute) and isinstance(e.value, ast.Name) and e.value.id == "self":
        return e.attr
    return None


def mentions_option(e, params):
    """Constructor options read (as self.<p>) anywhere inside expression ``e``."""
    return sorted({n.attr for n in ast.walk(e) if isinstance(n, ast.Attribute) and isinstance(n.value, ast.Name)
                   and n.value.id == "self" and n.attr in params})


def is_none_test(t, attr):
    return (isinstance(t, ast.Compare) and len(t.ops) == 1 and isinstance(t.ops[0], (ast.Is, ast.IsNot))
            and self_attr_of(t.left) == attr and isinstance(t.comparators[0], ast.Constant) and t.comparators[0].value is None)


def check_keywords(ctx, tag, mod, call, params, what, fn=None, kws=None):
    """keyword k=self.a: a must be k (or its alias) and the value must be the option itself (unchanged)."""
    if kws is None:
        kws = [(k.arg, astq.inline_locals(fn, k.value) if fn is not None else k.value) for k in call.keywords if k.arg]
    for kwname, val in kws:
        kw = ast.keyword(arg=kwname, value=val)
        a = self_attr_of(val)
        if a is None:
            opts = mentions_option(val, params)
            if not opts:
                continue
            c = "%s:%s(%s=):unchanged" % (tag, what, kw.arg)
            want = ALIAS.get(kw.arg, kw.arg)
            if isinstance(val, ast.BoolOp) and isinstance(val.op, ast.Or) and self_attr_of(val.values[0]) in params:
                # `self.p or default` replaces *every* falsy option value (0, 0.0, "", False, None) by the default
                ctx.violation("R6", c, "%s receives %s=%s: a truthiness default rewrites every falsy option value (e.g. %s=0 / 0.0 "
                              "reaches the wrapped model as %s), so the model is not fitted with the option that was set"
                              % (what, kw.arg, ast.unparse(val), self_attr_of(val.values[0]), ast.unparse(val.values[-1])),
                              ctx.loc(mod, call), witness={"option": self_attr_of(val.values[0]), "value": "0.0",
                                                           "forwarded": ast.unparse(val.values[-1])})
            elif isinstance(val, ast.IfExp) and len(opts) == 1 and is_none_test(val.test, opts[0]) \
                    and opts[0] == want and (self_attr_of(val.body) == opts[0] or self_attr_of(val.orelse) == opts[0]):
                ctx.ok("R6", c, "%s=%s: only None is replaced by a default" % (kw.arg, ast.unparse(val)), ctx.loc(mod, call))
            elif isinstance(val, ast.IfExp) and len(opts) == 1 and self_attr_of(val.test) == opts[0] \
                    and self_attr_of(val.body) == opts[0]:
                ctx.violation("R6", c, "%s receives %s=%s: a truthiness test rewrites every falsy option value (0, 0.0, '', False)"
                              % (what, kw.arg, ast.unparse(val)), ctx.loc(mod, call), witness={"option": opts[0], "value": "0.0"})
            else:
                ctx.undecided("R6", c, "%s receives %s=%s, a computed value of option(s) %s" % (what, kw.arg, ast.unparse(val), opts),
                              ctx.loc(mod, call))
            continue
        want = ALIAS.get(kw.arg, kw.arg)
        ctx.check(a == want, "R6", "%s:%s(%s=)" % (tag, what, kw.arg), "%s=self.%s" % (kw.arg, a),
                  "%s receives %s=self.%s (expected self.%s)" % (what, kw.arg, a, want), ctx.loc(mod, call),
                  witness={"keyword": kw.arg, "attribute": a})


class _Subst(ast.NodeTransformer):
    def __init__(self, env):
        self.env = env

    def visit_Name(self, node):
        if isinstance(node.ctx, ast.Load) and node.id in self.env:
            import copy
            return copy.deepcopy(self.env[node.id])
        return node


def subst_expr(expr, env):
    import copy
    return _Subst(env).visit(copy.deepcopy(expr)) if env else expr


def forwarding_instances(repo, cls, fn, pred, env=None, nested_root=None, depth=3, seen=None):
    """Calls satisfying ``pred`` in ``fn`` (nested defs included) and in the helper methods it calls through ``self``; the
    parameters of a helper are replaced by the arguments of the call site, one instance per call site.
    Yields (call, positional exprs, [(keyword, expr)], in_nested_def)."""
    env = env or {}
    seen = seen or set()
    nested = set()
    for sub_ in ast.walk(fn):
        if isinstance(sub_, (ast.FunctionDef, ast.Lambda)) and sub_ is not fn:
            nested |= {id(x) for x in ast.walk(sub_)}
    out = []
    for n in ast.walk(fn):
        if not isinstance(n, ast.Call):
            continue
        in_nested = bool(nested_root) or (id(n) in nested)
        if pred(n):
            pos = [subst_expr(astq.inline_locals(fn, a), env) for a in n.args if not isinstance(a, ast.Starred)]
            kws = [(k.arg, subst_expr(astq.inline_locals(fn, k.value), env)) for k in n.keywords if k.arg]
            out.append((n, pos, kws, in_nested))
        elif isinstance(n.func, ast.Attribute) and isinstance(n.func.value, ast.Name) and n.func.value.id == "self" and depth > 0:
            hit = repo.lookup_method(cls, n.func.attr)
            if hit and (id(hit[1]), id(n)) not in seen and hit[1] is not fn:
                b_ = astq.bind_call(hit[1], n, skip_self=True)
                if b_ is None:
                    continue
                env2 = {p_: subst_expr(astq.inline_locals(fn, e_), env) for p_, e_ in b_.items() if isinstance(e_, ast.AST)}
                out += forwarding_instances(repo, cls, hit[1], pred, env2, in_nested, depth - 1, seen | {(id(hit[1]), id(n))})
    return out


def rule_forwarding(ctx, repo):
    # ExponentialSmoothing, AutoETS
    for rel, cname, prefix, fit_kw in ((EXP, "ExponentialSmoothing", "statsmodels.tsa.holtwinters", ()),
                                       (ETS, "AutoETS", "statsmodels.tsa.exponential_smoothing.ets", ())):
        cls = repo.cls(rel + ":" + cname)
        mod = cls.module
        fn = repo.func(rel, cname + "._fit_forecaster")
        params = ctor_params(repo, cls)
        reads = reachable_reads(repo, cls)
        for p in params:
            ctx.check(p in reads, "R6", "%s:reads:%s" % (cname, p), "option `%s` is read when fitting" % p,
                      "constructor option `%s` is never read on the fit path (stored but without effect)" % p, ctx.loc(mod, fn))

        def is_model(n):
            sym = repo.resolve_expr(mod, n.func)
            return sym is not None and sym.kind == "ext" and sym.dotted.startswith(prefix)

        def is_fit(n):
            f_ = n.func
            return isinstance(f_, ast.Attribute) and f_.attr == "fit" and not (isinstance(f_.value, ast.Call) and dotted(f_.value.func) == "super") \
                and dotted(f_.value) != "self"

        calls = forwarding_instances(repo, cls, fn, is_model)
        if not calls:
            ctx.undecided("R6", cname + ":model", "no call of the wrapped statsmodels model found", ctx.loc(mod, fn))
            continue
        yparam = astq.param_names(fn, skip_self=True)[0]

        def role(inst):
            return "auto" if inst[3] else "manual"

        dname = (repo.resolve_expr(mod, calls[0][0].func).dotted or "model").split(".")[-1]
        for inst in calls:
            c, pos, kws, _ = inst
            what = dname + ("[%s]" % role(inst) if len(calls) > 1 else "")
            first = pos[0] if pos else dict(kws).get("endog")
            if isinstance(first, ast.Name) and first.id == yparam:
                good = True if not astq.assigned_in(fn, yparam) else None
            elif isinstance(first, ast.Subscript) and (dotted(first.value) or "").split(".")[0] == yparam:
                good = False  # a selection of the training series
            else:
                good = None
            ctx.check(good, "R6", "%s:%s:data" % (cname, what), "the model is built on the training series handed to _fit_forecaster",
                      "the wrapped model is built on %s, not on the whole `%s` argument" % (ast.unparse(first) if first is not None else "?", yparam),
                      ctx.loc(mod, c))
            check_keywords(ctx, cname, mod, c, params, what, None, kws)
        fits = forwarding_instances(repo, cls, fn, is_fit)
        for inst in fits:
            check_keywords(ctx, cname, mod, inst[0], params, "fit" + ("[%s]" % role(inst) if len(fits) > 1 else ""), None, inst[2])
        if cname == "AutoETS":
            roles_m = sorted(role(i) for i in calls)
            roles_f = sorted(role(i) for i in fits)
            if roles_m != ["auto", "manual"] or roles_f != ["auto", "manual"]:
                ctx.undecided("R6", "AutoETS:branches", "expected the model to be built and fitted once in the automatic and once in the manual branch "
                              "(found model: %s, fit: %s)" % (roles_m, roles_f), ctx.loc(mod, fn))
            else:
                searched = {"error", "trend", "damped_trend", "seasonal"}

                def kwmap(inst, skip):
                    return {k_: astq.canon(v_) for k_, v_ in inst[2] if k_ not in skip}

                ma = [i for i in calls if role(i) == "manual"][0]
                au = [i for i in calls if role(i) == "auto"][0]
                a, b = kwmap(ma, searched), kwmap(au, searched)
                ctx.check(a == b, "R6", "AutoETS:branches:model-options", "automatic and manual branch pass the same non-searched model options",
                          "automatic and manual branch disagree on model options: %r" % (sorted(set(a.items()) ^ set(b.items())),), ctx.loc(mod, fn))
                a, b = kwmap(fits[0], ()), kwmap(fits[1], ())
                ctx.check(a == b, "R6", "AutoETS:branches:fit-options", "automatic and manual branch pass the same fit options",
                          "automatic and manual branch disagree on fit options: %r" % (sorted(set(a.items()) ^ set(b.items())),), ctx.loc(mod, fn))
                # manual branch forwards the four searched options from self, each in its role
                got = {k_: self_attr_of(v_) for k_, v_ in ma[2] if k_ in searched}
                ctx.check(got == {k_: k_ for k_ in searched}, "R6", "AutoETS:manual:searched-options",
                          "the manual branch forwards error/trend/damped_trend/seasonal from the constructor",
                          "the manual branch forwards %r for error/trend/damped_trend/seasonal" % (got,), ctx.loc(mod, fn))
    # ThetaForecaster
    cls = repo.cls(THETA + ":ThetaForecaster")
    mod = cls.module
    fn = repo.func(THETA, "ThetaForecaster.fit")
    params = ctor_params(repo, cls)
    reads = reachable_reads(repo, cls)
    for p in params:
        ctx.check(p in reads, "R6", "ThetaForecaster:reads:%s" % p, "option `%s` is read when fitting" % p,
                  "constructor option `%s` is never read on the fit path" % p, ctx.loc(mod, fn))
    init = repo.func(THETA, "ThetaForecaster.__init__")
    sup = [n for n in ast.walk(init) if isinstance(n, ast.Call) and isinstance(n.func, ast.Attribute) and n.func.attr == "__init__"
           and isinstance(n.func.value, ast.Call) and dotted(n.func.value.func) == "super"]
    es_init = repo.func(EXP, "ExponentialSmoothing.__init__")
    good = None
    if len(sup) == 1:
        b = astq.bind_call(es_init, sup[0], skip_self=True) or {}
        good = dotted(b.get("initial_level")) == "initial_level" and dotted(b.get("sp")) == "sp"
    ctx.check(good, "R6", "ThetaForecaster:super-init", "initial_level and sp reach the exponential-smoothing constructor in their roles",
              "super().__init__ does not receive initial_level / sp in their roles", ctx.loc(mod, init))
    ds = [n for n in ast.walk(fn) if isinstance(n, ast.Call) and (repo.resolve_expr(mod, n.func) or None) is not None
          and repo.resolve_expr(mod, n.func).kind == "class" and repo.resolve_expr(mod, n.func).target.name == "Deseasonalizer"]
    good = None
    if len(ds) == 1:
        kw = {k.arg: k.value for k in ds[0].keywords}
        spv = astq.inline_locals(fn, kw["sp"]) if kw.get("sp") is not None else None
        if isinstance(spv, ast.Call) and dotted(spv.func) == "check_sp" and spv.args and not spv.keywords:
            spv = spv.args[0]  # identity validator (E3 summary)
        good = self_attr_of(spv) == "sp" and isinstance(kw.get("model"), ast.Constant) and kw["model"].value == "multiplicative"
    ctx.check(good, "R6", "ThetaForecaster:deseasonalizer", "the deseasonalizer gets sp and the multiplicative model",
              "Deseasonalizer(...) does not receive sp=self.sp, model='multiplicative'", ctx.loc(mod, fn))


def check_fh_caches(ctx, repo, rule):
    """(H2) conversions of the horizon may be cached only under a key that contains every argument: a repo-local
    caching decorator whose stored value is selected without looking at an argument it forwards to the method serves
    the result of the first cutoff for every later cutoff."""
    cls = repo.cls("sktime/forecasting/base/_fh.py:ForecastingHorizon")
    mod = cls.module
    for name, fn in sorted(cls.methods.items()):
        for dec in fn.decorator_list:
            d = dec.func if isinstance(dec, ast.Call) else dec
            sym = repo.resolve_expr(mod, d)
            c = "ForecastingHorizon.%s:cache-key" % name
            if sym is None or sym.kind != "func":
                continue  # property / staticmethod / functools.lru_cache (keyed by all arguments: external, trusted)
            dfn = sym.target
            outer_params = astq.param_names(dfn)
            inners = [n for n in dfn.body if isinstance(n, ast.FunctionDef)]
            if len(inners) != 1 or not outer_params:
                continue
            w = inners[0]
            meth = outer_params[0]
            calls = [n for n in ast.walk(w) if isinstance(n, ast.Call) and isinstance(n.func, ast.Name) and n.func.id == meth]
            stores = [n for n in ast.walk(w) if isinstance(n, ast.Call) and dotted(n.func) == "setattr" and len(n.args) == 3] + \
                     [n for n in ast.walk(w) if isinstance(n, ast.Assign) and any(isinstance(t, ast.Subscript) for t in n.targets)]
            if not calls or not stores:
                continue  # not a memoising wrapper (e.g. a delegator)
            wparams = astq.all_param_names(w)
            forwarded = set()
            for cl in calls:
                for a in list(cl.args) + [k.value for k in cl.keywords]:
                    for n in ast.walk(a):
                        if isinstance(n, ast.Name) and n.id in wparams:
                            forwarded.add(n.id)
            keyvars = set()
            for st_ in stores:
                if isinstance(st_, ast.Call):
                    key_exprs = [st_.args[0], st_.args[1]]
                else:
                    key_exprs = [t.slice for t in st_.targets if isinstance(t, ast.Subscript)] + [t.value for t in st_.targets if isinstance(t, ast.Subscript)]
                for ke in key_exprs:
                    ke = astq.inline_locals(w, ke)
                    for n in ast.walk(ke):
                        if isinstance(n, ast.Name) and n.id in wparams:
                            keyvars.add(n.id)
            missing = sorted(forwarded - keyvars)
            loc = ctx.loc(sym.module, dfn)
            if missing:
                ctx.violation(rule, c, "%s is wrapped by the caching decorator %s, which stores the result under a key that does not contain "
                              "the argument(s) %s it forwards to the method: after the cutoff moves (update, in-sample moving cutoff, the "
                              "same horizon object used by another forecaster) the conversion for the first cutoff is returned"
                              % (name, dfn.name, missing), loc,
                              witness={"history": "fh.%s(cutoff=23); fh.%s(cutoff=27) returns the value computed for 23" % (name, name),
                                       "ignored_arguments": missing})
            else:
                ctx.ok(rule, c, "the cache of %s is keyed by every forwarded argument" % name, loc)
    ctx.ok(rule, "ForecastingHorizon:cache-decorators", "caching decorators on horizon conversions examined", ctx.loc(mod, cls.node))


def rule_theta_pipeline(ctx, repo):
    """R6 (continued): the theta forecast is SES(deseasonalised y) + drift, re-seasonalised -- decided as dataflow of fit/_predict
    for deseasonalize True / False: what the wrapped exponential smoothing is fitted on, what the trend is computed from, and what
    _predict returns."""
    cls = repo.cls(THETA + ":ThetaForecaster")
    mod = cls.module
    for flag in (True, False):
        tag = "ThetaForecaster[deseasonalize=%s]" % flag
        seen = {}

        def hooks(interp, frame, call, fname, args, kwargs, st, _base=make_hooks(Rec())):
            simple = (fname or "").split(".")[-1]
            if simple == "check_y_X":
                return Tup([args[0] if args else kwargs.get("y"), args[1] if len(args) > 1 else kwargs.get("X", K(None))])
            if simple == "check_sp":
                return args[0] if args else kwargs.get("sp")
            sym = interp.repo.resolve_dotted(frame.module, fname) if fname else None
            if sym is not None and sym.kind == "class" and sym.target.name == "Deseasonalizer":
                return Opq("deseasonalizer")
            if isinstance(call.func, ast.Attribute):
                recv_node = call.func.value
                meth = call.func.attr
                if isinstance(recv_node, ast.Call) and dotted(recv_node.func) == "super":
                    seen.setdefault("super." + meth, []).append((list(args), dict(kwargs)))
                    return Opq("ses-forecast") if meth == "_predict" else K(None)
                recv = interp.ev(recv_node, st, frame)
                if isinstance(recv, Opq) and recv.tag == "deseasonalizer":
                    if meth in ("fit_transform", "transform") and args:
                        return Opq("deseasonalised", [args[0]])
                    if meth == "inverse_transform" and args:
                        return Opq("reseasonalised", [args[0]])
                if isinstance(recv, SelfV) and meth == "_compute_trend":
                    seen.setdefault("trend", []).append(list(args))
                    return Opq("trend")
                if isinstance(recv, SelfV) and meth == "_compute_drift":
                    return Opq("drift")
                if isinstance(recv, SelfV) and meth == "compute_pred_int":
                    return Opq("pred-int")
            return _base(interp, frame, call, fname, args, kwargs, st)

        it = AInterp(repo, scenario={}, hooks=hooks, no_inline=NO_INLINE + ("check_y_X", "check_sp", "_compute_trend", "_compute_drift", "compute_pred_int"))
        selfv = SelfV(cls, {"deseasonalize": K(flag), "sp": SP, "initial_level": K(None), "_fitted_forecaster": Opq("fitted"),
                            "deseasonalizer_": K(None)})
        ypar = Ser("y", N, T)
        fitfn = cls.methods.get("fit")
        predfn = cls.methods.get("_predict")
        if fitfn is None or predfn is None:
            raise AnalysisError("ThetaForecaster.fit/_predict missing")
        f = Facts()
        f.add_cmp(SP, ">=", 2)
        tr, _ = it.run_function(Frame(mod, fitfn, cls, cls), {"self": selfv, "y": ypar, "X": K(None), "fh": FH}, State(facts=f))
        locf = ctx.loc(mod, fitfn)
        want = Opq("deseasonalised", [ypar]) if flag else ypar
        fits = seen.get("super.fit", [])
        if len(fits) != 1:
            ctx.undecided("R6", tag + ":fit-data", "expected one super().fit(...) call, found %d" % len(fits), locf)
        else:
            a, kw = fits[0]
            yv = a[0] if a else kw.get("y")
            ctx.check((yv == want or yv is want) if isinstance(yv, (Opq, Ser)) else None, "R6", tag + ":fit-data",
                      "the exponential smoothing model is fitted on %s" % ("the deseasonalised series" if flag else "the series itself"),
                      "the exponential smoothing model is fitted on %r, expected %s" % (yv, "the deseasonalised series" if flag else "the series itself"), locf)
            ctx.check(kw.get("fh", a[2] if len(a) > 2 else None) == FH, "R6", tag + ":fit-horizon", "the horizon is handed to the wrapped fit",
                      "super().fit does not receive the horizon", locf)
        trs = seen.get("trend", [])
        if len(trs) != 1 or not trs[0]:
            ctx.undecided("R6", tag + ":trend-data", "expected one _compute_trend(y) call", locf)
        else:
            tv = trs[0][0]
            ctx.check((tv == want or tv is want) if isinstance(tv, (Opq, Ser)) else None, "R6", tag + ":trend-data",
                      "the drift slope is estimated on the same series the smoothing model is fitted on",
                      "the drift slope is estimated on %r, the smoothing model is fitted on %s" % (tv, "the deseasonalised series" if flag else "the series"), locf)
        # _predict
        selfv.attrs["deseasonalizer_"] = Opq("deseasonalizer") if flag else K(None)
        tr2, _ = it.run_function(Frame(mod, predfn, cls, cls), {"self": selfv, "fh": FH, "X": K(None), "return_pred_int": K(False)}, State(facts=f))
        locp = ctx.loc(mod, predfn)
        rets = [o[1] for s_, o in tr2 if o[0] == "return"]
        base = None
        good = None
        if len(rets) == 1:
            r = rets[0]
            inner = r.args[0] if (isinstance(r, Opq) and r.tag == "reseasonalised" and r.args) else r
            is_sum = isinstance(inner, Opq) and inner.tag == "add" and len(inner.args) == 2 and \
                {getattr(x, "tag", None) for x in inner.args} == {"ses-forecast", "drift"}
            wrapped = isinstance(r, Opq) and r.tag == "reseasonalised"
            if isinstance(r, Opq) and (r.tag in ("reseasonalised", "add", "ses-forecast", "drift")):
                good = is_sum and (wrapped == flag)
        ctx.check(good, "R6", tag + ":forecast", "_predict returns %s(SES forecast + drift)" % ("reseasonalise" if flag else ""),
                  "_predict returns %r, expected %s(SES forecast + drift)" % (rets, "reseasonalise" if flag else ""), locp,
                  witness={"deseasonalize": flag, "returned": repr(rets)})


def rule_cutoff_restored(ctx, repo):
    """R4: in-sample predictions move the cutoff; when _predict_in_sample returns the forecaster's cutoff is again the one it
    had (otherwise every later predict() is made from the last in-sample cutoff)."""
    cls = repo.cls(NAIVE + ":NaiveForecaster")
    hit = repo.lookup_method(cls, "_predict_in_sample")
    k, fn = hit
    loc = ctx.loc(k.module, fn)
    tag = "%s._predict_in_sample:cutoff-restored" % k.name

    def hooks(interp, frame, call, fname, args, kwargs, st, _base=make_hooks(Rec())):
        simple = (fname or "").split(".")[-1]
        sym = interp.repo.resolve_dotted(frame.module, fname) if fname else None
        if sym is not None and sym.kind == "class" and sym.target.name == "CutoffSplitter":
            return Opq("CutoffSplitter")
        if simple in ("_update_predict_single", "_predict_fixed_cutoff", "_predict", "_format_moving_cutoff_predictions", "_predict_last_window"):
            return Opq("forecast")
        return _base(interp, frame, call, fname, args, kwargs, st)

    it = AInterp(repo, scenario={"fh.is_all_in_sample": True, "fh.is_all_out_of_sample": False}, hooks=hooks,
                 no_inline=NO_INLINE + ("_update_predict_single", "_predict_fixed_cutoff", "_predict", "_format_moving_cutoff_predictions"))
    ytrain = Ser("y", N, T)
    selfv = SelfV(cls, {"_y": ytrain, "_X": K(None), "_cutoff": T, "window_length_": W, "_fh": FH, "_is_fitted": K(True)})
    f = Facts()
    f.add_cmp(FHL, "<=", 0)
    f.add_cmp(FH0, "<=", FHL)
    f.add_cmp(N, ">=", 1)
    f.add_cmp(W, ">=", 1)
    try:
        traces, _ = it.run_function(Frame(k.module, fn, cls, k), {"self": selfv, "fh": FH, "X": K(None)}, State(facts=f))
    except AnalysisError as e:
        ctx.undecided("R4", tag, str(e), loc)
        return
    finals = []
    for s_, o in traces:
        if o[0] in ("return", "fall"):
            finals.append(s_.heap.get((id(selfv), "_cutoff"), selfv.attrs.get("_cutoff")) if hasattr(s_, "heap") else selfv.attrs.get("_cutoff"))
    if not finals:
        ctx.undecided("R4", tag, "no normal return", loc)
        return
    bad = [v for v in finals if not (as_lin_val(v) is not None and as_lin_val(v) == T)]
    if not bad:
        ctx.ok("R4", tag, "when _predict_in_sample returns, the cutoff is the one it had before (moved cutoffs are undone on every path)", loc)
        return
    v = bad[0]
    lv = as_lin_val(v)
    derived = (lv is not None and lv != T) or (isinstance(v, Opq) and v.tag in ("index-elem", "elem", "index"))
    ctx.check(False if derived else None, "R4", tag, "",
              "when _predict_in_sample returns, the cutoff is left at %r instead of being put back: every later predict() forecasts from "
              "the last in-sample cutoff" % (v,), loc, witness={"history": "fit(y); predict(fh=[-2]); predict(fh=[1])", "cutoff_after": repr(v)})


def check_last_window_at_cutoff(ctx, repo):
    """R4 (dependency): in-sample predictions move the cutoff inside the stored series; the window the naive forecaster reads
    must end at that cutoff.  Decided by C05's rule for _get_last_window, evaluated here and reported under this property."""
    from . import c05
    from ..report import Ctx
    sub_ = Ctx("C05", repo, ctx.tier)
    try:
        c05.rule_last_window(sub_, repo)
    except AnalysisError as e:
        ctx.undecided("R4", "_get_last_window", "C05-R3 could not be evaluated: %s" % e, None)
        return
    for r in sub_.results:
        if "[X=given]" in r["construct"]:
            continue  # the naive forecaster ignores exogenous data
        c = "in-sample:" + r["construct"]
        if r["verdict"] == "HOLDS":
            ctx.ok("R4", c, r["detail"], r["loc"])
        elif r["verdict"] == "VIOLATION":
            ctx.violation("R4", c, "with the cutoff moved back for an in-sample prediction: " + str(r["detail"]), r["loc"], r.get("witness"))
        else:
            ctx.undecided("R4", c, r["detail"], r["loc"])


def check_theta_alignment(ctx, repo):
    """R6 (dependency of ThetaForecaster): the forecasts are re-seasonalised by Deseasonalizer._align_seasonal; its alignment
    formula is decided by C13-R4 -- that rule is evaluated here and reported under this property."""
    try:
        from . import c13
        from ..report import Ctx
        sub = Ctx("C13", repo, ctx.tier)
        c13.check_alignment(sub, repo)
    except AnalysisError as e:
        ctx.undecided("R6", "ThetaForecaster:re-seasonalising", "C13-R4 could not be evaluated: %s" % e, None)
        return
    except Exception as e:  # the other property's module is not under this check's control
        ctx.undecided("R6", "ThetaForecaster:re-seasonalising", "C13-R4 could not be evaluated: %r" % (e,), None)
        return
    if not sub.results:
        ctx.undecided("R6", "ThetaForecaster:re-seasonalising", "C13-R4 produced no instance", None)
    for r in sub.results:
        c = "ThetaForecaster:re-seasonalising:" + r["construct"]
        if r["verdict"] == "HOLDS":
            ctx.ok("R6", c, r["detail"], r["loc"])
        elif r["verdict"] == "VIOLATION":
            ctx.violation("R6", c, "the seasonal factors multiplied onto the theta forecasts are misaligned: " + str(r["detail"]), r["loc"], r.get("witness"))
        else:
            ctx.undecided("R6", c, r["detail"], r["loc"])


def run(ctx):
    repo = ctx.repo
    ctx.explain("C11: NaiveForecaster.fit/_predict_last_window interpreted abstractly for 12 scenarios (strategy x sp x window); "
                "window-length decision table (R1), step index fh-1, tiling bounds and drift formula (R2), seasonal alignment as a "
                "congruence modulo sp over an index-map term (window view, NaN padding, reshape, column mean, tiling, gather) with "
                "instance witnesses (R3); in-sample cutoffs composed with CutoffSplitter._split (R4); time-axis origin agreement of "
                "the polynomial trend forecaster and the statsmodels adapter (R5); option forwarding to statsmodels (R6).")
    ctx.assume("numpy hstack/full/reshape (row-major)/nanmean(axis=0)/tile/repeat and fancy indexing as documented")
    ctx.assume("ForecastingHorizon.to_relative/to_indexer/to_absolute_int as decided under C02; pandas .loc[a:b] inclusive on the training index")
    ctx.assume("numerical agreement with least squares / statsmodels is not decided; missing values inside the window are outside the scenarios")
    runs = {}
    rule_r1(ctx, repo, runs)
    rule_naive_predict(ctx, repo, runs)
    rule_in_sample(ctx, repo)
    rule_moving_cutoff(ctx, repo)
    rule_cutoff_restored(ctx, repo)
    check_last_window_at_cutoff(ctx, repo)
    rule_time_axis(ctx, repo)
    rule_forwarding(ctx, repo)
    rule_theta_pipeline(ctx, repo)
    check_theta_alignment(ctx, repo)
    check_fh_models(ctx, repo, "R2", which=("to_indexer",))
    check_fh_models(ctx, repo, "R5", which=("to_absolute_int",))
    check_fh_caches(ctx, repo, "R5")
    check_shift_model(ctx, repo, "R3")
    # instance counts on commit 132f3d5 (+ fix 7857d98): R1 46, R2 76, R3 20, R4 8, R5 14, R6 88
    ctx.floor("R1", 45)
    ctx.floor("R2", 40)
    ctx.floor("R3", 8)
    ctx.floor("R4", 14)
    ctx.floor("R5", 15)
    ctx.floor("R6", 80)
