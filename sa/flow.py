"""Interprocedural helpers on top of E1/E2: call resolution relative to a concrete class and
must-call summaries (every path to a normal return executes a call satisfying a predicate)."""
import ast

from .cfg import CFG
from .index import ClassInfo, dotted


class Target:
    """Resolved callee of a call site."""

    def __init__(self, kind, name, func=None, module=None, cls=None, defcls=None, ext=None, recv=None):
        self.kind = kind  # 'method' (on self/super) | 'func' (repo function) | 'class' (repo class ctor) | 'ext' | 'attr' (method on another object) | 'unknown'
        self.name = name  # simple callee name
        self.func, self.module, self.cls, self.defcls, self.ext, self.recv = func, module, cls, defcls, ext, recv

    def __repr__(self):
        return "<target %s %s>" % (self.kind, self.name)


class Flow:
    def __init__(self, repo):
        self.repo = repo
        self._cfg = {}
        self._must = {}

    def cfg(self, fn):
        g = self._cfg.get(id(fn))
        if g is None:
            g = self._cfg[id(fn)] = CFG(fn)
        return g

    def resolve_call(self, call, module, cls=None, defcls=None, selfname="self"):
        """Resolve ``call`` appearing in a method (defined in ``defcls``) analysed for concrete class ``cls``."""
        f = call.func
        if isinstance(f, ast.Attribute):
            v = f.value
            if isinstance(v, ast.Name) and v.id == selfname and cls is not None:
                hit = self.repo.lookup_method(cls, f.attr)
                if hit:
                    return Target("method", f.attr, hit[1], hit[0].module, cls, hit[0])
                return Target("attr", f.attr, recv="self")
            if isinstance(v, ast.Call) and dotted(v.func) == "super" and cls is not None and defcls is not None:
                hit = self.repo.lookup_method(cls, f.attr, after=defcls)
                if hit:
                    return Target("method", f.attr, hit[1], hit[0].module, cls, hit[0])
                return Target("ext", f.attr, ext="super()." + f.attr)
            d = dotted(f)
            if d:
                sym = self.repo.resolve_dotted(module, d)
                if sym is not None:
                    if sym.kind == "func":
                        return Target("func", f.attr, sym.target, sym.module)
                    if sym.kind == "class":
                        return Target("class", f.attr, cls=sym.target, module=sym.module)
                    if sym.kind == "ext":
                        return Target("ext", f.attr, ext=sym.dotted)
                    if sym.kind == "classattr":
                        k, nm = sym.target
                        hit = self.repo.lookup_method(k, nm)
                        if hit:
                            return Target("func", nm, hit[1], hit[0].module, defcls=hit[0])
            return Target("attr", f.attr, recv=dotted(v) or "?")
        if isinstance(f, ast.Name):
            sym = self.repo.resolve_name(module, f.id)
            if sym is not None:
                if sym.kind == "func":
                    return Target("func", f.id, sym.target, sym.module)
                if sym.kind == "class":
                    return Target("class", f.id, cls=sym.target, module=sym.module)
                if sym.kind == "ext":
                    return Target("ext", f.id, ext=sym.dotted)
            return Target("unknown", f.id)
        return Target("unknown", None)

    def must_call(self, fn, pred, module, cls=None, defcls=None, depth=6, _stack=None, skip=None):
        """Every path from entry of ``fn`` to a normal return executes a call ``c`` with
        ``pred(target, call)`` true, directly or inside a repo-local callee (self/super method
        or module-level function) that itself must-calls it."""
        key = (id(fn), id(pred), cls.qual if isinstance(cls, ClassInfo) else None, id(skip))
        if key in self._must:
            return self._must[key]
        _stack = _stack or set()
        if id(fn) in _stack or depth < 0:
            return False
        _stack = _stack | {id(fn)}
        g = self.cfg(fn)

        def gen(node):
            for c in node.calls():
                t = self.resolve_call(c, module, cls, defcls)
                if pred(t, c):
                    return True
                if t.kind in ("method", "func") and t.func is not None:
                    if skip is not None and skip(t.func):
                        continue
                    if self.must_call(t.func, pred, t.module, t.cls if t.kind == "method" else None,
                                      t.defcls, depth - 1, _stack, skip):
                        return True
            return False

        res = g.must_pass(gen)
        self._must[key] = res
        return res

    def passed_before(self, fn, pred, module, cls=None, defcls=None, depth=6):
        """dict CFG-node-id -> bool: on every path from entry to that node a pred-call was executed
        (interprocedural as in must_call).  Also returns the CFG."""
        g = self.cfg(fn)

        def gen(node):
            for c in node.calls():
                t = self.resolve_call(c, module, cls, defcls)
                if pred(t, c):
                    return True
                if t.kind in ("method", "func") and t.func is not None:
                    if self.must_call(t.func, pred, t.module, t.cls if t.kind == "method" else None, t.defcls, depth - 1):
                        return True
            return False

        IN, OUT = g.forward_must(gen)
        return g, IN, OUT


def name_pred(*names):
    names = set(names)

    def pred(t, call):
        return t.name in names

    return pred
