"""Affine forms over symbols with rational coefficients, and a small deterministic
entailment procedure for integer inequalities (no solver)."""
from fractions import Fraction
from itertools import combinations


class Lin:
    """c0 + sum(coef * symbol).  Symbols are strings.  Immutable."""

    __slots__ = ("terms", "const")

    def __init__(self, terms=None, const=0):
        self.terms = {k: Fraction(v) for k, v in (terms or {}).items() if v != 0}
        self.const = Fraction(const)

    @staticmethod
    def sym(name):
        return Lin({name: 1}, 0)

    @staticmethod
    def c(v):
        return Lin({}, v)

    def is_const(self):
        return not self.terms

    def __add__(self, o):
        o = as_lin(o)
        if o is None:
            return NotImplemented
        t = dict(self.terms)
        for k, v in o.terms.items():
            t[k] = t.get(k, 0) + v
        return Lin(t, self.const + o.const)

    __radd__ = __add__

    def __neg__(self):
        return Lin({k: -v for k, v in self.terms.items()}, -self.const)

    def __sub__(self, o):
        o = as_lin(o)
        if o is None:
            return NotImplemented
        return self + (-o)

    def __rsub__(self, o):
        return (-self) + o

    def scale(self, k):
        k = Fraction(k)
        return Lin({s: v * k for s, v in self.terms.items()}, self.const * k)

    def __eq__(self, o):
        o = as_lin(o)
        if o is None:
            return False
        return self.terms == o.terms and self.const == o.const

    def __hash__(self):
        return hash((tuple(sorted(self.terms.items())), self.const))

    def linear_part(self):
        return tuple(sorted(self.terms.items()))

    def symbols(self):
        return set(self.terms)

    def subst(self, mapping):
        out = Lin({}, self.const)
        for s, v in self.terms.items():
            if s in mapping:
                out = out + as_lin(mapping[s]).scale(v)
            else:
                out = out + Lin({s: v})
        return out

    def __repr__(self):
        parts = []
        for s, v in sorted(self.terms.items()):
            if v == 1:
                parts.append("+ %s" % s)
            elif v == -1:
                parts.append("- %s" % s)
            elif v < 0:
                parts.append("- %s*%s" % (_f(-v), s))
            else:
                parts.append("+ %s*%s" % (_f(v), s))
        if self.const != 0 or not parts:
            parts.append(("+ %s" % _f(self.const)) if self.const >= 0 else ("- %s" % _f(-self.const)))
        s = " ".join(parts)
        return s[2:] if s.startswith("+ ") else s


def _f(fr):
    return str(fr.numerator) if fr.denominator == 1 else "%s/%s" % (fr.numerator, fr.denominator)


def as_lin(x):
    if isinstance(x, Lin):
        return x
    if isinstance(x, bool):
        return None
    if isinstance(x, (int, Fraction)):
        return Lin({}, x)
    return None


class Facts:
    """A conjunction of integer facts ``L <= 0``.

    ``entails(L)`` tries to show ``L <= 0`` by finding at most ``depth`` facts whose sum
    F satisfies ``L - F == constant <= 0``.  Deterministic, bounded, no solver.
    """

    def __init__(self, items=None):
        self.items = list(items or [])  # (Lin, origin)

    def copy(self):
        return Facts(self.items)

    def add_le0(self, lin, origin=""):
        lin = as_lin(lin)
        if lin is None:
            return
        if lin.is_const():
            return
        for f, _ in self.items:
            if f == lin:
                return
        self.items.append((lin, origin))

    def add_cmp(self, a, op, b, origin=""):
        """Record integer fact ``a op b``."""
        a, b = as_lin(a), as_lin(b)
        if a is None or b is None:
            return
        if op == "<=":
            self.add_le0(a - b, origin)
        elif op == "<":
            self.add_le0(a - b + 1, origin)
        elif op == ">=":
            self.add_le0(b - a, origin)
        elif op == ">":
            self.add_le0(b - a + 1, origin)
        elif op == "==":
            self.add_le0(a - b, origin)
            self.add_le0(b - a, origin)

    def entails(self, lin, depth=4):
        """Return list of origins used if ``lin <= 0`` is entailed, else None."""
        lin = as_lin(lin)
        if lin is None:
            return None
        if lin.is_const():
            return [] if lin.const <= 0 else None
        items = self.items
        for d in range(1, depth + 1):
            for combo in combinations(range(len(items)), d):
                rest = lin
                for i in combo:
                    rest = rest - items[i][0]
                if rest.is_const() and rest.const <= 0:
                    return [items[i][1] for i in combo]
        # allow a fact to be used twice (e.g. 2*w >= 2)
        for i in range(len(items)):
            rest = lin - items[i][0] - items[i][0]
            if rest.is_const() and rest.const <= 0:
                return [items[i][1]] * 2
        return None

    def entails_cmp(self, a, op, b, depth=3):
        a, b = as_lin(a), as_lin(b)
        if a is None or b is None:
            return None
        if op == "<=":
            return self.entails(a - b, depth)
        if op == "<":
            return self.entails(a - b + 1, depth)
        if op == ">=":
            return self.entails(b - a, depth)
        if op == ">":
            return self.entails(b - a + 1, depth)
        if op == "==":
            if a == b:
                return []
            p, q = self.entails(a - b, depth), self.entails(b - a, depth)
            return (p + q) if (p is not None and q is not None) else None
        return None

    def slack(self, lin, depth=3):
        """Smallest constant c found such that ``lin <= c`` is entailed, or None."""
        lin = as_lin(lin)
        if lin is None:
            return None
        if lin.is_const():
            return lin.const
        best = None
        items = self.items
        for d in range(1, depth + 1):
            for combo in combinations(range(len(items)), d):
                rest = lin
                for i in combo:
                    rest = rest - items[i][0]
                if rest.is_const():
                    if best is None or rest.const < best:
                        best = rest.const
        return best
