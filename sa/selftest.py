"""Checker self-test (thorough tier): positive and negative controls.

Positive controls are seeded violations expressed as edits located through the AST
(function / class body found by name, then a unique snippet replaced inside it) or as
unified diffs kept under ``/verif/seeded/<id>/patch.diff``; they are applied to an
in-memory *overlay* of the repository (nothing is written below /repo or /verif) and
the property's rules must report a new VIOLATION (for the named rule).  Negative
controls are behaviour-preserving rewrites and must leave the verdict unchanged.
A variant whose edit no longer applies to the current tree is skipped and reported.
"""
import ast
import glob
import importlib
import json
import multiprocessing
import os
import re
import sys
import time
import traceback

from . import report
from .index import Repo, AnalysisError

VERIF = report.VERIF


class Variant:
    def __init__(self, vid, kind, path, edit, rule=None, construct=None, note=""):
        self.id, self.kind, self.path, self.edit = vid, kind, path, edit
        self.rule, self.construct, self.note = rule, construct, note


class EditError(Exception):
    pass


def func_span(src, qualname):
    """(start, end) character offsets of a function / method / class body located by name."""
    tree = ast.parse(src)
    parts = qualname.split(".")
    body = tree.body
    node = None
    for p in parts:
        node = None
        for st in body:
            if isinstance(st, (ast.FunctionDef, ast.AsyncFunctionDef, ast.ClassDef)) and st.name == p:
                node = st
                break
        if node is None:
            raise EditError("no %s in source" % qualname)
        body = node.body
    lines = src.splitlines(keepends=True)
    start = sum(len(l) for l in lines[: node.lineno - 1])
    end = sum(len(l) for l in lines[: node.end_lineno])
    return start, end


def sub(qualname, old, new, count=1):
    """Edit: inside ``qualname`` (or whole file if None) replace the unique snippet ``old``."""

    def edit(src):
        if qualname:
            a, b = func_span(src, qualname)
        else:
            a, b = 0, len(src)
        seg = src[a:b]
        if seg.count(old) != count:
            raise EditError("snippet %r occurs %d times in %s (expected %d)" % (old, seg.count(old), qualname, count))
        return src[:a] + seg.replace(old, new) + src[b:]

    return edit


def chain(*edits):
    def edit(src):
        for e in edits:
            src = e(src)
        return src

    return edit


def apply_unified_diff(files, diff_text):
    """Apply a unified diff to ``files`` (callable relpath -> source); returns overlay dict."""
    overlay = {}
    cur = None
    hunks = []

    def flush():
        if cur is None:
            return
        src = overlay.get(cur)
        if src is None:
            src = files(cur)
        lines = src.split("\n")
        offset = 0
        for (start, old, new) in hunks:
            pos = start - 1 + offset
            found = None
            for d in sorted(range(-60, 61), key=abs):
                p = pos + d
                if 0 <= p and lines[p:p + len(old)] == old:
                    found = p
                    break
            if found is None:
                raise EditError("hunk at line %d does not apply to %s" % (start, cur))
            lines[found:found + len(old)] = new
            offset += len(new) - len(old) + (found - pos)
        overlay[cur] = "\n".join(lines)

    it = iter(diff_text.split("\n"))
    old, new, start = None, None, None
    for line in it:
        if line.startswith("diff --git") or line.startswith("--- "):
            continue
        if line.startswith("+++ "):
            if old is not None:
                hunks.append((start, old, new))
                old = None
            flush()
            hunks = []
            path = line[4:].strip()
            if path.startswith("b/"):
                path = path[2:]
            cur = None if path == "/dev/null" else path
            continue
        m = re.match(r"@@ -(\d+)(?:,\d+)? \+(\d+)(?:,\d+)? @@", line)
        if m:
            if old is not None:
                hunks.append((start, old, new))
            start, old, new = int(m.group(1)), [], []
            continue
        if old is None:
            continue
        if line.startswith("+"):
            new.append(line[1:])
        elif line.startswith("-"):
            old.append(line[1:])
        elif line.startswith(" "):
            old.append(line[1:])
            new.append(line[1:])
        elif line.startswith("\\"):
            continue
        elif line == "":
            # blank context line whose leading space was stripped, or trailing newline of the diff
            old.append("")
            new.append("")
    if old is not None:
        # drop a trailing artefact line produced by the final newline of the diff text
        if old and new and old[-1] == "" and new[-1] == "":
            old, new = old[:-1], new[:-1]
        hunks.append((start, old, new))
    flush()
    return overlay


def load_variants(prop):
    out = []
    sys.path.insert(0, VERIF)
    try:
        mod = importlib.import_module("selftest.variants." + prop.lower())
        out.extend(mod.VARIANTS)
    except ModuleNotFoundError:
        pass
    for meta_path in sorted(glob.glob(os.path.join(VERIF, "seeded", "*", "meta.json"))):
        try:
            meta = json.load(open(meta_path))
        except Exception:
            continue
        if meta.get("property") != prop or meta.get("selftest") is False:
            continue
        d = os.path.dirname(meta_path)
        pf = os.path.join(d, "patch.diff")
        if os.path.exists(pf):
            v = Variant("seeded/" + os.path.basename(d), "+", None, None, rule=meta.get("expect_rule"),
                        note=meta.get("needs", ""))
            v.diff = open(pf).read()
            out.append(v)
    # behaviour-preserving refactorings written by independent sub-agents: negative controls for every property
    for pf in sorted(glob.glob(os.path.join(VERIF, "refactors", "*", "patch.diff"))):
        v = Variant("refactor/" + os.path.basename(os.path.dirname(pf)), "-", None, None)
        v.diff = open(pf).read()
        out.append(v)
    return out


def _violation_keys(ctx, known_keys):
    keys = set()
    for r in ctx.results:
        if r["verdict"] == report.VIOLATION:
            k = report.finding_key(ctx.prop, r)
            if k not in known_keys:
                keys.add((r["rule"], r["construct"]))
    return keys


def _undecided_keys(ctx):
    return {(r["rule"], r["construct"]) for r in ctx.results if r["verdict"] == report.UNDECIDED}


_BASE = {}  # per worker process: (property, root) -> verdict keys of the unpatched tree


def _run_one(job):
    prop, root, idx = job
    from .cli import run_property
    v = load_variants(prop)[idx]
    t0 = time.time()
    try:
        def read(rel):
            with open(os.path.join(root, rel), encoding="utf-8") as f:
                return f.read()

        if getattr(v, "diff", None) is not None:
            overlay = apply_unified_diff(read, v.diff)
            overlay = {k: s for k, s in overlay.items() if k.endswith(".py")}
        else:
            overlay = {v.path: v.edit(read(v.path))}
            if overlay[v.path] == read(v.path):
                raise EditError("edit is a no-op")
        for rel, s in overlay.items():
            ast.parse(s)
    except (EditError, OSError, SyntaxError) as e:
        return {"id": v.id, "kind": v.kind, "status": "skipped", "why": str(e)}
    known = {"%s|%s|%s" % (k["property"], k["rule"], k["construct"]) for k in report.load_known()
             if k.get("status", "known") == "known"}
    try:
        bk = (prop, root)
        if bk not in _BASE:
            base = run_property(prop, Repo(root))
            _BASE[bk] = (_violation_keys(base, known), _undecided_keys(base))
        base_v, base_u = _BASE[bk]
        ctx = run_property(prop, Repo(root, overlay=overlay))
        new_v = _violation_keys(ctx, known) - base_v
        new_u = _undecided_keys(ctx) - base_u
    except AnalysisError as e:
        new_v, new_u = set(), {("analysis", str(e))}
    except Exception:
        return {"id": v.id, "kind": v.kind, "status": "error", "why": traceback.format_exc()[-600:]}
    res = {"id": v.id, "kind": v.kind, "new_violations": sorted(map(list, new_v))[:6],
           "new_undecided": sorted(map(list, new_u))[:6], "wall_s": round(time.time() - t0, 2)}
    if v.kind == "+":
        hit = [k for k in new_v if (v.rule is None or k[0] == v.rule) and (v.construct is None or v.construct in k[1])]
        res["status"] = "detected" if hit else ("undecided" if new_u else "missed")
    else:
        res["status"] = "quiet" if not new_v and not new_u else "noisy"
    return res


def run(prop, root, jobs=16, out=print, write=True):
    variants = load_variants(prop)
    if not variants:
        out("%s selftest: no variants defined" % prop)
        return 0
    t0 = time.time()
    jobs_list = [(prop, root, i) for i in range(len(variants))]
    if jobs > 1 and len(jobs_list) > 1:
        with multiprocessing.Pool(min(jobs, len(jobs_list))) as pool:
            results = pool.map(_run_one, jobs_list)
    else:
        results = [_run_one(j) for j in jobs_list]
    bad = [r for r in results if r["status"] in ("missed", "noisy", "error", "undecided")]
    skipped = [r for r in results if r["status"] == "skipped"]
    for r in bad:
        out("ANALYSIS-ERROR property=%s selftest variant %s (%s) -> %s %s" % (
            prop, r["id"], r["kind"], r["status"], r.get("why") or r.get("new_violations") or r.get("new_undecided") or ""))
    for r in skipped:
        out("selftest variant %s skipped: %s" % (r["id"], r["why"]))
    summary = {
        "positive_controls": sum(1 for r in results if r["kind"] == "+"),
        "detected": sum(1 for r in results if r["status"] == "detected"),
        "negative_controls": sum(1 for r in results if r["kind"] == "-"),
        "quiet": sum(1 for r in results if r["status"] == "quiet"),
        "skipped": len(skipped),
        "wall_s": round(time.time() - t0, 2),
        "results": results,
    }
    out("%s selftest: %d/%d positive controls detected, %d/%d negative controls quiet, %d skipped (%.1fs)" % (
        prop, summary["detected"], summary["positive_controls"], summary["quiet"], summary["negative_controls"],
        len(skipped), summary["wall_s"]))
    ev_path = os.path.join(report.EVIDENCE_DIR, prop + ".json")
    if write and os.path.exists(ev_path) and os.path.abspath(root) == "/repo":
        try:
            ev = json.load(open(ev_path))
            ev["coverage"]["selftest"] = summary
            ev["wall_s"] = round(ev.get("wall_s", 0) + summary["wall_s"], 3)
            json.dump(ev, open(ev_path, "w"), indent=1, default=str)
        except Exception:
            pass
    return 2 if bad else 0
