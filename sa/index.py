"""E1 -- repository index and resolver.

Parses every ``sktime/**/*.py`` below a root (default ``/repo``) with ``ast`` and offers
name / class / method resolution.  Nothing below the root is imported or executed.

An *overlay* ``{relpath: source}`` replaces the text of individual files; the checker
self-test uses it to analyse seeded variants without touching the disk.
"""
import ast
import hashlib
import os


class AnalysisError(Exception):
    """The analysis cannot interpret the tree (vanished anchor, unknown idiom).

    Converted by the CLI into ``ANALYSIS-ERROR`` / exit 2 -- never a VIOLATION.
    """


class Module:
    def __init__(self, name, relpath, src):
        self.name = name  # dotted
        self.relpath = relpath
        self.src = src
        self.tree = ast.parse(src, filename=relpath)
        self.is_pkg = relpath.endswith("__init__.py")
        self.imports = {}  # local name -> dotted target
        self.star_imports = []  # dotted modules
        self.defs = {}  # top-level name -> node (FunctionDef / ClassDef / Assign value)
        self._index()

    @property
    def package(self):
        return self.name if self.is_pkg else self.name.rpartition(".")[0]

    def _abs(self, level, mod):
        if level == 0:
            return mod or ""
        base = self.package.split(".")
        if level > 1:
            base = base[: len(base) - (level - 1)]
        return ".".join(base + ([mod] if mod else []))

    def _index(self):
        for node in self.tree.body:
            self._index_stmt(node)

    def _index_stmt(self, node):
        if isinstance(node, (ast.FunctionDef, ast.AsyncFunctionDef, ast.ClassDef)):
            self.defs[node.name] = node
        elif isinstance(node, ast.Assign):
            for t in node.targets:
                if isinstance(t, ast.Name):
                    self.defs[t.id] = node.value
        elif isinstance(node, ast.AnnAssign) and isinstance(node.target, ast.Name):
            if node.value is not None:
                self.defs[node.target.id] = node.value
        elif isinstance(node, ast.Import):
            for a in node.names:
                if a.asname:
                    self.imports[a.asname] = a.name
                else:
                    top = a.name.split(".")[0]
                    self.imports[top] = top
        elif isinstance(node, ast.ImportFrom):
            mod = self._abs(node.level, node.module)
            for a in node.names:
                if a.name == "*":
                    self.star_imports.append(mod)
                else:
                    self.imports[a.asname or a.name] = mod + "." + a.name
        elif isinstance(node, (ast.If, ast.Try)):
            # conditional imports / definitions at module level
            for sub in ast.iter_child_nodes(node):
                if isinstance(sub, ast.stmt):
                    self._index_stmt(sub)
                elif isinstance(sub, ast.ExceptHandler):
                    for s in sub.body:
                        self._index_stmt(s)


class ClassInfo:
    def __init__(self, module, node):
        self.module = module
        self.node = node
        self.name = node.name
        self.qual = module.name + ":" + node.name
        self.methods = {}
        self.class_attrs = {}
        self.properties = {}
        self.decorators = {}
        for st in node.body:
            if isinstance(st, (ast.FunctionDef, ast.AsyncFunctionDef)):
                decs = [dec_name(d) for d in st.decorator_list]
                self.decorators.setdefault(st.name, []).extend(decs)
                if any(d and d.endswith(".setter") for d in decs):
                    self.properties.setdefault(st.name, {})["setter"] = st
                    continue
                if "property" in decs:
                    self.properties.setdefault(st.name, {})["getter"] = st
                self.methods[st.name] = st
            elif isinstance(st, ast.Assign):
                for t in st.targets:
                    if isinstance(t, ast.Name):
                        self.class_attrs[t.id] = st.value
            elif isinstance(st, ast.AnnAssign) and isinstance(st.target, ast.Name):
                if st.value is not None:
                    self.class_attrs[st.target.id] = st.value
        self.bases = []  # filled by Repo: ClassInfo or "ext:dotted"

    def is_static(self, name):
        return "staticmethod" in self.decorators.get(name, [])

    def __repr__(self):
        return "<class %s>" % self.qual


def dec_name(d):
    if isinstance(d, ast.Call):
        d = d.func
    return dotted(d)


def dotted(node):
    """``a.b.c`` for Name/Attribute chains, else None."""
    parts = []
    while isinstance(node, ast.Attribute):
        parts.append(node.attr)
        node = node.value
    if isinstance(node, ast.Name):
        parts.append(node.id)
        return ".".join(reversed(parts))
    return None


class Symbol:
    """Result of name resolution."""

    def __init__(self, kind, target, module=None, dotted_name=None):
        self.kind = kind  # 'func' | 'class' | 'const' | 'module' | 'ext'
        self.target = target  # FunctionDef | ClassInfo | expr node | Module | dotted str
        self.module = module
        self.dotted = dotted_name

    def __repr__(self):
        return "<sym %s %s>" % (self.kind, self.dotted)


class Repo:
    def __init__(self, root="/repo", overlay=None, package="sktime"):
        self.root = root
        self.package = package
        self.overlay = dict(overlay or {})
        self.modules = {}
        self.by_relpath = {}
        self.classes = {}
        self.parse_errors = []
        self._mro_cache = {}
        self._load()
        self._link()

    # ------------------------------------------------------------------ loading
    def _load(self):
        base = os.path.join(self.root, self.package)
        if not os.path.isdir(base):
            raise AnalysisError("package directory missing: %s" % base)
        rels = set()
        for dirpath, dirnames, filenames in os.walk(base):
            dirnames.sort()
            for fn in sorted(filenames):
                if fn.endswith(".py"):
                    rels.add(os.path.relpath(os.path.join(dirpath, fn), self.root))
        rels.update(self.overlay)
        h = hashlib.sha256()
        for rel in sorted(rels):
            if rel in self.overlay:
                src = self.overlay[rel]
                if src is None:
                    continue
            else:
                with open(os.path.join(self.root, rel), encoding="utf-8") as f:
                    src = f.read()
            h.update(rel.encode())
            h.update(src.encode())
            name = rel[:-3].replace(os.sep, ".")
            if name.endswith(".__init__"):
                name = name[: -len(".__init__")]
            try:
                m = Module(name, rel, src)
            except SyntaxError as e:
                self.parse_errors.append((rel, str(e)))
                continue
            self.modules[name] = m
            self.by_relpath[rel] = m
        self.digest = h.hexdigest()[:16]

    def _link(self):
        for m in self.modules.values():
            for name, node in m.defs.items():
                if isinstance(node, ast.ClassDef):
                    self.classes[m.name + ":" + name] = ClassInfo(m, node)
        for c in self.classes.values():
            for b in c.node.bases:
                d = dotted(b)
                sym = self.resolve_dotted(c.module, d) if d else None
                if sym is not None and sym.kind == "class":
                    c.bases.append(sym.target)
                else:
                    c.bases.append("ext:" + (sym.dotted if sym is not None else (d or "?")))

    # ------------------------------------------------------------------ modules
    def module(self, key):
        """Module by dotted name or relative path; AnalysisError if absent."""
        m = self.modules.get(key) or self.by_relpath.get(key)
        if m is None:
            raise AnalysisError("anchor module missing: %s" % key)
        return m

    def non_test_modules(self):
        for m in self.modules.values():
            if ".tests." in m.name + "." or m.name.startswith(self.package + ".contrib"):
                continue
            if "._testing" in m.name or m.name.endswith(".tests"):
                continue
            yield m

    # --------------------------------------------------------------- resolution
    def resolve_name(self, module, name, _seen=None):
        """Resolve a bare name used at module scope of ``module``."""
        _seen = _seen or set()
        key = (module.name, name)
        if key in _seen:
            return None
        _seen.add(key)
        if name in module.defs:
            node = module.defs[name]
            d = module.name + "." + name
            if isinstance(node, ast.ClassDef):
                return Symbol("class", self.classes[module.name + ":" + name], module, d)
            if isinstance(node, (ast.FunctionDef, ast.AsyncFunctionDef)):
                return Symbol("func", node, module, d)
            if isinstance(node, ast.Name) and node.id != name:
                alias = self.resolve_name(module, node.id, _seen)
                if alias is not None:
                    return alias
            return Symbol("const", node, module, d)
        if name in module.imports:
            return self._resolve_abs(module.imports[name], _seen)
        for sm in module.star_imports:
            tm = self.modules.get(sm)
            if tm is not None:
                r = self.resolve_name(tm, name, _seen)
                if r is not None:
                    return r
        return None

    def _resolve_abs(self, dotted_name, _seen=None):
        if dotted_name in self.modules:
            return Symbol("module", self.modules[dotted_name], self.modules[dotted_name], dotted_name)
        head, _, tail = dotted_name.rpartition(".")
        if head in self.modules:
            r = self.resolve_name(self.modules[head], tail, _seen)
            if r is not None:
                return r
            if not dotted_name.startswith(self.package + "."):
                return Symbol("ext", dotted_name, None, dotted_name)
            return None
        if head and (head.startswith(self.package + ".") or head == self.package):
            # attribute of something inside the package that is not a module
            sym = self._resolve_abs(head, _seen)
            if sym is not None and sym.kind == "module":
                return self.resolve_name(sym.target, tail, _seen)
            if sym is not None and sym.kind == "class":
                return Symbol("classattr", (sym.target, tail), sym.module, dotted_name)
            return None
        return Symbol("ext", dotted_name, None, dotted_name)

    def resolve_dotted(self, module, d):
        """Resolve ``a.b.c`` as written inside ``module``."""
        if d is None:
            return None
        parts = d.split(".")
        sym = self.resolve_name(module, parts[0])
        if sym is None:
            return None
        for p in parts[1:]:
            if sym.kind == "module":
                nxt = self.resolve_name(sym.target, p)
                if nxt is None:
                    sub = self.modules.get(sym.target.name + "." + p)
                    if sub is None:
                        return None
                    nxt = Symbol("module", sub, sub, sub.name)
                sym = nxt
            elif sym.kind == "ext":
                sym = Symbol("ext", sym.dotted + "." + p, None, sym.dotted + "." + p)
            elif sym.kind == "class":
                sym = Symbol("classattr", (sym.target, p), sym.module, sym.dotted + "." + p)
            else:
                return None
        return sym

    def resolve_expr(self, module, node):
        return self.resolve_dotted(module, dotted(node))

    # ------------------------------------------------------------------ classes
    def cls(self, qual):
        """Class by 'module.dotted:Name' or by 'relpath:Name' or unique simple name."""
        c = self.classes.get(qual)
        if c is not None:
            return c
        if ":" in qual:
            mod, _, nm = qual.partition(":")
            m = self.modules.get(mod) or self.by_relpath.get(mod)
            if m is not None:
                c = self.classes.get(m.name + ":" + nm)
                if c is not None:
                    return c
            raise AnalysisError("anchor class missing: %s" % qual)
        cands = [c for c in self.classes.values() if c.name == qual and ".tests" not in c.module.name]
        if len(cands) == 1:
            return cands[0]
        raise AnalysisError("anchor class missing or ambiguous: %s (%d candidates)" % (qual, len(cands)))

    def mro(self, c):
        """C3 linearisation; external bases are kept as 'ext:...' leaves."""
        key = c.qual if isinstance(c, ClassInfo) else c
        if key in self._mro_cache:
            return self._mro_cache[key]
        if not isinstance(c, ClassInfo):
            return [c]
        seqs = [list(self.mro(b)) for b in c.bases] + [list(c.bases)]
        res = [c]
        seqs = [s for s in seqs if s]
        while seqs:
            for s in seqs:
                cand = s[0]
                if not any(_in_tail(cand, t) for t in seqs):
                    break
            else:
                raise AnalysisError("inconsistent MRO for %s" % c.qual)
            res.append(cand)
            for s in seqs:
                if s and _same(s[0], cand):
                    del s[0]
            seqs = [s for s in seqs if s]
        self._mro_cache[key] = res
        return res

    def lookup_method(self, c, name, after=None):
        """(defining ClassInfo, FunctionDef) along the MRO of ``c``.

        ``after``: start after this class in the MRO (super() semantics).
        Returns None when only an external base could define it.
        """
        mro = self.mro(c)
        start = 0
        if after is not None:
            for i, k in enumerate(mro):
                if _same(k, after):
                    start = i + 1
                    break
        for k in mro[start:]:
            if isinstance(k, ClassInfo) and name in k.methods:
                return k, k.methods[name]
        return None

    def lookup_class_attr(self, c, name):
        for k in self.mro(c):
            if isinstance(k, ClassInfo) and name in k.class_attrs:
                return k, k.class_attrs[name]
        return None

    def ext_bases(self, c):
        return [k for k in self.mro(c) if not isinstance(k, ClassInfo)]

    def is_subclass(self, c, qual_or_ext):
        for k in self.mro(c):
            if isinstance(k, ClassInfo):
                if k.qual == qual_or_ext or k.name == qual_or_ext:
                    return True
            elif k == qual_or_ext or k == "ext:" + qual_or_ext:
                return True
        return False

    def subclasses(self, c, include_tests=False):
        out = []
        for k in self.classes.values():
            if k is c:
                continue
            if not include_tests and (".tests" in k.module.name or "._testing" in k.module.name):
                continue
            if any(b is c for b in self.mro(k)[1:]):
                out.append(k)
        return sorted(out, key=lambda k: k.qual)

    def is_estimator(self, c):
        return any(
            (not isinstance(k, ClassInfo)) and k.endswith("sklearn.base.BaseEstimator")
            for k in self.mro(c)
        )

    def estimator_classes(self, include_contrib=False):
        out = []
        for c in self.classes.values():
            mn = c.module.name
            if ".tests" in mn or "._testing" in mn or mn.endswith(".tests"):
                continue
            if not include_contrib and mn.startswith(self.package + ".contrib"):
                continue
            if self.is_estimator(c):
                out.append(c)
        return sorted(out, key=lambda k: k.qual)

    # ------------------------------------------------------------------ anchors
    def func(self, modkey, qualname):
        """Anchor accessor: FunctionDef for 'func' or 'Class.method' in a module."""
        m = self.module(modkey)
        if "." in qualname:
            cn, _, mn = qualname.partition(".")
            c = self.classes.get(m.name + ":" + cn)
            if c is None or mn not in c.methods:
                raise AnalysisError("anchor missing: %s:%s" % (m.relpath, qualname))
            return c.methods[mn]
        node = m.defs.get(qualname)
        if not isinstance(node, (ast.FunctionDef, ast.AsyncFunctionDef)):
            raise AnalysisError("anchor missing: %s:%s" % (m.relpath, qualname))
        return node

    def loc(self, module, node):
        return "%s:%s" % (module.relpath, getattr(node, "lineno", "?"))


def _same(a, b):
    if isinstance(a, ClassInfo) or isinstance(b, ClassInfo):
        return a is b
    return a == b


def _in_tail(cand, seq):
    return any(_same(cand, x) for x in seq[1:])
