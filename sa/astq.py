"""Small AST query helpers shared by the rules."""
import ast

from .index import dotted


def walk_no_nested(node, include_self=True):
    """ast.walk that does not descend into nested function/class/lambda bodies."""
    stack = [node]
    first = True
    while stack:
        n = stack.pop()
        if not first and isinstance(n, (ast.FunctionDef, ast.AsyncFunctionDef, ast.ClassDef, ast.Lambda)):
            continue
        if not first or include_self:
            yield n
        first = False
        stack.extend(ast.iter_child_nodes(n))


def calls(node):
    return [n for n in walk_no_nested(node) if isinstance(n, ast.Call)]


def call_name(call):
    """Last attribute / bare name of the callee."""
    f = call.func
    if isinstance(f, ast.Attribute):
        return f.attr
    if isinstance(f, ast.Name):
        return f.id
    return None


def assigned_in(fn, name):
    """Is local ``name`` (re)assigned anywhere in ``fn``'s body?"""
    for n in walk_no_nested(fn):
        if isinstance(n, ast.Name) and n.id == name and isinstance(n.ctx, (ast.Store, ast.Del)):
            return True
        if isinstance(n, ast.AugAssign) and isinstance(n.target, ast.Name) and n.target.id == name:
            return True
    return False


def assigned_values(fn, name):
    """Value expressions assigned to the simple local ``name`` (single-target assigns)."""
    out = []
    for n in walk_no_nested(fn):
        if isinstance(n, ast.Assign):
            for t in n.targets:
                if isinstance(t, ast.Name) and t.id == name:
                    out.append(n.value)
        elif isinstance(n, ast.AnnAssign) and isinstance(n.target, ast.Name) and n.target.id == name and n.value:
            out.append(n.value)
    return out


def param_names(fn, skip_self=False):
    a = fn.args
    names = [p.arg for p in a.posonlyargs + a.args]
    if skip_self and names and names[0] in ("self", "cls"):
        names = names[1:]
    return names


def all_param_names(fn, skip_self=False):
    return param_names(fn, skip_self) + [p.arg for p in fn.args.kwonlyargs]


def param_defaults(fn):
    """dict param -> default expr (only those with defaults)."""
    a = fn.args
    pos = a.posonlyargs + a.args
    out = {}
    for p, d in zip(pos[len(pos) - len(a.defaults):], a.defaults):
        out[p.arg] = d
    for p, d in zip(a.kwonlyargs, a.kw_defaults):
        if d is not None:
            out[p.arg] = d
    return out


def bind_call(fn, call, skip_self=False):
    """Bind the actual arguments of ``call`` to the parameters of FunctionDef ``fn``.

    Returns dict param -> expr, with key '**' / '*' for unexpanded star arguments;
    None if the call cannot be bound (too many positionals / unknown keyword without **kwargs).
    """
    names = param_names(fn, skip_self)
    kwonly = [p.arg for p in fn.args.kwonlyargs]
    out = {}
    i = 0
    for a in call.args:
        if isinstance(a, ast.Starred):
            out["*"] = a.value
            continue
        if i < len(names):
            out[names[i]] = a
        elif fn.args.vararg is not None:
            out.setdefault("*extra", []).append(a)
        else:
            return None
        i += 1
    for k in call.keywords:
        if k.arg is None:
            out["**"] = k.value
        elif k.arg in names or k.arg in kwonly:
            if k.arg in out:
                return None
            out[k.arg] = k.value
        elif fn.args.kwarg is not None:
            out.setdefault("**extra", {})[k.arg] = k.value
        else:
            out.setdefault("!unknown", []).append(k.arg)
    return out


def self_attr_stores(fn, selfname="self"):
    """(attr, value expr or None, stmt) for every ``self.attr = ...`` / augmented / del in fn."""
    out = []
    for n in walk_no_nested(fn):
        if isinstance(n, ast.Assign):
            for t in n.targets:
                for tt in _flatten_targets(t):
                    if is_self_attr(tt, selfname):
                        out.append((tt.attr, n.value if tt is t else None, n))
        elif isinstance(n, ast.AugAssign) and is_self_attr(n.target, selfname):
            out.append((n.target.attr, None, n))
        elif isinstance(n, ast.AnnAssign) and is_self_attr(n.target, selfname):
            out.append((n.target.attr, n.value, n))
        elif isinstance(n, (ast.For, ast.With)):
            tgts = [n.target] if isinstance(n, ast.For) else [i.optional_vars for i in n.items if i.optional_vars]
            for t in tgts:
                for tt in _flatten_targets(t):
                    if is_self_attr(tt, selfname):
                        out.append((tt.attr, None, n))
    return out


def _flatten_targets(t):
    if isinstance(t, (ast.Tuple, ast.List)):
        for e in t.elts:
            yield from _flatten_targets(e)
    elif isinstance(t, ast.Starred):
        yield from _flatten_targets(t.value)
    else:
        yield t


def is_self_attr(node, selfname="self", attr=None):
    return (isinstance(node, ast.Attribute) and isinstance(node.value, ast.Name) and node.value.id == selfname
            and (attr is None or node.attr == attr))


def self_attr_reads(fn, selfname="self"):
    out = []
    for n in walk_no_nested(fn):
        if is_self_attr(n, selfname) and isinstance(n.ctx, ast.Load):
            out.append(n)
    return out


def returns(fn):
    return [n for n in walk_no_nested(fn, include_self=False) if isinstance(n, ast.Return)]


def is_generator(fn):
    return any(isinstance(n, (ast.Yield, ast.YieldFrom)) for n in walk_no_nested(fn, include_self=False))


def const_value(node, default=None):
    if isinstance(node, ast.Constant):
        return node.value
    return default


def str_consts(node):
    """String constants in a tuple/list/set literal (or a single string)."""
    if isinstance(node, ast.Constant) and isinstance(node.value, str):
        return [node.value]
    if isinstance(node, (ast.Tuple, ast.List, ast.Set)):
        out = []
        for e in node.elts:
            if isinstance(e, ast.Constant) and isinstance(e.value, str):
                out.append(e.value)
            else:
                return None
        return out
    return None


COMMUTATIVE = (ast.Add, ast.Mult, ast.BitAnd, ast.BitOr, ast.BitXor)


def canon(node, rename=None):
    """Canonical string of an expression: commutative operands sorted, names optionally
    renamed, keyword order normalised.  Used to compare expression *shapes*, never text."""
    rename = rename or {}
    if isinstance(node, ast.Name):
        return rename.get(node.id, node.id)
    if isinstance(node, ast.Constant):
        return repr(node.value)
    if isinstance(node, ast.Attribute):
        d = dotted(node)
        if d and d.split(".")[0] in rename:
            parts = d.split(".")
            return ".".join([rename[parts[0]]] + parts[1:])
        return canon(node.value, rename) + "." + node.attr
    if isinstance(node, ast.BinOp):
        a, b = canon(node.left, rename), canon(node.right, rename)
        if isinstance(node.op, COMMUTATIVE):
            a, b = sorted([a, b])
        return "(%s %s %s)" % (a, type(node.op).__name__, b)
    if isinstance(node, ast.UnaryOp):
        return "(%s %s)" % (type(node.op).__name__, canon(node.operand, rename))
    if isinstance(node, ast.BoolOp):
        return "(%s %s)" % (type(node.op).__name__, " ".join(sorted(canon(v, rename) for v in node.values)))
    if isinstance(node, ast.Compare):
        parts = [canon(node.left, rename)]
        for op, c in zip(node.ops, node.comparators):
            parts.append(type(op).__name__)
            parts.append(canon(c, rename))
        return "(" + " ".join(parts) + ")"
    if isinstance(node, ast.Call):
        args = [canon(a, rename) for a in node.args]
        kws = sorted("%s=%s" % (k.arg, canon(k.value, rename)) for k in node.keywords)
        return "%s(%s)" % (canon(node.func, rename), ", ".join(args + kws))
    if isinstance(node, ast.Subscript):
        return "%s[%s]" % (canon(node.value, rename), canon(node.slice, rename))
    if isinstance(node, ast.Slice):
        return "%s:%s:%s" % tuple(canon(x, rename) if x is not None else "" for x in (node.lower, node.upper, node.step))
    if isinstance(node, (ast.Tuple, ast.List)):
        return "[%s]" % ", ".join(canon(e, rename) for e in node.elts)
    if isinstance(node, ast.IfExp):
        return "(%s if %s else %s)" % (canon(node.body, rename), canon(node.test, rename), canon(node.orelse, rename))
    if isinstance(node, ast.Starred):
        return "*" + canon(node.value, rename)
    if isinstance(node, ast.keyword):
        return "%s=%s" % (node.arg, canon(node.value, rename))
    if node is None:
        return "None"
    return ast.dump(node)


def inline_locals(fn, expr, depth=6):
    """Substitute single-assignment locals of ``fn`` into ``expr`` (returns a new AST).
    Only names assigned exactly once, by a plain ``name = value`` outside loops, are substituted."""
    single = {}
    counts = {}
    for n in walk_no_nested(fn):
        if isinstance(n, ast.Name) and isinstance(n.ctx, ast.Store):
            counts[n.id] = counts.get(n.id, 0) + 1
    for p in all_param_names(fn):
        counts[p] = counts.get(p, 0) + 1
    for st in fn.body:
        _collect_single(st, single, counts)

    class Sub(ast.NodeTransformer):
        def __init__(self, d):
            self.d = d

        def visit_Name(self, node):
            if isinstance(node.ctx, ast.Load) and node.id in single and self.d > 0:
                import copy
                return Sub(self.d - 1).visit(copy.deepcopy(single[node.id]))
            return node

    import copy
    return Sub(depth).visit(copy.deepcopy(expr))


def _collect_single(st, single, counts):
    if isinstance(st, ast.Assign) and len(st.targets) == 1 and isinstance(st.targets[0], ast.Name):
        nm = st.targets[0].id
        if counts.get(nm, 0) == 1:
            single[nm] = st.value
    elif isinstance(st, (ast.If, ast.With, ast.Try)):
        for sub in ast.iter_child_nodes(st):
            if isinstance(sub, ast.stmt):
                _collect_single(sub, single, counts)
            elif isinstance(sub, ast.ExceptHandler):
                for s in sub.body:
                    _collect_single(s, single, counts)


def enclosing_stmts(fn, target):
    """Chain of statements from fn.body down to the one containing ``target`` node."""
    path = []

    def rec(stmts):
        for st in stmts:
            if any(n is target for n in ast.walk(st)):
                path.append(st)
                for field in ("body", "orelse", "finalbody"):
                    sub = getattr(st, field, None)
                    if isinstance(sub, list) and sub and isinstance(sub[0], ast.stmt):
                        if rec(sub):
                            return True
                for h in getattr(st, "handlers", []) or []:
                    if rec(h.body):
                        return True
                return True
        return False

    rec(fn.body)
    return path
