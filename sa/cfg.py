"""E2 -- statement-level control-flow graph, dominance and must-pass-through queries.

The CFG is built over the statement kinds the repository uses.  Each simple statement
is one node; ``if``/``while`` tests, ``for`` headers and ``with`` headers are nodes of
their own that own only the expressions evaluated there.  Exceptional control flow is
modelled for explicit ``raise`` statements and ``try`` blocks (every node of a ``try``
body may transfer to each handler); implicit exceptions out of calls are not edges --
all queries here are about paths to a *normal* return.
"""
import ast


class Node:
    __slots__ = ("id", "kind", "stmt", "exprs", "succ", "pred", "label")

    def __init__(self, nid, kind, stmt=None, exprs=()):
        self.id = nid
        self.kind = kind  # entry exit raise stmt test loop with return
        self.stmt = stmt
        self.exprs = list(exprs)
        self.succ = []  # (node, edge label) label in None/True/False/'exc'
        self.pred = []
        self.label = None

    def __repr__(self):
        ln = getattr(self.stmt, "lineno", "")
        return "<%s#%d L%s>" % (self.kind, self.id, ln)

    def calls(self):
        """ast.Call nodes evaluated at this node (nested defs/lambdas excluded)."""
        out = []
        for e in self.exprs:
            out.extend(calls_in(e))
        return out


def calls_in(expr):
    out = []

    def walk(n):
        if isinstance(n, (ast.FunctionDef, ast.AsyncFunctionDef, ast.Lambda, ast.ClassDef)):
            return
        for ch in ast.iter_child_nodes(n):
            walk(ch)
        if isinstance(n, ast.Call):
            out.append(n)

    if expr is not None:
        walk(expr)
    return out


class CFG:
    def __init__(self, func):
        self.func = func
        self.nodes = []
        self.entry = self._new("entry")
        self.exit = self._new("exit")  # normal return (explicit or fall-through)
        self.raise_exit = self._new("raise")
        self._loops = []  # (continue target, break target)
        self._handlers = []  # stack of lists of handler entry nodes
        self._finally = []  # stack of finally bodies (stmt lists)
        ends = self._block(func.body, [(self.entry, None)])
        self._connect(ends, self.exit)

    # ----------------------------------------------------------------- building
    def _new(self, kind, stmt=None, exprs=()):
        n = Node(len(self.nodes), kind, stmt, exprs)
        self.nodes.append(n)
        return n

    def _edge(self, a, b, label=None):
        a.succ.append((b, label))
        b.pred.append((a, label))

    def _connect(self, ends, node):
        for a, label in ends:
            self._edge(a, node, label)

    def _exc_edges(self, node):
        if self._handlers:
            for h in self._handlers[-1]:
                self._edge(node, h, "exc")

    def _block(self, stmts, ends):
        for st in stmts:
            if not ends:
                break  # unreachable code
            ends = self._stmt(st, ends)
        return ends

    def _through_finally(self, ends, upto=0):
        """Route ``ends`` through copies of the enclosing finally bodies (innermost first)."""
        for body in reversed(self._finally[upto:]):
            saved = self._finally
            self._finally = []
            ends = self._block(body, ends)
            self._finally = saved
        return ends

    def _stmt(self, st, ends):
        if isinstance(st, ast.If):
            t = self._new("test", st, [st.test])
            self._connect(ends, t)
            self._exc_edges(t)
            a = self._block(st.body, [(t, True)])
            b = self._block(st.orelse, [(t, False)]) if st.orelse else [(t, False)]
            return a + b
        if isinstance(st, (ast.For, ast.AsyncFor)):
            h = self._new("loop", st, [st.iter])
            self._connect(ends, h)
            self._exc_edges(h)
            brk = []
            self._loops.append((h, brk, len(self._finally)))
            body_ends = self._block(st.body, [(h, True)])
            self._loops.pop()
            self._connect(body_ends, h)
            out = self._block(st.orelse, [(h, False)]) if st.orelse else [(h, False)]
            return out + brk
        if isinstance(st, ast.While):
            h = self._new("test", st, [st.test])
            self._connect(ends, h)
            self._exc_edges(h)
            brk = []
            self._loops.append((h, brk, len(self._finally)))
            body_ends = self._block(st.body, [(h, True)])
            self._loops.pop()
            self._connect(body_ends, h)
            infinite = isinstance(st.test, ast.Constant) and bool(st.test.value)
            out = [] if infinite else (self._block(st.orelse, [(h, False)]) if st.orelse else [(h, False)])
            return out + brk
        if isinstance(st, (ast.With, ast.AsyncWith)):
            w = self._new("with", st, [i.context_expr for i in st.items])
            self._connect(ends, w)
            self._exc_edges(w)
            return self._block(st.body, [(w, None)])
        if isinstance(st, ast.Try):
            handler_entries = []
            for h in st.handlers:
                hn = self._new("stmt", h, [h.type] if h.type is not None else [])
                handler_entries.append(hn)
            if st.finalbody:
                self._finally.append(st.finalbody)
            self._handlers.append(handler_entries)
            # an exception may occur before the first statement completes
            pre = self._new("stmt", None, [])
            self._connect(ends, pre)
            self._exc_edges(pre)
            body_ends = self._block(st.body, [(pre, None)])
            self._handlers.pop()
            if st.orelse:
                body_ends = self._block(st.orelse, body_ends)
            out = list(body_ends)
            for h, hn in zip(st.handlers, handler_entries):
                out += self._block(h.body, [(hn, None)])
            if st.finalbody:
                self._finally.pop()
                out = self._block(st.finalbody, out)
                if not handler_entries:
                    # exceptions propagate through the finally body to the raise exit
                    pass
            return out
        if isinstance(st, ast.Return):
            n = self._new("return", st, [st.value] if st.value is not None else [])
            self._connect(ends, n)
            self._exc_edges(n)
            e = self._through_finally([(n, None)])
            self._connect(e, self.exit)
            return []
        if isinstance(st, ast.Raise):
            n = self._new("stmt", st, [x for x in (st.exc, st.cause) if x is not None])
            self._connect(ends, n)
            if self._handlers:
                for h in self._handlers[-1]:
                    self._edge(n, h, "exc")
            else:
                e = self._through_finally([(n, None)])
                self._connect(e, self.raise_exit)
            return []
        if isinstance(st, ast.Break):
            n = self._new("stmt", st)
            self._connect(ends, n)
            if self._loops:
                e = self._through_finally([(n, None)], self._loops[-1][2])
                self._loops[-1][1].extend(e)
            return []
        if isinstance(st, ast.Continue):
            n = self._new("stmt", st)
            self._connect(ends, n)
            if self._loops:
                e = self._through_finally([(n, None)], self._loops[-1][2])
                self._connect(e, self._loops[-1][0])
            return []
        if isinstance(st, (ast.FunctionDef, ast.AsyncFunctionDef, ast.ClassDef)):
            n = self._new("stmt", st, list(st.decorator_list))
            self._connect(ends, n)
            return [(n, None)]
        # simple statements
        exprs = []
        if isinstance(st, ast.Expr):
            exprs = [st.value]
        elif isinstance(st, ast.Assign):
            exprs = [st.value] + list(st.targets)
        elif isinstance(st, ast.AugAssign):
            exprs = [st.value, st.target]
        elif isinstance(st, ast.AnnAssign):
            exprs = [x for x in (st.value, st.target) if x is not None]
        elif isinstance(st, ast.Assert):
            exprs = [x for x in (st.test, st.msg) if x is not None]
        elif isinstance(st, ast.Delete):
            exprs = list(st.targets)
        n = self._new("stmt", st, exprs)
        self._connect(ends, n)
        self._exc_edges(n)
        return [(n, None)]

    # ------------------------------------------------------------------ queries
    def reachable(self):
        seen = set()
        stack = [self.entry]
        while stack:
            n = stack.pop()
            if n.id in seen:
                continue
            seen.add(n.id)
            stack.extend(s for s, _ in n.succ)
        return seen

    def forward_must(self, gen, kill=None):
        """Must-analysis: IN[n] = True iff on *every* path entry -> n some node with
        gen(node) was passed (and not killed afterwards).  Returns dict id -> bool
        (state *before* the node) and OUT likewise."""
        reach = self.reachable()
        IN = {n.id: True for n in self.nodes}
        OUT = {n.id: True for n in self.nodes}
        IN[self.entry.id] = False
        OUT[self.entry.id] = bool(gen(self.entry))
        changed = True
        while changed:
            changed = False
            for n in self.nodes:
                if n.id not in reach or n is self.entry:
                    continue
                preds = [p for p, _ in n.pred if p.id in reach]
                i = all(OUT[p.id] for p in preds) if preds else False
                o = i
                if kill is not None and kill(n):
                    o = False
                if gen(n):
                    o = True
                if i != IN[n.id] or o != OUT[n.id]:
                    IN[n.id], OUT[n.id] = i, o
                    changed = True
        return IN, OUT

    def must_pass(self, gen, kill=None):
        """True iff every path from entry to a normal return passes a gen-node.
        Vacuously True when no normal return is reachable."""
        IN, _ = self.forward_must(gen, kill)
        if self.exit.id not in self.reachable():
            return True
        return IN[self.exit.id]

    def may_reach_after(self, start, pred):
        """Nodes satisfying ``pred`` reachable strictly after ``start``."""
        seen = set()
        out = []
        stack = [s for s, _ in start.succ]
        while stack:
            n = stack.pop()
            if n.id in seen:
                continue
            seen.add(n.id)
            if pred(n):
                out.append(n)
            stack.extend(s for s, _ in n.succ)
        return out

    def dominators(self):
        reach = self.reachable()
        ids = [n.id for n in self.nodes if n.id in reach]
        dom = {i: set(ids) for i in ids}
        dom[self.entry.id] = {self.entry.id}
        changed = True
        while changed:
            changed = False
            for n in self.nodes:
                if n.id not in reach or n is self.entry:
                    continue
                preds = [p.id for p, _ in n.pred if p.id in reach]
                new = set.intersection(*(dom[p] for p in preds)) if preds else set()
                new = new | {n.id}
                if new != dom[n.id]:
                    dom[n.id] = new
                    changed = True
        return dom

    def dominates(self, a, b):
        dom = self.__dict__.get("_dom_cache")
        if dom is None:
            dom = self.__dict__["_dom_cache"] = self.dominators()
        return a.id in dom.get(b.id, ())

    def node_of(self, ast_node):
        """CFG node that evaluates the given expression / statement node."""
        for n in self.nodes:
            if n.stmt is ast_node:
                return n
            for e in n.exprs:
                for sub in ast.walk(e):
                    if sub is ast_node:
                        return n
        return None

    def guards_of(self, node):
        """Edge conditions that dominate ``node``: list of (test expr, branch bool)
        such that every path to ``node`` leaves that test through that branch."""
        dom = self.dominators()
        out = []
        for t in self.nodes:
            if t.kind != "test" or t.id not in dom.get(node.id, ()) or t is node:
                continue
            if not isinstance(t.stmt, ast.If):
                continue
            for branch in (True, False):
                heads = [s for s, lab in t.succ if lab == branch]
                other = [s for s, lab in t.succ if lab == (not branch)]
                if not heads:
                    continue
                # node reachable only through `branch` if removing that edge cuts it off
                if not self._reach_without(t, branch, node):
                    out.append((t.stmt.test, branch))
                _ = other
        return out

    def _reach_without(self, test, branch, target):
        """Is ``target`` reachable from entry when the ``branch`` edge of ``test`` is cut?"""
        seen = set()
        stack = [self.entry]
        while stack:
            n = stack.pop()
            if n.id in seen:
                continue
            seen.add(n.id)
            if n is target:
                return True
            for s, lab in n.succ:
                if n is test and lab == branch:
                    continue
                stack.append(s)
        return False


def rejecting_guards(cfg):
    """Conditions ``c`` such that ``if c: <always raises>``; yields (test node, expr)."""
    out = []
    for t in cfg.nodes:
        if t.kind == "test" and isinstance(t.stmt, ast.If):
            if block_always_raises(t.stmt.body):
                out.append((t, t.stmt.test, True))
            if t.stmt.orelse and block_always_raises(t.stmt.orelse):
                out.append((t, t.stmt.test, False))
    return out


def block_always_raises(stmts):
    for st in stmts:
        if isinstance(st, ast.Raise):
            return True
        if isinstance(st, ast.If) and st.orelse:
            if block_always_raises(st.body) and block_always_raises(st.orelse):
                return True
    return False
