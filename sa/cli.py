"""Command line: ``python -m sa.cli <property id> [--tier quick|thorough] [--root DIR] [--replay FILE]``."""
import argparse
import importlib
import json
import os
import sys
import traceback

HERE = os.path.dirname(os.path.abspath(__file__))
sys.path.insert(0, os.path.dirname(HERE))

from sa.index import Repo, AnalysisError  # noqa: E402
from sa import report  # noqa: E402


def run_property(prop, repo, tier="quick", seed=0):
    mod = importlib.import_module("sa.props." + prop.lower())
    ctx = report.Ctx(prop, repo, tier, seed)
    mod.run(ctx)
    return ctx


def main(argv=None):
    ap = argparse.ArgumentParser()
    ap.add_argument("prop")
    ap.add_argument("--tier", default=os.environ.get("VERIF_TIER") or "quick", choices=["quick", "thorough"])
    ap.add_argument("--root", default=os.environ.get("SA_REPO_ROOT", "/repo"))
    ap.add_argument("--replay")
    ap.add_argument("--no-evidence", action="store_true")
    ap.add_argument("--jobs", type=int, default=int(os.environ.get("SA_JOBS", "16")))
    a = ap.parse_args(argv)
    prop = a.prop.upper()
    seed = int(os.environ.get("VERIF_SEED", "0") or 0)
    try:
        repo = Repo(a.root)
        if repo.parse_errors:
            for rel, err in repo.parse_errors:
                print("ANALYSIS-ERROR property=%s parse error in %s: %s" % (prop, rel, err))
            return 2
        ctx = run_property(prop, repo, a.tier, seed)
        if a.replay:
            with open(a.replay) as f:
                rp = json.load(f)
            hit = [r for r in ctx.results if r["rule"] == rp["rule"] and r["construct"] == rp["construct"]]
            for r in hit:
                print("replay %s rule=%s construct=%s -> %s: %s" % (prop, r["rule"], r["construct"], r["verdict"], r["detail"]))
            bad = [r for r in hit if r["verdict"] == report.VIOLATION]
            if bad:
                print("VIOLATION property=%s replay=%s" % (prop, a.replay))
                return 1
            return 0 if hit else 2
        code = report.finalize(ctx, write_evidence=not a.no_evidence)
        if code == 0 and a.tier == "thorough":
            from sa import selftest
            code = selftest.run(prop, a.root, jobs=a.jobs, write=not a.no_evidence)
        return code
    except AnalysisError as e:
        print("ANALYSIS-ERROR property=%s %s" % (prop, e))
        return 2
    except Exception:  # internal error: never a VIOLATION
        tb = traceback.format_exc()
        print("ANALYSIS-ERROR property=%s internal error\n%s" % (prop, tb))
        return 2


if __name__ == "__main__":
    sys.exit(main())
