"""Static analysis machinery for the sktime verification task (stdlib only)."""
