#!/usr/bin/env python3
"""Re-evaluate every kept seed against all checks and refresh meta.json (detected_by / detected_rules / selftest)."""
import glob, json, os, re, subprocess, sys
from concurrent.futures import ThreadPoolExecutor
HERE = os.path.dirname(os.path.abspath(__file__))


def one(d):
    ev = subprocess.run([sys.executable, os.path.join(HERE, "tools_seed_eval.py"), d], capture_output=True, text=True).stdout
    det = []
    rules = {}
    cur = None
    for line in ev.splitlines():
        m = re.match(r"^(C\d\d): (\d+) new violations", line)
        if m:
            cur = m.group(1) if int(m.group(2)) > 0 else None
            if cur:
                det.append(cur)
            continue
        m = re.match(r"\s+VIOLATION (R\d+) ", line)
        if m and cur:
            rules.setdefault(cur, set()).add(m.group(1))
    mp = os.path.join(d, "meta.json")
    meta = json.load(open(mp))
    meta["detected_by"] = sorted(det)
    meta["detected_rules"] = sorted("%s-%s" % (p, r) for p, rs in rules.items() for r in rs)
    meta["selftest"] = meta["property"] in det
    json.dump(meta, open(mp, "w"), indent=1)
    return os.path.basename(d), meta["property"], meta["detected_by"], meta["detected_rules"]


dirs = sorted(glob.glob(os.path.join(HERE, "seeded", "*")))
with ThreadPoolExecutor(8) as ex:
    for sid, prop, det, rules in ex.map(one, dirs):
        flag = "" if prop in det else ("  <-- own check misses" if det else "  <-- NOT DETECTED")
        print("%-7s %s by=%s rules=%s%s" % (sid, prop, ",".join(det) or "-", ",".join(rules) or "-", flag))
