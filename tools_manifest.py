#!/usr/bin/env python3
"""Regenerates MANIFEST.json from sa/manifest_data.py (kept in one place so it is always valid)."""
import json, os, sys
HERE = os.path.dirname(os.path.abspath(__file__))
sys.path.insert(0, HERE)
from sa.manifest_data import build
m = build()
with open(os.path.join(HERE, "MANIFEST.json"), "w") as f:
    json.dump(m, f, indent=1)
try:
    import jsonschema
    jsonschema.validate(m, json.load(open("/root/.vp/MANIFEST.schema.json")))
    print("MANIFEST.json valid:", len(m["checks"]), "checks,", len(m.get("not_applicable", [])), "not applicable")
except ImportError:
    print("jsonschema not available; written without validation")
