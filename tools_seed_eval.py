#!/usr/bin/env python3
"""Evaluate seeded patches against the checks (in-memory overlay; nothing is written to /repo).

usage: tools_seed_eval.py <patch.diff or dir containing patch.diff> [PROP ...]
Prints, per property check, the new violations / undecided the patch causes.
"""
import glob, importlib, json, os, sys
HERE = os.path.dirname(os.path.abspath(__file__))
sys.path.insert(0, HERE)
from sa.index import Repo, AnalysisError
from sa.cli import run_property
from sa import report, selftest


def main():
    target = sys.argv[1]
    props = [p.upper() for p in sys.argv[2:]]
    if not props:
        props = sorted(os.path.basename(p)[:-3].upper() for p in glob.glob(os.path.join(HERE, "sa", "props", "c[0-9][0-9].py")))
    pf = target if target.endswith(".diff") else os.path.join(target, "patch.diff")
    root = os.environ.get("SA_REPO_ROOT", "/repo")

    def read(rel):
        return open(os.path.join(root, rel), encoding="utf-8").read()

    overlay = selftest.apply_unified_diff(read, open(pf).read())
    overlay = {k: v for k, v in overlay.items() if k.endswith(".py")}
    print("patch touches:", ", ".join(sorted(overlay)))
    known = {"%s|%s|%s" % (k["property"], k["rule"], k["construct"]) for k in report.load_known() if k.get("status", "known") == "known"}
    base_repo = Repo(root)
    mut_repo = Repo(root, overlay=overlay)
    any_hit = False
    for p in props:
        try:
            base = run_property(p, base_repo)
            bv, bu = selftest._violation_keys(base, known), selftest._undecided_keys(base)
            ctx = run_property(p, mut_repo)
            nv = selftest._violation_keys(ctx, known) - bv
            nu = selftest._undecided_keys(ctx) - bu
        except AnalysisError as e:
            nv, nu = set(), {("analysis", str(e))}
        except Exception as e:
            print("%s: internal error %r" % (p, e))
            continue
        if nv or nu:
            any_hit = any_hit or bool(nv)
            print("%s: %d new violations, %d new undecided" % (p, len(nv), len(nu)))
            for r in ctx.results if nv else []:
                if (r["rule"], r["construct"]) in nv:
                    print("   VIOLATION %s %s: %s" % (r["rule"], r["construct"], " ".join(str(r["detail"]).split())[:200]))
            for k in sorted(nu)[:5]:
                print("   UNDECIDED %s %s" % k)
    if not any_hit:
        print("NOT DETECTED by", ",".join(props))
    return 0


if __name__ == "__main__":
    sys.exit(main())
